// R7b (property C11): `line + 1` on the request's u32 line overflows for u32::MAX (panic in builds with overflow checks).
use pytest_language_server::FixtureDatabase;
use std::path::PathBuf;

#[test]
fn position_at_u32_max_is_answered() {
    let db = FixtureDatabase::new();
    let p = PathBuf::from("/tmp/verif_c11b/test_a.py");
    db.analyze_file(p.clone(), "def test_x(fx):\n    pass\n");
    let r = std::panic::catch_unwind(std::panic::AssertUnwindSafe(|| {
        let _ = db.find_fixture_definition(&p, u32::MAX, 0);
        let _ = db.find_fixture_at_position(&p, u32::MAX, 0);
        let _ = db.find_fixture_or_definition_at_position(&p, u32::MAX, 0);
        let _ = db.get_completion_context(&p, u32::MAX, 0);
    }));
    assert!(r.is_ok(), "a request at line u32::MAX panicked");
}
