// R3g (property C10): the plugin phases of the workspace scan hand text read from DISK to the cleaning analysis, so a
// plugin module that is already open in the editor (didOpen before the scan reaches it) loses its buffer content.
use pytest_language_server::FixtureDatabase;
use std::fs;
use std::path::{Path, PathBuf};

const ON_DISK: &str = "import pytest\n\n\n@pytest.fixture\ndef disk_only_fixture():\n    return 1\n";
const IN_EDITOR: &str = "import pytest\n\n\n@pytest.fixture\ndef buffer_only_fixture():\n    return 1\n";

fn names_in(db: &FixtureDatabase, file: &Path) -> Vec<String> {
    let mut v = Vec::new();
    for e in db.definitions.iter() {
        for d in e.value().iter() {
            if d.file_path == file {
                v.push(d.name.clone());
            }
        }
    }
    v.sort();
    v
}

fn workspace(entry_point: &str) -> (tempfile::TempDir, PathBuf, PathBuf) {
    let dir = tempfile::tempdir().unwrap();
    let root = dir.path().canonicalize().unwrap();
    let pkg = root.join("src").join("myproj");
    fs::create_dir_all(&pkg).unwrap();
    fs::write(pkg.join("__init__.py"), if entry_point == "myproj" { ON_DISK } else { "" }).unwrap();
    fs::write(pkg.join("plugin.py"), ON_DISK).unwrap();
    let sp = root.join(".venv/lib/python3.11/site-packages");
    let di = sp.join("myproj-0.1.0.dist-info");
    fs::create_dir_all(&di).unwrap();
    fs::write(di.join("entry_points.txt"), format!("[pytest11]\nmyproj = {}\n", entry_point)).unwrap();
    fs::write(di.join("direct_url.json"), format!("{{\"url\": \"file://{}\", \"dir_info\": {{\"editable\": true}}}}", root.display())).unwrap();
    fs::write(sp.join("__editable__.myproj-0.1.0.pth"), format!("{}\n", root.join("src").display())).unwrap();
    (dir, root, pkg)
}

#[test] // scan_single_plugin_file
fn open_plugin_module_keeps_its_buffer_through_the_scan() {
    let (_d, root, pkg) = workspace("myproj.plugin");
    let f = pkg.join("plugin.py");
    let db = FixtureDatabase::new();
    db.analyze_file(f.clone(), IN_EDITOR); // didOpen with unsaved changes
    db.scan_workspace(&root);
    assert_eq!(names_in(&db, &f), vec!["buffer_only_fixture".to_string()], "the editor buffer must win over the on-disk text");
}

#[test] // scan_plugin_directory
fn open_plugin_package_init_keeps_its_buffer_through_the_scan() {
    let (_d, root, pkg) = workspace("myproj");
    let f = pkg.join("__init__.py");
    let db = FixtureDatabase::new();
    db.analyze_file(f.clone(), IN_EDITOR);
    db.scan_workspace(&root);
    assert_eq!(names_in(&db, &f), vec!["buffer_only_fixture".to_string()], "the editor buffer must win over the on-disk text");
}
