// R3d-iv (property C07): closing an unmodified document must not change answers.
use pytest_language_server::FixtureDatabase;
use std::fs;

#[test]
fn closing_a_reexporting_conftest_keeps_completion() {
    let dir = tempfile::tempdir().unwrap();
    let root = dir.path().canonicalize().unwrap();
    let conftest = root.join("conftest.py");
    let fx = root.join("fx_mod.py");
    let test = root.join("test_a.py");
    let fx_src = "import pytest\n\n@pytest.fixture\ndef imported_fx():\n    return 1\n";
    fs::write(&fx, fx_src).unwrap();
    fs::write(&conftest, "from .fx_mod import *\n").unwrap();
    fs::write(&test, "def test_x(imported_fx):\n    pass\n").unwrap();
    let test_b = root.join("test_b.py");
    fs::write(&test_b, "def test_y(imported_fx):\n    pass\n").unwrap();
    let db = FixtureDatabase::new();
    db.scan_workspace(&root);
    let before: Vec<String> = db.get_available_fixtures(&test).into_iter().map(|d| d.name).collect();
    assert_eq!(before, vec!["imported_fx".to_string()]);
    db.cleanup_file_cache(&conftest);                 // didOpen + didClose of the unmodified conftest
    // a sibling test file whose view is not cached yet: same directory, so the same fixtures must be visible
    let after: Vec<String> = db.get_available_fixtures(&test_b).into_iter().map(|d| d.name).collect();
    assert_eq!(before, after, "closing an unmodified conftest changed the available fixtures");
}
