// R5d (property C05): in the same-file stage navigation takes the LAST definition of a redefined name while the per-file
// view (completion, inlay hints) and outgoing-call resolution take the FIRST one.
use pytest_language_server::FixtureDatabase;
use std::path::{Path, PathBuf};

#[test]
fn features_agree_on_a_redefined_fixture() {
    let src = "import pytest\n\n@pytest.fixture\ndef fx():\n    return 1\n\n@pytest.fixture\ndef fx():\n    return 2\n\ndef test_x(fx):\n    pass\n";
    let p = PathBuf::from("/tmp/vs1/test_a.py");
    let db = FixtureDatabase::new();
    db.analyze_file(p.clone(), src);
    let nav = db.find_fixture_definition(Path::new(&p), 10, 12).expect("navigation resolves").line;
    let view = db.get_available_fixtures(&p).into_iter().find(|d| d.name == "fx").expect("listed").line;
    let out = db.resolve_fixture_for_file(&p, "fx").expect("resolves").line;
    assert_eq!(nav, 8, "pytest uses the last definition");
    assert_eq!(view, nav, "completion / inlay-hint entry describes another definition than navigation");
    assert_eq!(out, nav, "outgoing-call resolution describes another definition than navigation");
}
