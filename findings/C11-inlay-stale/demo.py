#!/usr/bin/env python3
"""R7a (property C11), parameter_has_annotation: the inlay-hint handler applies the byte column recorded by the last
successful analysis to the CURRENT text. Open a valid document (usage `fx` recorded at column 11..13 of line 5), then change
it to an unparsable text whose line 5 has a multi-byte character covering byte 13, then request inlay hints.
usage: demo.py <path to pytest-language-server binary>   exit 0 = server answered, exit 1 = server died."""
import json, os, subprocess, sys, tempfile, time

def frame(obj):
    b = json.dumps(obj).encode()
    return b"Content-Length: %d\r\n\r\n" % len(b) + b

def read_msg(p, timeout=20):
    import select
    hdr = b""
    t0 = time.time()
    while b"\r\n\r\n" not in hdr:
        if time.time() - t0 > timeout:
            return None
        r, _, _ = select.select([p.stdout], [], [], 0.5)
        if not r:
            if p.poll() is not None:
                return None
            continue
        ch = p.stdout.read(1)
        if not ch:
            return None
        hdr += ch
    n = int([l for l in hdr.split(b"\r\n") if l.lower().startswith(b"content-length")][0].split(b":")[1])
    body = b""
    while len(body) < n:
        chunk = p.stdout.read(n - len(body))
        if not chunk:
            return None
        body += chunk
    return json.loads(body)

def wait_for(p, pred, timeout=30):
    t0 = time.time()
    while time.time() - t0 < timeout:
        m = read_msg(p, timeout=timeout)
        if m is None:
            return None
        if "id" in m and "method" in m:  # server -> client request: answer it
            p.stdin.write(frame({"jsonrpc": "2.0", "id": m["id"], "result": None})); p.stdin.flush()
            continue
        if pred(m):
            return m
    return None

def main():
    binary = sys.argv[1]
    d = tempfile.mkdtemp(prefix="verif_c11_inlay_")
    open(os.path.join(d, "conftest.py"), "w").write("import pytest\n\n@pytest.fixture\ndef fx() -> int:\n    return 1\n")
    tp = os.path.join(d, "test_a.py")
    valid = "import pytest\n\n\n\ndef test_x(fx):\n    pass\n"
    open(tp, "w").write(valid)
    p = subprocess.Popen([binary], stdin=subprocess.PIPE, stdout=subprocess.PIPE, stderr=subprocess.DEVNULL)
    uri = "file://" + tp
    p.stdin.write(frame({"jsonrpc": "2.0", "id": 1, "method": "initialize", "params": {"processId": None, "rootUri": "file://" + d, "capabilities": {}}})); p.stdin.flush()
    assert wait_for(p, lambda m: m.get("id") == 1) is not None, "no initialize response"
    p.stdin.write(frame({"jsonrpc": "2.0", "method": "initialized", "params": {}})); p.stdin.flush()
    time.sleep(1.5)  # let the background scan finish
    p.stdin.write(frame({"jsonrpc": "2.0", "method": "textDocument/didOpen", "params": {"textDocument": {"uri": uri, "languageId": "python", "version": 1, "text": valid}}})); p.stdin.flush()
    time.sleep(0.5)
    # unparsable now; line 5 (index 4): 12 ASCII bytes, then U+00E9 at bytes 12..13 -> recorded end_char 13 is inside it
    broken = "import pytest\n\n\n\ndef test_x(fé(:\n    pass\n"
    p.stdin.write(frame({"jsonrpc": "2.0", "method": "textDocument/didChange", "params": {"textDocument": {"uri": uri, "version": 2}, "contentChanges": [{"text": broken}]}})); p.stdin.flush()
    time.sleep(0.5)
    p.stdin.write(frame({"jsonrpc": "2.0", "id": 2, "method": "textDocument/inlayHint", "params": {"textDocument": {"uri": uri}, "range": {"start": {"line": 0, "character": 0}, "end": {"line": 10, "character": 0}}}})); p.stdin.flush()
    m = wait_for(p, lambda m: m.get("id") == 2, timeout=15)
    alive = p.poll() is None
    try:
        p.kill()
    except Exception:
        pass
    if m is None or not alive:
        print("FAIL: server did not answer the inlay-hint request (process %s)" % ("died" if not alive else "silent"))
        sys.exit(1)
    print("ok: server answered:", json.dumps(m)[:200])
    sys.exit(0)

main()
