// R3d-i / R3d-ii (property C07): version-stamped caches must be invalidated by every change they depend on.
use pytest_language_server::FixtureDatabase;
use std::fs;

fn names(db: &FixtureDatabase, p: &std::path::Path) -> Vec<String> {
    let mut v: Vec<String> = db.get_available_fixtures(p).into_iter().map(|d| d.name).collect();
    v.sort();
    v
}

// (i) deleting the last fixture of a file records nothing, so the version was never incremented
#[test]
fn deleting_last_fixture_invalidates_available_fixtures() {
    let dir = tempfile::tempdir().unwrap();
    let root = dir.path().canonicalize().unwrap();
    let conftest = root.join("conftest.py");
    let test = root.join("test_a.py");
    fs::write(&conftest, "").unwrap();
    fs::write(&test, "").unwrap();
    let db = FixtureDatabase::new();
    db.analyze_file(conftest.clone(), "import pytest\n\n@pytest.fixture\ndef only_fx():\n    return 1\n");
    db.analyze_file(test.clone(), "def test_x(only_fx):\n    pass\n");
    assert_eq!(names(&db, &test), vec!["only_fx".to_string()]);   // warm the cache
    db.analyze_file(conftest.clone(), "import pytest\n");          // edit removes the only definition
    let cold = FixtureDatabase::new();
    cold.analyze_file(conftest.clone(), "import pytest\n");
    cold.analyze_file(test.clone(), "def test_x(only_fx):\n    pass\n");
    assert_eq!(names(&db, &test), names(&cold, &test), "warm cache must equal a cold server");
}

// (ii) an edit that only changes a conftest's imports records no definition either
#[test]
fn import_only_edit_invalidates_available_fixtures() {
    let dir = tempfile::tempdir().unwrap();
    let root = dir.path().canonicalize().unwrap();
    let conftest = root.join("conftest.py");
    let fx = root.join("fx_mod.py");
    let test = root.join("test_a.py");
    let fx_src = "import pytest\n\n@pytest.fixture\ndef imported_fx():\n    return 1\n";
    fs::write(&fx, fx_src).unwrap();
    fs::write(&conftest, "from .fx_mod import *\n").unwrap();
    fs::write(&test, "").unwrap();
    let db = FixtureDatabase::new();
    db.analyze_file(fx.clone(), fx_src);
    db.analyze_file(conftest.clone(), "from .fx_mod import *\n");
    db.analyze_file(test.clone(), "def test_x(imported_fx):\n    pass\n");
    assert_eq!(names(&db, &test), vec!["imported_fx".to_string()]);
    fs::write(&conftest, "import os\n").unwrap();
    db.analyze_file(conftest.clone(), "import os\n");              // import removed, nothing recorded
    assert!(names(&db, &test).is_empty(), "imported fixture must disappear once the conftest no longer imports it: {:?}", names(&db, &test));
}
