// R6a (property C03): the generator-status visitor (contains_yield) must descend into the same blocks as the
// yield-line visitor (find_yield_in_stmt); otherwise a generator fixture gets a yield line but keeps the
// wrapped return type.
use pytest_language_server::FixtureDatabase;
use std::path::PathBuf;

fn def_of(src: &str) -> (Option<usize>, Option<String>) {
    let db = FixtureDatabase::new();
    let p = PathBuf::from("/tmp/verif_c03/conftest.py");
    db.analyze_file(p, src);
    let d = db.definitions.get("fx").unwrap()[0].clone();
    (d.yield_line, d.return_type)
}

#[test]
fn yield_inside_async_with_unwraps_return_type() {
    let (y, t) = def_of("import pytest\nfrom typing import AsyncIterator\n\n@pytest.fixture\nasync def fx() -> AsyncIterator[int]:\n    async with ctx():\n        yield 1\n");
    assert_eq!(y, Some(7));
    assert_eq!(t.as_deref(), Some("int"));
}

#[test]
fn yield_inside_async_for_unwraps_return_type() {
    let (y, t) = def_of("import pytest\nfrom typing import AsyncIterator\n\n@pytest.fixture\nasync def fx() -> AsyncIterator[int]:\n    async for x in src():\n        yield x\n");
    assert_eq!(y, Some(7));
    assert_eq!(t.as_deref(), Some("int"));
}

#[test]
fn yield_inside_except_handler_unwraps_return_type() {
    let (y, t) = def_of("import pytest\nfrom typing import Iterator\n\n@pytest.fixture\ndef fx() -> Iterator[int]:\n    try:\n        setup()\n    except Exception:\n        yield 0\n");
    assert_eq!(y, Some(9));
    assert_eq!(t.as_deref(), Some("int"));
}
