// R10a (property C13): the outcome of a scan, relative to the root, must not change when the workspace is moved.
use pytest_language_server::FixtureDatabase;
use std::fs;

fn scan_names(root: &std::path::Path) -> Vec<String> {
    fs::create_dir_all(root.join("tests")).unwrap();
    fs::write(root.join("tests/conftest.py"), "import pytest\n\n@pytest.fixture\ndef fx():\n    return 1\n").unwrap();
    fs::write(root.join("tests/test_a.py"), "def test_x(fx):\n    pass\n").unwrap();
    let db = FixtureDatabase::new();
    db.scan_workspace(root);
    let mut v: Vec<String> = db.definitions.iter().map(|e| e.key().clone()).collect();
    v.sort();
    v
}

#[test] // per-path component test ran over the ABSOLUTE path
fn workspace_below_a_directory_named_build_is_scanned() {
    let dir = tempfile::tempdir().unwrap();
    let base = dir.path().canonicalize().unwrap();
    let plain = scan_names(&base.join("work/proj"));
    let moved = scan_names(&base.join("build/proj"));
    assert_eq!(plain, vec!["fx".to_string()]);
    assert_eq!(plain, moved, "moving the workspace under `build/` changed what is indexed");
}

#[test] // filter_entry applied the ignore list to the root entry itself
fn workspace_root_named_like_an_ignored_directory_is_scanned() {
    let dir = tempfile::tempdir().unwrap();
    let base = dir.path().canonicalize().unwrap();
    let plain = scan_names(&base.join("proj"));
    let moved = scan_names(&base.join("vendor"));
    assert_eq!(plain, moved, "a workspace root called `vendor` is not scanned at all");
}
