// R3d-iii (property C07): get_imported_fixtures memoises a result that was truncated by the caller's visited set.
use pytest_language_server::FixtureDatabase;
use std::collections::HashSet;
use std::fs;

#[test]
fn mutually_importing_modules_give_order_independent_answers() {
    let dir = tempfile::tempdir().unwrap();
    let root = dir.path().canonicalize().unwrap();
    let a = root.join("mod_a.py");
    let b = root.join("mod_b.py");
    let a_src = "import pytest\nfrom .mod_b import *\n\n@pytest.fixture\ndef fx_a():\n    return 1\n";
    let b_src = "import pytest\nfrom .mod_a import *\n\n@pytest.fixture\ndef fx_b():\n    return 1\n";
    fs::write(&a, a_src).unwrap();
    fs::write(&b, b_src).unwrap();
    fs::write(root.join("__init__.py"), "").unwrap();
    let mk = || { let db = FixtureDatabase::new(); db.analyze_file(a.clone(), a_src); db.analyze_file(b.clone(), b_src); db };
    // cold: ask for b directly
    let cold = mk();
    let mut cold_b: Vec<String> = cold.get_imported_fixtures(&b, &mut HashSet::new()).into_iter().collect();
    cold_b.sort();
    // warm: ask for a first (which visits b with visited = {a} and caches b's truncated result), then b
    let warm = mk();
    let _ = warm.get_imported_fixtures(&a, &mut HashSet::new());
    let mut warm_b: Vec<String> = warm.get_imported_fixtures(&b, &mut HashSet::new()).into_iter().collect();
    warm_b.sort();
    assert_eq!(cold_b, warm_b, "answer for mod_b depends on which module was queried first");
}
