// R8c (property C18): while a document does not parse, the textual fallback must recognise every decorator spelling the
// AST recogniser accepts; `@pytest_asyncio.fixture` was not recognised, so inside such a fixture's signature completion
// treated the function as a non-fixture (no scope filtering, wrong is_fixture flag).
use pytest_language_server::{CompletionContext, FixtureDatabase};
use std::path::PathBuf;

fn ctx_for(decorator: &str) -> Option<CompletionContext> {
    let db = FixtureDatabase::new();
    let p = PathBuf::from("/tmp/verif_c18/conftest.py");
    // unparsable while typing the signature
    let src = format!("import pytest\nimport pytest_asyncio\n\n{}\nasync def my_fx(\n", decorator);
    db.analyze_file(p.clone(), &src);
    db.get_completion_context(&p, 4, 16)
}

fn is_fixture(c: Option<CompletionContext>) -> Option<bool> {
    match c {
        Some(CompletionContext::FunctionSignature { is_fixture, .. }) => Some(is_fixture),
        Some(CompletionContext::FunctionBody { is_fixture, .. }) => Some(is_fixture),
        _ => None,
    }
}

#[test]
fn pytest_fixture_is_recognised_by_text_fallback() {
    assert_eq!(is_fixture(ctx_for("@pytest.fixture")), Some(true));
}

#[test]
fn pytest_asyncio_fixture_is_recognised_by_text_fallback() {
    assert_eq!(is_fixture(ctx_for("@pytest_asyncio.fixture")), Some(true));
}

#[test]
fn pytest_asyncio_fixture_with_args_is_recognised_by_text_fallback() {
    assert_eq!(is_fixture(ctx_for("@pytest_asyncio.fixture(scope=\"session\")")), Some(true));
}
