// R7a (property C11): str slicing at offsets that are not proven char boundaries of the sliced string panics on
// multi-byte input.
use pytest_language_server::FixtureDatabase;
use std::fs;
use std::path::PathBuf;

#[test] // format_docstring: `&line[min_indent..]` with min_indent computed from OTHER lines
fn docstring_with_mixed_width_indentation_does_not_panic() {
    let db = FixtureDatabase::new();
    // second docstring line indented by one ASCII space, third by one U+3000 (3 bytes): min_indent = 1 lands inside it
    let src = "import pytest\n\n@pytest.fixture\ndef fx():\n    \"\"\"a\n x\n\u{3000}y\n\"\"\"\n    return 1\n";
    let r = std::panic::catch_unwind(std::panic::AssertUnwindSafe(|| db.analyze_file(PathBuf::from("/tmp/verif_c11/conftest.py"), src)));
    assert!(r.is_ok(), "analysis panicked on a docstring with multi-byte whitespace indentation");
}

#[test] // extract_package_name_from_dist_info: Iterator::position() (a char count) used as byte index
fn dist_info_name_with_non_ascii_does_not_abort_the_scan() {
    let dir = tempfile::tempdir().unwrap();
    let root = dir.path().canonicalize().unwrap();
    let sp = root.join(".venv/lib/python3.12/site-packages");
    fs::create_dir_all(sp.join("a\u{fc}-1.0.dist-info")).unwrap();
    fs::write(sp.join("a\u{fc}-1.0.dist-info/direct_url.json"), "{\"url\": \"file:///x\", \"dir_info\": {\"editable\": true}}").unwrap();
    fs::write(root.join("test_a.py"), "def test_x():\n    pass\n").unwrap();
    let db = FixtureDatabase::new();
    let r = std::panic::catch_unwind(std::panic::AssertUnwindSafe(|| db.scan_workspace(&root)));
    assert!(r.is_ok(), "workspace scan panicked on plugin metadata with a non-ASCII package name");
}
