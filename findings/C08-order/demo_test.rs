// R4c / R5a (properties C01, C05, C08, C16): selections that are not pinned to one file return whichever of several
// same-named definitions was registered first; R4a: answers filled in hash-iteration order differ between two
// identically built databases.  Each test builds the same workspace in two registration orders (or twice) and compares.
use pytest_language_server::{FixtureDatabase, FixtureDefinition};
use std::path::{Path, PathBuf};

fn db_in_order(files: &[(&str, &str)], plugins: &[&str], order: &[usize]) -> FixtureDatabase {
    let db = FixtureDatabase::new();
    for p in plugins {
        db.plugin_fixture_files.insert(PathBuf::from(p), ());
    }
    for &i in order {
        db.analyze_file(PathBuf::from(files[i].0), files[i].1);
    }
    db
}
fn loc(d: Option<FixtureDefinition>) -> Option<(PathBuf, usize)> {
    d.map(|d| (d.file_path, d.line))
}
const FX: &str = "import pytest\n\n@pytest.fixture\ndef shared():\n    return 1\n";

#[test] // find_closest_definition_with_filter call:find (imported-name branch) -- C01, C08
fn imported_name_branch_depends_on_registration_order() {
    let files = [
        ("/tmp/vo1/a/conftest.py", "from .fx import *\n"),
        ("/tmp/vo1/a/fx.py", FX),
        ("/tmp/vo1/b/conftest.py", FX),
        ("/tmp/vo1/a/test_a.py", "def test_x(shared):\n    pass\n"),
    ];
    let r1 = loc(db_in_order(&files, &[], &[0, 1, 2, 3]).find_fixture_definition(Path::new(files[3].0), 0, 12));
    let r2 = loc(db_in_order(&files, &[], &[0, 2, 1, 3]).find_fixture_definition(Path::new(files[3].0), 0, 12));
    assert_eq!(r1, r2);
    assert_eq!(r1.unwrap().0, PathBuf::from("/tmp/vo1/a/fx.py"), "a sibling directory's conftest is not visible");
}

#[test] // compute_available_fixtures call:first (imported names) -- C05, C08
fn available_imported_fixture_depends_on_registration_order() {
    let files = [
        ("/tmp/vo2/a/conftest.py", "from .fx import *\n"),
        ("/tmp/vo2/a/fx.py", FX),
        ("/tmp/vo2/b/conftest.py", FX),
        ("/tmp/vo2/a/test_a.py", "def test_x(shared):\n    pass\n"),
    ];
    let pick = |o: &[usize]| db_in_order(&files, &[], o).get_available_fixtures(Path::new(files[3].0)).into_iter().find(|d| d.name == "shared").map(|d| d.file_path);
    assert_eq!(pick(&[0, 1, 2, 3]), pick(&[0, 2, 1, 3]));
}

#[test] // third-party stage: early-exit loop / push / find on is_third_party -- C08
fn third_party_stage_navigation_depends_on_registration_order() {
    let files = [
        ("/tmp/vo3/venv/lib/python3.12/site-packages/pkg_a/plugin.py", FX),
        ("/tmp/vo3/venv/lib/python3.12/site-packages/pkg_b/plugin.py", FX),
        ("/tmp/vo3/tests/test_a.py", "def test_x(shared):\n    pass\n"),
    ];
    let t = Path::new(files[2].0);
    let a = db_in_order(&files, &[], &[0, 1, 2]);
    let b = db_in_order(&files, &[], &[1, 0, 2]);
    assert_eq!(loc(a.find_fixture_definition(t, 0, 12)), loc(b.find_fixture_definition(t, 0, 12)), "navigation");
}

#[test] // third-party stage: early-exit loop / push / find on is_third_party -- C08
fn third_party_stage_outgoing_resolution_depends_on_registration_order() {
    let files = [
        ("/tmp/vo3/venv/lib/python3.12/site-packages/pkg_a/plugin.py", FX),
        ("/tmp/vo3/venv/lib/python3.12/site-packages/pkg_b/plugin.py", FX),
        ("/tmp/vo3/tests/test_a.py", "def test_x(shared):\n    pass\n"),
    ];
    let t = Path::new(files[2].0);
    let a = db_in_order(&files, &[], &[0, 1, 2]);
    let b = db_in_order(&files, &[], &[1, 0, 2]);
    assert_eq!(loc(a.resolve_fixture_for_file(t, "shared")), loc(b.resolve_fixture_for_file(t, "shared")), "outgoing-call resolution");
}

#[test] // third-party stage: early-exit loop / push / find on is_third_party -- C08
fn third_party_stage_available_depends_on_registration_order() {
    let files = [
        ("/tmp/vo3/venv/lib/python3.12/site-packages/pkg_a/plugin.py", FX),
        ("/tmp/vo3/venv/lib/python3.12/site-packages/pkg_b/plugin.py", FX),
        ("/tmp/vo3/tests/test_a.py", "def test_x(shared):\n    pass\n"),
    ];
    let t = Path::new(files[2].0);
    let a = db_in_order(&files, &[], &[0, 1, 2]);
    let b = db_in_order(&files, &[], &[1, 0, 2]);
    let av = |db: &FixtureDatabase| db.get_available_fixtures(t).into_iter().find(|d| d.name == "shared").map(|d| d.file_path);
    assert_eq!(av(&a), av(&b), "available fixtures");
}

#[test] // plugin stage: early-exit loop / push / find on is_plugin -- C08
fn plugin_stage_navigation_depends_on_registration_order() {
    let files = [
        ("/tmp/vo4/plug_a/fixtures.py", FX),
        ("/tmp/vo4/plug_b/fixtures.py", FX),
        ("/tmp/vo4/tests/test_a.py", "def test_x(shared):\n    pass\n"),
    ];
    let plugins = [files[0].0, files[1].0];
    let t = Path::new(files[2].0);
    let a = db_in_order(&files, &plugins, &[0, 1, 2]);
    let b = db_in_order(&files, &plugins, &[1, 0, 2]);
    assert_eq!(loc(a.find_fixture_definition(t, 0, 12)), loc(b.find_fixture_definition(t, 0, 12)), "navigation");
}

#[test] // plugin stage: early-exit loop / push / find on is_plugin -- C08
fn plugin_stage_outgoing_resolution_depends_on_registration_order() {
    let files = [
        ("/tmp/vo4/plug_a/fixtures.py", FX),
        ("/tmp/vo4/plug_b/fixtures.py", FX),
        ("/tmp/vo4/tests/test_a.py", "def test_x(shared):\n    pass\n"),
    ];
    let plugins = [files[0].0, files[1].0];
    let t = Path::new(files[2].0);
    let a = db_in_order(&files, &plugins, &[0, 1, 2]);
    let b = db_in_order(&files, &plugins, &[1, 0, 2]);
    assert_eq!(loc(a.resolve_fixture_for_file(t, "shared")), loc(b.resolve_fixture_for_file(t, "shared")), "outgoing-call resolution");
}

#[test] // plugin stage: early-exit loop / push / find on is_plugin -- C08
fn plugin_stage_available_depends_on_registration_order() {
    let files = [
        ("/tmp/vo4/plug_a/fixtures.py", FX),
        ("/tmp/vo4/plug_b/fixtures.py", FX),
        ("/tmp/vo4/tests/test_a.py", "def test_x(shared):\n    pass\n"),
    ];
    let plugins = [files[0].0, files[1].0];
    let t = Path::new(files[2].0);
    let a = db_in_order(&files, &plugins, &[0, 1, 2]);
    let b = db_in_order(&files, &plugins, &[1, 0, 2]);
    let av = |db: &FixtureDatabase| db.get_available_fixtures(t).into_iter().find(|d| d.name == "shared").map(|d| d.file_path);
    assert_eq!(av(&a), av(&b), "available fixtures");
}

#[test] // resolve_fixture_for_file call:first (fallback) -- C05, C08
fn resolve_for_file_fallback_returns_invisible_definition() {
    let files = [
        ("/tmp/vo5/a/test_one.py", FX),
        ("/tmp/vo5/b/test_two.py", FX),
        ("/tmp/vo5/c/test_c.py", "def test_x(shared):\n    pass\n"),
    ];
    let t = Path::new(files[2].0);
    let a = db_in_order(&files, &[], &[0, 1, 2]);
    let b = db_in_order(&files, &[], &[1, 0, 2]);
    assert_eq!(loc(a.resolve_fixture_for_file(t, "shared")), loc(b.resolve_fixture_for_file(t, "shared")));
    assert_eq!(loc(a.resolve_fixture_for_file(t, "shared")), None, "another test module's fixture is not visible");
}

#[test] // compute_fixture_cycles call:first -- C16, C08
fn cycle_verdict_depends_on_registration_order() {
    let files = [
        ("/tmp/vo6/a/conftest.py", "import pytest\n\n@pytest.fixture\ndef fa(fb):\n    return 1\n\n@pytest.fixture\ndef fb(fa):\n    return 1\n"),
        ("/tmp/vo6/b/conftest.py", "import pytest\n\n@pytest.fixture\ndef fa():\n    return 1\n"),
    ];
    let n = |o: &[usize]| db_in_order(&files, &[], o).detect_fixture_cycles().len();
    assert_eq!(n(&[0, 1]), n(&[1, 0]), "the cycle fa -> fb -> fa of a/conftest.py must be reported whatever was analysed first");
}

#[test] // detect_scope_mismatches_in_file call:first -- C16, C08
fn scope_mismatch_depends_on_registration_order() {
    let files = [
        ("/tmp/vo7/a/conftest.py", "import pytest\n\n@pytest.fixture\ndef dep():\n    return 1\n\n@pytest.fixture(scope=\"session\")\ndef broad(dep):\n    return 1\n"),
        ("/tmp/vo7/b/conftest.py", "import pytest\n\n@pytest.fixture(scope=\"session\")\ndef dep():\n    return 1\n"),
    ];
    let n = |o: &[usize]| db_in_order(&files, &[], o).detect_scope_mismatches_in_file(Path::new(files[0].0)).len();
    assert_eq!(n(&[0, 1]), n(&[1, 0]));
    assert_eq!(n(&[1, 0]), 1, "a/conftest.py's own function-scoped `dep` is the one `broad` receives");
}
