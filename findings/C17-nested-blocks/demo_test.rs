// R6b (property C17): a plain use of a visible, undeclared fixture nested in these blocks is never flagged
// (visit_stmt_for_names does not descend there), and a local bound in such a block (collect_local_variables does not
// descend there) is not known as a local.
use pytest_language_server::FixtureDatabase;
use std::path::PathBuf;

fn undeclared(body: &str) -> Vec<String> {
    let db = FixtureDatabase::new();
    db.analyze_file(PathBuf::from("/tmp/verif_c17/conftest.py"), "import pytest\n\n@pytest.fixture\ndef db_conn():\n    return 1\n");
    let t = PathBuf::from("/tmp/verif_c17/test_x.py");
    let src = format!("def test_it():\n{}", body);
    db.analyze_file(t.clone(), &src);
    assert!(db.file_cache.contains_key(&t));
    db.get_undeclared_fixtures(&t).into_iter().map(|u| u.name).collect()
}

#[test]
fn use_in_for_orelse_is_flagged() {
    assert_eq!(undeclared("    for i in range(2):\n        pass\n    else:\n        db_conn.close()\n"), vec!["db_conn".to_string()]);
}

#[test]
fn use_in_async_for_orelse_is_flagged() {
    assert_eq!(undeclared("    async for i in gen():\n        pass\n    else:\n        db_conn.close()\n"), vec!["db_conn".to_string()]);
}

#[test]
fn use_in_while_orelse_is_flagged() {
    assert_eq!(undeclared("    while cond():\n        pass\n    else:\n        db_conn.close()\n"), vec!["db_conn".to_string()]);
}

#[test]
fn use_in_try_body_is_flagged() {
    assert_eq!(undeclared("    try:\n        db_conn.close()\n    finally:\n        pass\n"), vec!["db_conn".to_string()]);
}

#[test]
fn use_in_try_orelse_is_flagged() {
    assert_eq!(undeclared("    try:\n        pass\n    except ValueError:\n        pass\n    else:\n        db_conn.close()\n"), vec!["db_conn".to_string()]);
}

#[test]
fn use_in_try_finalbody_is_flagged() {
    assert_eq!(undeclared("    try:\n        pass\n    finally:\n        db_conn.close()\n"), vec!["db_conn".to_string()]);
}

#[test]
fn use_in_except_handler_body_is_flagged() {
    assert_eq!(undeclared("    try:\n        pass\n    except ValueError:\n        db_conn.close()\n"), vec!["db_conn".to_string()]);
}

#[test]
fn use_in_match_case_body_is_flagged() {
    assert_eq!(undeclared("    match mode():\n        case 1:\n            db_conn.close()\n"), vec!["db_conn".to_string()]);
}

#[test]
fn use_in_trystar_body_is_flagged() {
    assert_eq!(undeclared("    try:\n        db_conn.close()\n    except* ValueError:\n        pass\n"), vec!["db_conn".to_string()]);
}

#[test]
fn use_in_trystar_orelse_is_flagged() {
    assert_eq!(undeclared("    try:\n        pass\n    except* ValueError:\n        pass\n    else:\n        db_conn.close()\n"), vec!["db_conn".to_string()]);
}

#[test]
fn use_in_trystar_finalbody_is_flagged() {
    assert_eq!(undeclared("    try:\n        pass\n    except* ValueError:\n        pass\n    finally:\n        db_conn.close()\n"), vec!["db_conn".to_string()]);
}

#[test]
fn local_bound_in_for_orelse_is_not_flagged() {
    assert!(undeclared("    for i in range(2):\n        pass\n    else:\n        db_conn = 1\n    print(db_conn)\n").is_empty());
}

#[test]
fn local_bound_in_async_for_orelse_is_not_flagged() {
    assert!(undeclared("    async for i in gen():\n        pass\n    else:\n        db_conn = 1\n    print(db_conn)\n").is_empty());
}

#[test]
fn local_bound_in_while_orelse_is_not_flagged() {
    assert!(undeclared("    while cond():\n        pass\n    else:\n        db_conn = 1\n    print(db_conn)\n").is_empty());
}

#[test]
fn local_bound_in_except_handler_body_is_not_flagged() {
    assert!(undeclared("    try:\n        pass\n    except ValueError:\n        db_conn = 1\n    print(db_conn)\n").is_empty());
}

#[test]
fn local_bound_in_match_case_body_is_not_flagged() {
    assert!(undeclared("    match mode():\n        case 1:\n            db_conn = 1\n    print(db_conn)\n").is_empty());
}

#[test]
fn local_bound_in_trystar_body_is_not_flagged() {
    assert!(undeclared("    try:\n        db_conn = 1\n    except* ValueError:\n        pass\n    print(db_conn)\n").is_empty());
}

#[test]
fn local_bound_in_trystar_orelse_is_not_flagged() {
    assert!(undeclared("    try:\n        pass\n    except* ValueError:\n        pass\n    else:\n        db_conn = 1\n    print(db_conn)\n").is_empty());
}

#[test]
fn local_bound_in_trystar_finalbody_is_not_flagged() {
    assert!(undeclared("    try:\n        pass\n    except* ValueError:\n        pass\n    finally:\n        db_conn = 1\n    print(db_conn)\n").is_empty());
}
