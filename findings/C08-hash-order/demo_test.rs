// R4a (properties C08, C16): answers filled in the iteration order of a DashMap / default-hasher HashMap / HashSet and
// returned without sorting differ between two identically built databases (each map has its own random hasher state).
use pytest_language_server::FixtureDatabase;
use std::path::{Path, PathBuf};

// ---- R4a: hash-iteration order reaches the answer
fn many_files(db: &FixtureDatabase) {
    for i in 0..24 {
        db.analyze_file(PathBuf::from(format!("/tmp/vo8/pkg{}/test_m{}.py", i, i)), "def test_x(shared):\n    pass\n");
    }
}

#[test] // find_fixture_references -- C08
fn references_order_is_reproducible() {
    let mut orders = Vec::new();
    for _ in 0..6 {
        let db = FixtureDatabase::new();
        many_files(&db);
        orders.push(db.find_fixture_references("shared").into_iter().map(|u| u.file_path).collect::<Vec<_>>());
    }
    assert!(orders.windows(2).all(|w| w[0] == w[1]), "same workspace, different order of references between runs");
}

#[test] // compute_fixture_cycles (HashMap-ordered DFS roots) -- C16, C08
fn reported_cycles_are_reproducible() {
    let src = "import pytest\n\n@pytest.fixture\ndef c1(c2):\n    return 1\n\n@pytest.fixture\ndef c2(c3):\n    return 1\n\n@pytest.fixture\ndef c3(c1):\n    return 1\n\n@pytest.fixture\ndef d1(d2):\n    return 1\n\n@pytest.fixture\ndef d2(d1):\n    return 1\n\n@pytest.fixture\ndef e1(e2):\n    return 1\n\n@pytest.fixture\ndef e2(e3):\n    return 1\n\n@pytest.fixture\ndef e3(e1):\n    return 1\n";
    let mut outs = Vec::new();
    for _ in 0..8 {
        let db = FixtureDatabase::new();
        db.analyze_file(PathBuf::from("/tmp/vo9/conftest.py"), src);
        outs.push(db.detect_fixture_cycles().iter().map(|c| (c.fixture.name.clone(), c.cycle_path.clone())).collect::<Vec<_>>());
    }
    assert!(outs.windows(2).all(|w| w[0] == w[1]), "which cycles are reported, on which fixture and in which order varies between runs: {:?}", outs);
}

#[test] // detect_scope_mismatches_in_file (HashSet-ordered) -- C16, C08
fn scope_mismatch_order_is_reproducible() {
    let mut src = String::from("import pytest\n\n@pytest.fixture\ndef narrow():\n    return 1\n");
    for i in 0..12 {
        src.push_str(&format!("\n@pytest.fixture(scope=\"session\")\ndef broad{}(narrow):\n    return 1\n", i));
    }
    let mut outs = Vec::new();
    for _ in 0..6 {
        let db = FixtureDatabase::new();
        db.analyze_file(PathBuf::from("/tmp/vo10/conftest.py"), &src);
        outs.push(db.detect_scope_mismatches_in_file(Path::new("/tmp/vo10/conftest.py")).into_iter().map(|m| m.fixture.name).collect::<Vec<_>>());
    }
    assert!(outs.windows(2).all(|w| w[0] == w[1]), "order of scope-mismatch diagnostics varies between runs");
}

#[test] // handle_code_lens iterates definitions (DashMap) and pushes without sorting -- C08
fn definitions_iteration_order_is_not_reproducible_hence_code_lens_order() {
    let mut src = String::from("import pytest\n");
    for i in 0..16 {
        src.push_str(&format!("\n@pytest.fixture\ndef fx{}():\n    return 1\n", i));
    }
    let mut outs = Vec::new();
    for _ in 0..6 {
        let db = FixtureDatabase::new();
        db.analyze_file(PathBuf::from("/tmp/vo11/conftest.py"), &src);
        // exactly what handle_code_lens does (minus the LSP types): iterate, filter by file, push
        let mut lenses = Vec::new();
        for entry in db.definitions.iter() {
            for def in entry.value() {
                if def.file_path == Path::new("/tmp/vo11/conftest.py") {
                    lenses.push(def.line);
                }
            }
        }
        outs.push(lenses);
    }
    assert!(outs.windows(2).all(|w| w[0] == w[1]), "code-lens order (definitions.iter() order) varies between runs");
}
