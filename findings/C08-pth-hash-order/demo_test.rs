// R4h (property C08): `find_editable_pth_source_root` walks the `.pth` index -- a default-hasher HashMap -- and returns the source
// root of the FIRST stem that matches the package.  Two matching `.pth` files (setuptools' `__editable__.<pkg>-<ver>.pth` next to an
// old `_<pkg>.pth` / `<pkg>.pth`) are both candidates; which one wins follows the hash seed, which differs for every map (and every
// process).  The source root decides which files are classified third-party, i.e. the answers of every later query.
use pytest_language_server::FixtureDatabase;
use std::collections::BTreeSet;
use std::fs;

#[test]
fn editable_source_root_is_reproducible() {
    let base = std::env::temp_dir().join(format!("plsa_pth_{}", std::process::id()));
    let _ = fs::remove_dir_all(&base);
    let ws = base.join("ws");
    let sp = ws.join(".venv/lib/python3.11/site-packages");
    fs::create_dir_all(&sp).unwrap();
    let root_a = base.join("src_a");
    let root_b = base.join("src_b");
    fs::create_dir_all(&root_a).unwrap();
    fs::create_dir_all(&root_b).unwrap();
    fs::create_dir_all(sp.join("mypkg-1.0.dist-info")).unwrap();
    fs::write(sp.join("mypkg-1.0.dist-info/direct_url.json"), r#"{"url": "file:///x", "dir_info": {"editable": true}}"#).unwrap();
    fs::write(sp.join("__editable__.mypkg-1.0.pth"), format!("{}\n", root_a.display())).unwrap();
    fs::write(sp.join("_mypkg.pth"), format!("{}\n", root_b.display())).unwrap();
    fs::write(ws.join("test_x.py"), "def test_x():\n    pass\n").unwrap();

    let mut seen = BTreeSet::new();
    for _ in 0..40 {
        let db = FixtureDatabase::new();
        db.scan_workspace(&ws);
        let roots: Vec<_> = db.editable_install_roots.lock().unwrap().iter().map(|e| e.source_root.clone()).collect();
        seen.insert(roots);
    }
    let _ = fs::remove_dir_all(&base);
    assert_eq!(seen.len(), 1, "the same site-packages gives different editable source roots from scan to scan: {:?}", seen);
}
