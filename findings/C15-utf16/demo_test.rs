// R9 (property C15): columns are recorded in BYTES and compared with / sent as the protocol's UTF-16 columns unconverted.
use pytest_language_server::FixtureDatabase;
use std::path::PathBuf;

fn setup() -> (FixtureDatabase, PathBuf) {
    let db = FixtureDatabase::new();
    db.analyze_file(PathBuf::from("/tmp/verif_c15/conftest.py"), "import pytest\n\n@pytest.fixture\ndef db_conn():\n    return 1\n");
    let t = PathBuf::from("/tmp/verif_c15/test_a.py");
    // "def test_café(db_conn):" -- `db_conn` starts at UTF-16 column 14, byte column 15
    db.analyze_file(t.clone(), "def test_caf\u{e9}(db_conn):\n    pass\n");
    (db, t)
}

#[test] // R9a: the recorded column (sent as Position.character by every provider via `as u32`) is a byte offset
fn recorded_usage_column_is_utf16() {
    let (db, t) = setup();
    let u = db.usages.get(&t).unwrap()[0].clone();
    assert_eq!((u.start_char, u.end_char), (14, 21), "usage range of `db_conn` in UTF-16 columns");
}

#[test] // R9b: the cursor column of the request is compared with the byte span
fn navigation_from_first_character_of_the_token() {
    let (db, t) = setup();
    assert!(db.find_fixture_definition(&t, 0, 14).is_some(), "cursor on the `d` of db_conn (UTF-16 column 14)");
}
