// R6c (property C17): names bound by these forms are not collected as locals / parameters, so a later use of a name
// that happens to equal a visible fixture is flagged although it is a local variable.
use pytest_language_server::FixtureDatabase;
use std::path::PathBuf;

fn undeclared(body: &str) -> Vec<String> {
    let db = FixtureDatabase::new();
    db.analyze_file(PathBuf::from("/tmp/verif_c17/conftest.py"), "import pytest\n\n@pytest.fixture\ndef db_conn():\n    return 1\n");
    let t = PathBuf::from("/tmp/verif_c17/test_x.py");
    let src = format!("def test_it():\n{}", body);
    db.analyze_file(t.clone(), &src);
    assert!(db.file_cache.contains_key(&t));
    db.get_undeclared_fixtures(&t).into_iter().map(|u| u.name).collect()
}

#[test]
fn name_bound_by_import_is_local() {
    assert!(undeclared("    import db_conn\n    db_conn.x()\n").is_empty(), "{:?}", undeclared("    import db_conn\n    db_conn.x()\n"));
}

#[test]
fn name_bound_by_import_from_is_local() {
    assert!(undeclared("    from pkg import db_conn\n    db_conn.x()\n").is_empty(), "{:?}", undeclared("    from pkg import db_conn\n    db_conn.x()\n"));
}

#[test]
fn name_bound_by_nested_def_is_local() {
    assert!(undeclared("    def db_conn():\n        return 1\n    db_conn()\n").is_empty(), "{:?}", undeclared("    def db_conn():\n        return 1\n    db_conn()\n"));
}

#[test]
fn name_bound_by_nested_async_def_is_local() {
    assert!(undeclared("    async def db_conn():\n        return 1\n    db_conn()\n").is_empty(), "{:?}", undeclared("    async def db_conn():\n        return 1\n    db_conn()\n"));
}

#[test]
fn name_bound_by_nested_class_is_local() {
    assert!(undeclared("    class db_conn:\n        pass\n    db_conn()\n").is_empty(), "{:?}", undeclared("    class db_conn:\n        pass\n    db_conn()\n"));
}

#[test]
fn name_bound_by_except_as_is_local() {
    assert!(undeclared("    try:\n        pass\n    except ValueError as db_conn:\n        pass\n    print(db_conn)\n").is_empty(), "{:?}", undeclared("    try:\n        pass\n    except ValueError as db_conn:\n        pass\n    print(db_conn)\n"));
}

#[test]
fn name_bound_by_walrus_is_local() {
    assert!(undeclared("    if (db_conn := make()):\n        pass\n    print(db_conn)\n").is_empty(), "{:?}", undeclared("    if (db_conn := make()):\n        pass\n    print(db_conn)\n"));
}

#[test]
fn name_bound_by_comprehension_target_is_local() {
    assert!(undeclared("    xs = [1 for db_conn in range(3)]\n    ys = [db_conn for db_conn in range(3)]\n    print(ys)\n").is_empty(), "{:?}", undeclared("    xs = [1 for db_conn in range(3)]\n    ys = [db_conn for db_conn in range(3)]\n    print(ys)\n"));
}

#[test]
fn name_bound_by_match_as_is_local() {
    assert!(undeclared("    match val():\n        case [1, 2] as db_conn:\n            pass\n    print(db_conn)\n").is_empty(), "{:?}", undeclared("    match val():\n        case [1, 2] as db_conn:\n            pass\n    print(db_conn)\n"));
}

#[test]
fn name_bound_by_match_star_is_local() {
    assert!(undeclared("    match val():\n        case [1, *db_conn]:\n            pass\n    print(db_conn)\n").is_empty(), "{:?}", undeclared("    match val():\n        case [1, *db_conn]:\n            pass\n    print(db_conn)\n"));
}

#[test]
fn name_bound_by_match_mapping_rest_is_local() {
    assert!(undeclared("    match val():\n        case {'a': 1, **db_conn}:\n            pass\n    print(db_conn)\n").is_empty(), "{:?}", undeclared("    match val():\n        case {'a': 1, **db_conn}:\n            pass\n    print(db_conn)\n"));
}

#[test]
fn name_bound_by_global_decl_is_local() {
    assert!(undeclared("    global db_conn\n    print(db_conn)\n").is_empty(), "{:?}", undeclared("    global db_conn\n    print(db_conn)\n"));
}

#[test]
fn name_bound_by_nonlocal_decl_is_local() {
    assert!(undeclared("    nonlocal db_conn\n    print(db_conn)\n").is_empty(), "{:?}", undeclared("    nonlocal db_conn\n    print(db_conn)\n"));
}

fn undeclared_with_sig(sig: &str, body: &str) -> Vec<String> {
    let db = FixtureDatabase::new();
    db.analyze_file(PathBuf::from("/tmp/verif_c17/conftest.py"), "import pytest\n\n@pytest.fixture\ndef db_conn():\n    return 1\n");
    let t = PathBuf::from("/tmp/verif_c17/test_x.py");
    let src = format!("def test_it({}):\n{}", sig, body);
    db.analyze_file(t.clone(), &src);
    db.get_undeclared_fixtures(&t).into_iter().map(|u| u.name).collect()
}

#[test]
fn vararg_parameter_is_declared() {
    assert!(undeclared_with_sig("*db_conn", "    print(db_conn)\n").is_empty());
}

#[test]
fn kwarg_parameter_is_declared() {
    assert!(undeclared_with_sig("**db_conn", "    print(db_conn)\n").is_empty());
}
