// R6b (property C03): yield inside `match` cases or `try ... except*` blocks is invisible to both yield visitors:
// the fixture is not recognised as a generator (no yield line, wrapped return type).
use pytest_language_server::FixtureDatabase;
use std::path::PathBuf;

fn def_of(src: &str) -> (Option<usize>, Option<String>) {
    let db = FixtureDatabase::new();
    let p = PathBuf::from("/tmp/verif_c03b/conftest.py");
    db.analyze_file(p, src);
    let d = db.definitions.get("fx").expect("fixture fx must be indexed (source must parse)")[0].clone();
    (d.yield_line, d.return_type)
}

#[test]
fn yield_in_match_case_body() {
    let (y, t) = def_of("import pytest\nfrom typing import Iterator\n\n@pytest.fixture\ndef fx() -> Iterator[int]:\n    match mode():\n        case 1:\n            yield 1\n        case _:\n            yield 2\n");
    assert_eq!(y, Some(8), "yield line");
    assert_eq!(t.as_deref(), Some("int"), "generator return type must be unwrapped");
}

#[test]
fn yield_in_trystar_body() {
    let (y, t) = def_of("import pytest\nfrom typing import Iterator\n\n@pytest.fixture\ndef fx() -> Iterator[int]:\n    try:\n        yield 1\n    except* ValueError:\n        pass\n");
    assert_eq!(y, Some(7), "yield line");
    assert_eq!(t.as_deref(), Some("int"), "generator return type must be unwrapped");
}

#[test]
fn yield_in_trystar_orelse() {
    let (y, t) = def_of("import pytest\nfrom typing import Iterator\n\n@pytest.fixture\ndef fx() -> Iterator[int]:\n    try:\n        pass\n    except* ValueError:\n        pass\n    else:\n        yield 1\n");
    assert_eq!(y, Some(11), "yield line");
    assert_eq!(t.as_deref(), Some("int"), "generator return type must be unwrapped");
}

#[test]
fn yield_in_trystar_finalbody() {
    let (y, t) = def_of("import pytest\nfrom typing import Iterator\n\n@pytest.fixture\ndef fx() -> Iterator[int]:\n    try:\n        pass\n    except* ValueError:\n        pass\n    finally:\n        yield 1\n");
    assert_eq!(y, Some(11), "yield line");
    assert_eq!(t.as_deref(), Some("int"), "generator return type must be unwrapped");
}
