// Reproduces the finding reported by rule R3e2 (property C10) against the real library:
// a document opened (analyze_file = did_open) before the background scan visits it is analysed a second
// time from disk by the scan (analyze_file_fresh, no cleaning): the index then holds the fixture twice and the
// older on-disk text is what the file cache reflects.
use pytest_language_server::FixtureDatabase;
use std::fs;

#[test]
fn open_before_scan_visit_duplicates_definitions() {
    let dir = tempfile::tempdir().unwrap();
    let root = dir.path().canonicalize().unwrap();
    let f = root.join("test_a.py");
    let disk = "import pytest\n\n@pytest.fixture\ndef fx():\n    return 1\n";
    fs::write(&f, disk).unwrap();
    let db = FixtureDatabase::new();
    // didOpen with a buffer that differs from disk (fixture moved two lines down)
    let buffer = "import pytest\n\n\n\n@pytest.fixture\ndef fx():\n    return 1\n";
    db.analyze_file(f.clone(), buffer);
    // ... then the scan worker reaches the file
    db.scan_workspace(&root);
    let defs = db.definitions.get("fx").map(|d| d.clone()).unwrap_or_default();
    let in_file: Vec<_> = defs.iter().filter(|d| d.file_path == f).collect();
    assert_eq!(in_file.len(), 1, "index must reflect the document exactly once, got lines {:?}",
        in_file.iter().map(|d| d.line).collect::<Vec<_>>());
    assert_eq!(in_file[0].line, 6, "editor buffer must win over the on-disk text");
}
