"""Core model over the MIR fact files written by plsa-driver.

Everything here is purely structural: CFG helpers, def-use, dominators, access-path resolution,
call-graph construction.  No rule logic.
"""
import json
import os
import re
import sys
from collections import defaultdict

sys.setrecursionlimit(100000)


# ----------------------------------------------------------------------------- operands / places
def place_local(p):
    return p if isinstance(p, int) else p[0]


def place_projs(p):
    return [] if isinstance(p, int) else p[1]


def op_place(op):
    """place of a copy/move operand, else None"""
    if op[0] in ("cp", "mv"):
        return op[1]
    return None


def op_local(op):
    p = op_place(op)
    return None if p is None else place_local(p)


def op_const(op):
    return op[1] if op[0] == "c" else None


def op_str(op):
    c = op_const(op)
    if c is not None and "s" in c:
        return c["s"]
    return None


def proj_fields(projs):
    """[(owner, name)] for the named field projections of a place"""
    return [(e[3], e[2]) for e in projs if isinstance(e, list) and e[0] == "f"]


class Fn:
    __slots__ = (
        "d", "id", "kind", "phase", "parent", "root", "file", "line", "line_hi", "argc", "ret",
        "upvars", "locals", "blocks", "_defs", "_preds", "_dom", "_pdom", "crate", "_uses", "origin", "inlined", "inlined_calls",
    )

    def __init__(self, d, files, crate):
        self.d = d
        self.crate = crate
        self.id = d["id"]
        self.kind = d["kind"]
        self.phase = d["phase"]
        self.parent = d["parent"][0] if d["parent"] else None
        self.root = d["parent"][1] if d["parent"] else d["id"]
        sp = d["span"]
        self.file = files[sp[0]]
        self.line = sp[1]
        self.line_hi = sp[3]
        self.argc = d["argc"]
        self.ret = d["ret"]
        self.upvars = d["upvars"]
        self.locals = d["locals"]
        self.blocks = d["blocks"]
        self._defs = None
        self._preds = None
        self._dom = None
        self._pdom = None
        self._uses = None
        self.origin = None
        self.inlined = False
        self.inlined_calls = []

    # ---- naming
    @property
    def short(self):
        """name without impl noise: last path segments"""
        return self.id

    def local_ty(self, l):
        return self.locals[l]["ty"]

    def local_adts(self, l):
        return self.locals[l].get("adts", [])

    def local_name(self, l):
        return self.locals[l].get("name")

    # ---- CFG
    def term(self, bb):
        return self.blocks[bb]["t"]

    def succs(self, bb, unwind=False):
        t = self.blocks[bb]["t"]
        k = t[0]
        out = []
        if k == "goto":
            out = [t[1]]
        elif k == "switch":
            out = [a[1] for a in t[2]] + [t[3]]
        elif k == "drop":
            out = [t[2]]
            if unwind and t[3] is not None:
                out.append(t[3])
        elif k == "call":
            c = t[1]
            if c["target"] is not None:
                out = [c["target"]]
            if unwind and c["unwind"] is not None:
                out.append(c["unwind"])
        elif k == "assert":
            out = [t[5]]
            if unwind and t[6] is not None:
                out.append(t[6])
        elif k == "yield":
            out = [t[2]]
            # the drop edge (t[4]) is the cancellation path; treated like unwind
            if unwind and t[4] is not None:
                out.append(t[4])
        # de-dup keeping order
        seen = set()
        res = []
        for x in out:
            if x not in seen:
                seen.add(x)
                res.append(x)
        return res

    def preds(self):
        if self._preds is None:
            p = defaultdict(list)
            for bb in range(len(self.blocks)):
                for s in self.succs(bb):
                    p[s].append(bb)
            self._preds = p
        return self._preds

    def reachable(self):
        seen = {0}
        st = [0]
        while st:
            b = st.pop()
            for s in self.succs(b):
                if s not in seen:
                    seen.add(s)
                    st.append(s)
        return seen

    def exits(self):
        return [bb for bb in self.reachable() if self.blocks[bb]["t"][0] in ("ret",)]

    def dominators(self):
        """dom[b] = set of blocks dominating b (normal edges only)"""
        if self._dom is None:
            reach = self.reachable()
            order = self._rpo()
            preds = self.preds()
            dom = {b: None for b in reach}
            dom[0] = {0}
            changed = True
            while changed:
                changed = False
                for b in order:
                    if b == 0:
                        continue
                    ps = [dom[p] for p in preds[b] if p in reach and dom[p] is not None]
                    if not ps:
                        continue
                    new = set.intersection(*ps) | {b}
                    if new != dom[b]:
                        dom[b] = new
                        changed = True
            self._dom = dom
        return self._dom

    def _rpo(self):
        seen = set()
        post = []
        st = [(0, iter(self.succs(0)))]
        seen.add(0)
        while st:
            b, it = st[-1]
            adv = False
            for s in it:
                if s not in seen:
                    seen.add(s)
                    st.append((s, iter(self.succs(s))))
                    adv = True
                    break
            if not adv:
                post.append(b)
                st.pop()
        return post[::-1]

    def postdominators(self):
        """pdom[b] = set of blocks post-dominating b w.r.t. normal return exits"""
        if self._pdom is None:
            reach = self.reachable()
            exits = set(self.exits())
            EXIT = -1
            # only successors from which a normal return is reachable count: an `unreachable` arm of a match, or a path that
            # ends in a panic, is not a way to leave the function normally and must not dilute post-dominance
            preds = self.preds()
            canret, st = set(exits), list(exits)
            while st:
                x = st.pop()
                for p0 in preds.get(x, []):
                    if p0 not in canret and p0 in reach:
                        canret.add(p0)
                        st.append(p0)
            succs = {b: [s2 for s2 in self.succs(b) if s2 in canret] for b in reach}
            for b in exits:
                succs[b] = [EXIT]
            nodes = set(reach) | {EXIT}
            pdom = {b: set(nodes) for b in nodes}
            pdom[EXIT] = {EXIT}
            changed = True
            while changed:
                changed = False
                for b in reach:
                    ss = [pdom[s] for s in succs[b] if s in pdom]
                    if not ss:
                        new = {b}  # diverging block (panic/unreachable): post-dominated by itself only
                    else:
                        new = set.intersection(*ss) | {b}
                    if new != pdom[b]:
                        pdom[b] = new
                        changed = True
            self._pdom = pdom
        return self._pdom

    # ---- statements
    def calls(self):
        for bb, b in enumerate(self.blocks):
            t = b["t"]
            if t[0] == "call":
                yield bb, t[1]

    def assigns(self):
        for bb, b in enumerate(self.blocks):
            for si, s in enumerate(b["s"]):
                if s[0] == "=":
                    yield bb, si, s[1], s[2], s[3]

    def defs(self):
        """local -> list of definitions: ('assign', bb, si, rvalue, place) / ('call', bb, call) /
        ('arg', i) / ('yield', bb)"""
        if self._defs is None:
            d = defaultdict(list)
            for i in range(1, self.argc + 1):
                d[i].append(("arg", i))
            for bb, si, pl, rv, _sp in self.assigns():
                d[place_local(pl)].append(("assign", bb, si, rv, pl))
            for bb, c in self.calls():
                d[place_local(c["dest"])].append(("call", bb, c))
            for bb, b in enumerate(self.blocks):
                if b["t"][0] == "yield":
                    d[place_local(b["t"][3])].append(("yield", bb))
            self._defs = d
        return self._defs

    def whole_defs(self, l):
        """definitions that write the whole local (no projection on the destination)"""
        out = []
        for d in self.defs().get(l, []):
            if d[0] == "assign" and not isinstance(d[4], int):
                continue
            if d[0] == "call" and not isinstance(d[2]["dest"], int):
                continue
            out.append(d)
        return out


def call_span(files, c):
    sp = c["span"]
    return "%s:%d" % (files[sp[0]], sp[1])


def is_exp(span, kinds=("macro:",)):
    e = span[4]
    return any(e.startswith(k) for k in kinds)


class Crate:
    def __init__(self, path):
        from .canon import canonicalise_text
        with open(path) as f:
            text = f.read()
        # repository types found by role are given the names the rule layer uses (see canon.py)
        text, self.type_renames = canonicalise_text(text)
        d = json.loads(text)
        self.path = path
        self.name = d["crate"]
        self.is_bin = d["is_bin"]
        self.run_id = d["run_id"]
        self.files = d["files"]
        self.adts = {a["path"]: a for a in d["adts"]}
        self.fns = {}
        self.dups = []
        for fd in d["fns"]:
            fn = Fn(fd, self.files, self)
            if fn.id in self.fns:
                self.dups.append(fn.id)
            self.fns[fn.id] = fn
        self.label = "bin" if self.is_bin else "lib"
        self._cg = None
        self._closure_sites = None

    def fn(self, suffix, kind=None):
        """unique function whose id ends with `suffix` (path-segment aligned)"""
        m = [f for f in self.fns.values() if (f.id == suffix or f.id.endswith("::" + suffix)) and "promoted[" not in f.id]
        if kind:
            m = [f for f in m if f.kind == kind]
        if len(m) == 1:
            return m[0]
        return None

    def fns_named(self, suffix):
        return [f for f in self.fns.values() if (f.id == suffix or f.id.endswith("::" + suffix)) and "promoted[" not in f.id]

    def real_fns(self):
        return [f for f in self.fns.values() if f.phase not in ("promoted", "const")]

    def const_literals(self, path, depth=0):
        """string literals of a constant item (and of its promoted bodies / constants it refers to)"""
        out = set()
        if depth > 3:
            return out
        for fid, g in self.fns.items():
            if fid == path or fid.startswith(path + "::promoted["):
                for bb, si, pl, rv, sp in g.assigns():
                    ops = rv[2] if rv[0] == "agg" else [rv[1]] if rv[0] in ("use",) else []
                    for o in ops:
                        if isinstance(o, list) and o[0] == "c":
                            if "s" in o[1]:
                                out.add(o[1]["s"])
                            elif "named" in o[1]:
                                out |= self.const_literals(o[1]["named"], depth + 1)
                            elif "promoted" in o[1]:
                                out |= self.const_literals("%s::promoted[%d]" % (o[1]["of"], o[1]["promoted"]), depth + 1)
        return out

    def span_str(self, sp):
        return "%s:%d" % (self.files[sp[0]], sp[1])

    # ---- closure construction sites: closure id -> (parent fn, bb, si, operands)
    def closure_sites(self):
        if self._closure_sites is None:
            cs = {}
            for f in self.real_fns():
                for bb, si, pl, rv, sp in f.assigns():
                    if rv[0] == "agg" and rv[1][0] in ("closure", "coroutine", "coroutine_closure"):
                        cs[rv[1][1]] = (f, bb, si, rv[2], place_local(pl))
            self._closure_sites = cs
        return self._closure_sites


# ----------------------------------------------------------------------------- access paths
PASS_THROUGH = (
    "std::ops::Deref>::deref",
    "std::ops::DerefMut>::deref_mut",
    "std::clone::Clone>::clone",
    "std::convert::AsRef",
    "std::borrow::Borrow",
    "std::convert::Into<",
    "std::convert::From<",
    "std::sync::Arc::<T>::clone",
)


def is_pass_through(c):
    r = c.get("res", "")
    f = c.get("fn", "")
    if f in ("std::ops::Deref::deref", "std::ops::DerefMut::deref_mut", "std::clone::Clone::clone",
             "std::convert::AsRef::as_ref", "std::borrow::Borrow::borrow", "std::convert::AsMut::as_mut",
             "std::borrow::BorrowMut::borrow_mut"):
        return True
    return False


class Path:
    """Symbolic access path: root + field chain.  root kinds: ('param', i), ('upvar', closure_id, idx, name),
    ('call', callee, bb), ('const', c), ('agg', kind), ('unknown', why), ('multi', [paths])"""
    __slots__ = ("root", "fields", "via")

    def __init__(self, root, fields=(), via=()):
        self.root = root
        self.fields = tuple(fields)
        self.via = tuple(via)

    def with_fields(self, fs):
        return Path(self.root, self.fields + tuple(fs), self.via)

    def __repr__(self):
        return "Path(%r, %r)" % (self.root, self.fields)


def resolve_local(crate, fn, l, depth=0, seen=None):
    """Access paths a local may denote (following single-/multi-definition copies, references,
    Deref/Clone/AsRef calls and closure captures).  Returns a list of Path."""
    if seen is None:
        seen = set()
    key = (fn.id, l)
    if key in seen or depth > 40:
        return [Path(("unknown", "cycle"))]
    seen = seen | {key}
    # closure environment
    out = []
    ds = fn.whole_defs(l)
    if not ds:
        return [Path(("unknown", "nodef:%s:_%d" % (fn.id, l)))]
    for d in ds:
        if d[0] == "arg":
            out.append(Path(("param", d[1], fn.id)))
        elif d[0] == "yield":
            out.append(Path(("unknown", "resume")))
        elif d[0] == "call":
            c = d[2]
            if is_pass_through(c) and c["args"]:
                out.extend(resolve_operand(crate, fn, c["args"][0], depth + 1, seen))
            else:
                out.append(Path(("call", c.get("res") or c.get("fn") or "fnptr", d[1], fn.id)))
        else:
            rv = d[3]
            k = rv[0]
            if k == "use":
                out.extend(resolve_operand(crate, fn, rv[1], depth + 1, seen))
            elif k in ("ref", "rawptr"):
                out.extend(resolve_place(crate, fn, rv[2] if k == "ref" else rv[1], depth + 1, seen))
            elif k == "cast":
                out.extend(resolve_operand(crate, fn, rv[2], depth + 1, seen))
            elif k == "agg":
                out.append(Path(("agg", json.dumps(rv[1]), d[1], fn.id)))
            else:
                out.append(Path(("expr", k, d[1], fn.id)))
    return out


def resolve_operand(crate, fn, op, depth=0, seen=None):
    if op[0] == "c":
        return [Path(("const", json.dumps(op[1], sort_keys=True)))]
    return resolve_place(crate, fn, op[1], depth, seen)


def resolve_place(crate, fn, place, depth=0, seen=None):
    l = place_local(place)
    projs = place_projs(place)
    fields = proj_fields(projs)
    # closure upvar access: _1 is the closure env
    if l == 1 and fn.kind in ("closure", "coroutine") and fields and fields[0][0].startswith("closure:"):
        # find index
        idx = None
        for e in projs:
            if isinstance(e, list) and e[0] == "f":
                idx = e[1]
                break
        rest = fields[1:]
        site = crate.closure_sites().get(fn.id)
        if site is not None and idx is not None and idx < len(site[3]):
            pf, _bb, _si, ops, _dl = site
            base = resolve_operand(crate, pf, ops[idx], depth + 1, seen)
            return [p.with_fields(rest) for p in base]
        return [Path(("upvar", fn.id, idx, fields[0][1]), rest)]
    base = resolve_local(crate, fn, l, depth + 1, seen)
    return [p.with_fields(fields) for p in base]


def struct_fields_of(paths, owner_prefixes=("std::", "core::", "alloc::", "tuple", "closure:", "?")):
    """for each path, the repo-struct fields on it, in order"""
    res = []
    for p in paths:
        fs = [(o, n) for (o, n) in p.fields if not o.startswith(owner_prefixes)]
        res.append(fs)
    return res


# ----------------------------------------------------------------------------- call graph
SPAWN_FNS = (
    "tokio::spawn", "tokio::task::spawn", "tokio::task::spawn_blocking", "std::thread::spawn",
    "tokio::task::spawn::spawn", "tokio::task::blocking::spawn_blocking", "tokio::runtime::Handle::spawn",
    "tokio::runtime::Handle::spawn_blocking",
)


def is_spawn(c):
    r = c.get("res", "") or ""
    f = c.get("fn", "") or ""
    for s in SPAWN_FNS:
        if r == s or f == s or r.startswith(s + "::<") or f.startswith(s + "::<"):
            return True
    return False


def _closures_behind(crate, f, l, depth=0, seen=None):
    """closure ids whose value reaches local l through casts / refs / copies (trait-object coercions)"""
    seen = seen if seen is not None else set()
    if l is None or l in seen or depth > 8:
        return set()
    seen.add(l)
    out = set()
    ty = f.local_ty(l)
    m = re.search(r"\{closure@([^:}]+):(\d+):(\d+)", ty)
    if m:
        for g in crate.fns.values():
            if g.kind == "closure" and g.root == f.root and getattr(g, "file", None) and str(g.file).endswith(m.group(1).split("/")[-1]) and g.line == int(m.group(2)):
                out.add(g.id)
        if out:
            return out
    for d in f.whole_defs(l):
        if d[0] == "assign":
            rv = d[3]
            src = op_local(rv[1]) if rv[0] == "use" else place_local(rv[2]) if rv[0] == "ref" else op_local(rv[2]) if rv[0] == "cast" else None
            out |= _closures_behind(crate, f, src, depth + 1, seen)
    return out


class CallGraph:
    """Crate-local call graph.  edges[f] = list of (bb, callee_id, via) where via is
    'direct' | 'closure-arg' | 'fn-param' | 'spawn'."""

    def __init__(self, crate):
        self.crate = crate
        fns = crate.fns
        edges = defaultdict(list)
        # closures handed to calls of a generic function G: G's Fn-param calls resolve to them
        passed_to = defaultdict(set)
        for f in crate.real_fns():
            for bb, c in f.calls():
                res = c.get("res")
                local_target = res if (c.get("res_local") and res in fns) else None
                spawn = is_spawn(c)
                if local_target:
                    edges[f.id].append((bb, local_target, "direct"))
                for cid, is_local in c.get("clos", []):
                    if is_local and cid in fns:
                        if cid == local_target:
                            continue
                        edges[f.id].append((bb, cid, "spawn" if spawn else "closure-arg"))
                        if local_target:
                            passed_to[local_target].add(cid)
                # fn items passed as values in arguments
                for a in c["args"]:
                    k = op_const(a)
                    if k and k.get("res_local") and k.get("res") in fns:
                        edges[f.id].append((bb, k["res"], "spawn" if spawn else "closure-arg"))
                        if local_target:
                            passed_to[local_target].add(k["res"])
                # closures handed over as trait objects (`&mut |b| ..` coerced to `&mut dyn FnMut(..)`): the closure type is not
                # among the callee's generic arguments; find it through the unsizing cast of the argument
                if local_target:
                    for a in c["args"]:
                        al = op_local(a)
                        if al is None or "dyn " not in f.local_ty(al) or not re.search(r"dyn (for<[^>]*> )?(std::ops::)?Fn", f.local_ty(al)):
                            continue
                        for cid in _closures_behind(crate, f, al):
                            edges[f.id].append((bb, cid, "closure-arg"))
                            passed_to[local_target].add(cid)
        for h, cs in getattr(crate, "helper_passed", {}).items():
            passed_to[h] |= cs
        # a function that forwards its own Fn parameter to a helper hands it the closures it received itself
        direct_callers = defaultdict(set)
        for f in crate.real_fns():
            for bb, c in f.calls():
                if c.get("res_local") and c.get("res") in fns:
                    direct_callers[c["res"]].add(f.root)
        changed = True
        rounds = 0
        while changed and rounds < 5:
            changed = False
            rounds += 1
            for g, cs in direct_callers.items():
                for caller in cs:
                    extra = passed_to.get(caller, set()) - passed_to.get(g, set())
                    if extra and any(re.match(r"^&?(mut )?[A-Z][A-Za-z0-9]*$", fns[g].local_ty(i)) for i in range(1, fns[g].argc + 1)):
                        passed_to[g] |= extra
                        changed = True
        # Fn::call on a type parameter inside G (or closures nested in G)
        self.unresolved_param_calls = []
        for f in crate.real_fns():
            for bb, c in f.calls():
                fnn = c.get("fn", "")
                if fnn in ("std::ops::Fn::call", "std::ops::FnMut::call_mut", "std::ops::FnOnce::call_once"):
                    if not [x for x in c.get("clos", []) if x[1]]:
                        # callee type is a generic parameter (or an external closure)
                        targs = c.get("targs", [])
                        if targs and (targs[0].startswith("{closure@/") or targs[0].startswith("&{closure@/")):
                            continue  # closure defined in another crate (macro support)
                        cands = passed_to.get(f.root, set()) | passed_to.get(f.id, set())
                        if cands:
                            for cid in sorted(cands):
                                edges[f.id].append((bb, cid, "fn-param"))
                        else:
                            self.unresolved_param_calls.append((f.id, bb, targs[:1]))
        self.edges = edges
        self.passed_to = passed_to

    def callees(self, fid, include_spawn=False):
        return [(bb, t, via) for (bb, t, via) in self.edges.get(fid, []) if include_spawn or via != "spawn"]

    def reach(self, roots, include_spawn=False):
        seen = set()
        st = list(roots)
        while st:
            f = st.pop()
            if f in seen:
                continue
            seen.add(f)
            for _bb, t, _via in self.callees(f, include_spawn):
                if t not in seen:
                    st.append(t)
        return seen

    def sccs(self, include_spawn=True):
        """Tarjan; returns list of SCCs (lists of fn ids) that contain a cycle"""
        index = {}
        low = {}
        onst = set()
        st = []
        out = []
        counter = [0]
        nodes = list(self.crate.fns.keys())
        adj = {n: sorted({t for _bb, t, _v in self.callees(n, include_spawn)}) for n in nodes}

        def strong(v):
            work = [(v, 0)]
            while work:
                v, i = work.pop()
                if i == 0:
                    index[v] = low[v] = counter[0]
                    counter[0] += 1
                    st.append(v)
                    onst.add(v)
                recurse = False
                ws = adj.get(v, [])
                while i < len(ws):
                    w = ws[i]
                    i += 1
                    if w not in index:
                        work.append((v, i))
                        work.append((w, 0))
                        recurse = True
                        break
                    elif w in onst:
                        low[v] = min(low[v], index[w])
                if recurse:
                    continue
                if low[v] == index[v]:
                    comp = []
                    while True:
                        w = st.pop()
                        onst.discard(w)
                        comp.append(w)
                        if w == v:
                            break
                    if len(comp) > 1 or v in adj.get(v, []):
                        out.append(sorted(comp))
                if work:
                    u = work[-1][0]
                    low[u] = min(low[u], low[v])

        for n in nodes:
            if n not in index:
                strong(n)
        return out


_LOCK_PARAM = re.compile(r"dashmap::DashMap<|std::sync::Mutex<|std::sync::RwLock<|tokio::sync::RwLock<|tokio::sync::Mutex<")


def specialise_lock_param_helpers(crate):
    """A helper that is handed a lock / concurrent map by reference (`fn lookup(cache: &DashMap<..>, ..)`) has no lock
    identity of its own: the identity is the caller's argument.  Every call of such a helper is replaced by the helper's
    body in the caller (inline_fn), so that all lock / map rules see the operation where its receiver resolves to a struct
    field.  Helpers all of whose calls could be replaced are recorded in crate.lock_param_helpers and skipped by the lock
    model; a helper with a remaining call keeps its (unresolvable) operations, which the rules report."""
    H = set()
    for f in crate.real_fns():
        if f.kind in ("fn", "method") and f.phase == "elaborated":
            for i in range(1, f.argc + 1):
                ty = f.local_ty(i)
                if ty.startswith("&") and _LOCK_PARAM.search(ty):
                    H.add(f.id)
    crate.lock_param_helpers = set()
    if not H:
        return
    # closures handed to a helper at its (about to be replaced) call sites: the helper's own Fn-parameter calls resolve to them
    crate.helper_passed = defaultdict(set)
    for g in crate.real_fns():
        for _bb, c in g.calls():
            if c.get("res") in H and c.get("res_local"):
                for cid, is_local in c.get("clos", []):
                    if is_local and cid in crate.fns:
                        crate.helper_passed[c["res"]].add(cid)
    for g in list(crate.real_fns()):
        if any(c.get("res") in H and c.get("res_local") for _bb, c in g.calls()):
            crate.fns[g.id] = inline_fn(crate, g, depth=3, max_blocks=400, pred=lambda x: x.id in H)
    remaining = {c.get("res") for g in crate.real_fns() if g.id not in H for _bb, c in g.calls()} & H
    # a helper calling another helper: the inner one is inlined into the outer one, and the outer into its callers
    crate.lock_param_helpers = H - remaining
    crate._closure_sites = None


def splice_cache_accessors(crate):
    """A stamped cache (a concurrent-map field whose value is a tuple led by u64 stamps) may be looked up and stored through
    small accessor methods of their own (`cached_x(&self, k)` / `store_x(&self, k, v)`).  The cache rules reason about the
    function that does both; an accessor with a single calling function is spliced into that caller, so that splitting the
    lookup and the store out of a fill function changes nothing."""
    dbs = [a for a in crate.adts.values() if a.get("kind") == "struct" and a["variants"]
           and sum(1 for f in a["variants"][0]["fields"] if "dashmap::DashMap<" in f["ty"]) >= 6]
    if not dbs:
        return
    db = max(dbs, key=lambda a: sum(1 for f in a["variants"][0]["fields"] if "dashmap::DashMap<" in f["ty"]))
    def _value_ty(ty):
        i = ty.find("dashmap::DashMap<")
        if i < 0:
            return ""
        j = i + len("dashmap::DashMap<")
        depth, parts, cur = 0, [], ""
        for ch in ty[j:]:
            if ch in "<(":
                depth += 1
            elif ch in ">)":
                if depth == 0:
                    break
                depth -= 1
            if ch == "," and depth == 0:
                parts.append(cur.strip())
                cur = ""
            else:
                cur += ch
        parts.append(cur.strip())
        return parts[1] if len(parts) > 1 else ""
    stamped = {f["name"] for f in db["variants"][0]["fields"] if _value_ty(f["ty"]).startswith("(u64, ")}
    if not stamped:
        return

    def touches(f):
        out = set()
        for _bb, _si, _pl, rv, _sp in f.assigns():
            if rv[0] == "ref":
                for o, n in proj_fields(place_projs(rv[2])):
                    if o == db["path"] and n in stamped:
                        out.add(n)
        return out
    callers = defaultdict(set)
    for f in crate.real_fns():
        for _bb, c in f.calls():
            if c.get("res_local") and c.get("res") in crate.fns:
                callers[c["res"]].add(f.root)
    acc = {}
    for f in crate.real_fns():
        if f.kind not in ("fn", "method") or len(f.blocks) > 90:
            continue
        t = touches(f)
        if not t or len(callers.get(f.id, ())) != 1:
            continue
        # it works on that one cache only: no other field of the database struct is borrowed in it
        other = set()
        for _bb, _si, _pl, rv, _sp in f.assigns():
            if rv[0] == "ref":
                for o, n in proj_fields(place_projs(rv[2])):
                    if o == db["path"] and n not in stamped:
                        other.add(n)
        if len(t) == 1 and not other and f.id != next(iter(callers[f.id])):
            acc[f.id] = (t, "accessor")
    # only when a cache has BOTH a lookup accessor and a store accessor (or one accessor whose caller does the other half)
    by_caller = defaultdict(list)
    for fid, (t, kind) in acc.items():
        by_caller[next(iter(callers[fid]))].append(fid)
    for caller, hs in by_caller.items():
        g = crate.fns.get(caller)
        if g is None:
            continue
        hset = set(hs)
        crate.fns[g.id] = inline_fn(crate, g, depth=1, max_blocks=500, pred=lambda x: x.id in hset)
        # the accessors are analysed where they were spliced in (their own bodies are skipped by the lock model, like the
        # helpers that are handed a map by reference)
        crate.lock_param_helpers = set(getattr(crate, "lock_param_helpers", set())) | hset
    if by_caller:
        crate._closure_sites = None


def load_crates(facts_dir):
    out = {}
    for lab in ("bin", "lib"):
        p = os.path.join(facts_dir, "pytest_language_server-%s.json" % lab)
        if os.path.exists(p):
            out[lab] = Crate(p)
            specialise_lock_param_helpers(out[lab])
            splice_cache_accessors(out[lab])
    return out


# ----------------------------------------------------------------------------- interprocedural origins
VALUE_PRESERVING = {
    "std::ops::Deref::deref", "std::ops::DerefMut::deref_mut", "std::clone::Clone::clone",
    "std::convert::AsRef::as_ref", "std::borrow::Borrow::borrow", "std::convert::AsMut::as_mut",
    "std::borrow::BorrowMut::borrow_mut", "std::borrow::ToOwned::to_owned", "std::convert::Into::into",
    "std::convert::From::from", "std::path::Path::to_path_buf", "std::path::PathBuf::as_path",
    "std::string::String::as_str", "std::string::ToString::to_string", "std::option::Option::<T>::as_ref",
    "std::option::Option::<T>::as_deref", "std::option::Option::<&T>::cloned", "std::option::Option::<&T>::copied",
    "std::path::Path::new", "std::sync::Arc::<T>::new", "std::boxed::Box::<T>::new",
    "std::string::String::as_mut_str", "std::path::PathBuf::into_boxed_path",
}


def value_preserving(c):
    return (c.get("fn") in VALUE_PRESERVING) or (c.get("res") in VALUE_PRESERVING)


class Origins:
    """Interprocedural, context-insensitive origin tracing of values.
    Terms: ('param', fn_id, idx, fields)   -- parameter of a function nobody in the crate calls directly
           ('call', fn_id, callee, fields) -- result of a non-value-preserving call made in fn_id
           ('const', repr)                 -- literal
           ('expr', fn_id, kind)           -- arithmetic etc.
           ('unknown', why)
    `fields` is the tuple of (owner, name) field selections still to be applied to the root."""

    def __init__(self, crate, cg, extra_pass=()):
        self.crate = crate
        self.cg = cg
        self.extra_pass = set(extra_pass)
        # callers: callee id -> [(caller fn, bb, call)]
        self.callers = defaultdict(list)
        for f in crate.real_fns():
            for bb, c in f.calls():
                if c.get("res_local") and c.get("res") in crate.fns:
                    self.callers[c["res"]].append((f, bb, c))
        self._memo = {}

    def passes(self, c):
        return value_preserving(c) or c.get("res") in self.extra_pass or c.get("fn") in self.extra_pass

    def of_operand(self, fn, op, fields=(), depth=0, stack=frozenset()):
        if op[0] == "c":
            c = op[1]
            return {("const", c.get("s", c.get("v", c.get("fn", c.get("named", c.get("t"))))))}
        return self.of_place(fn, op[1], fields, depth, stack)

    def of_place(self, fn, place, fields=(), depth=0, stack=frozenset()):
        l = place_local(place)
        pf = tuple(proj_fields(place_projs(place)))
        # closure upvar
        if l == 1 and fn.kind in ("closure", "coroutine") and pf and pf[0][0].startswith("closure:"):
            idx = [e[1] for e in place_projs(place) if isinstance(e, list) and e[0] == "f"][0]
            site = self.crate.closure_sites().get(fn.id)
            rest = pf[1:] + tuple(fields)
            if site is not None and idx < len(site[3]):
                return self.of_operand(site[0], site[3][idx], rest, depth + 1, stack)
            return {("unknown", "upvar %s of %s" % (pf[0][1], fn.id))}
        return self.of_local(fn, l, pf + tuple(fields), depth, stack)

    def of_local(self, fn, l, fields=(), depth=0, stack=frozenset()):
        key = (fn.id, bool(getattr(fn, "inlined", False)), l, tuple(fields))
        if key in self._memo:
            return self._memo[key]
        if key in stack or depth > 60:
            return set()
        stack = stack | {key}
        out = set()
        ds = fn.defs().get(l, [])
        if not ds:
            out.add(("unknown", "no def of _%d in %s" % (l, fn.id)))
        for d in ds:
            if d[0] == "arg":
                callers = self.callers.get(fn.id, [])
                idx = d[1]
                if fn.kind in ("closure", "coroutine"):
                    # parameters of closures: element handed by the callee that runs the closure
                    out.add(("closure-param", fn.id, idx, tuple(fields)))
                elif callers:
                    for cf, _bb, c in callers:
                        if idx - 1 < len(c["args"]):
                            out |= self.of_operand(cf, c["args"][idx - 1], fields, depth + 1, stack)
                else:
                    out.add(("param", fn.id, idx, tuple(fields)))
            elif d[0] == "yield":
                out.add(("unknown", "resume"))
            elif d[0] == "call":
                c = d[2]
                if not isinstance(c["dest"], int):
                    continue
                if self.passes(c) and c["args"]:
                    out |= self.of_operand(fn, c["args"][0], fields, depth + 1, stack)
                else:
                    out.add(("call", fn.id, c.get("res") or c.get("fn") or "?", tuple(fields)))
            else:
                rv, dst = d[3], d[4]
                if not isinstance(dst, int):
                    # field write into the local: only relevant if selecting that field
                    dfs = tuple(proj_fields(place_projs(dst)))
                    if fields and dfs and fields[:len(dfs)] == dfs:
                        sub = fields[len(dfs):]
                    else:
                        continue
                else:
                    sub = tuple(fields)
                k = rv[0]
                if k == "use":
                    out |= self.of_operand(fn, rv[1], sub, depth + 1, stack)
                elif k == "ref":
                    out |= self.of_place(fn, rv[2], sub, depth + 1, stack)
                elif k == "rawptr":
                    out |= self.of_place(fn, rv[1], sub, depth + 1, stack)
                elif k == "cast":
                    out |= self.of_operand(fn, rv[2], sub, depth + 1, stack)
                elif k == "agg":
                    kind = rv[1]
                    if kind[0] == "adt" and sub:
                        owner, name = sub[0]
                        base = kind[1] if owner == kind[1] else None
                        if owner == kind[1] or owner == "%s::%s" % (kind[1], kind[2]):
                            if name in kind[3]:
                                out |= self.of_operand(fn, rv[2][kind[3].index(name)], sub[1:], depth + 1, stack)
                                continue
                        out.add(("agg", fn.id, kind[1], sub))
                    elif kind[0] == "tuple" and sub and sub[0][0] == "tuple":
                        i = int(sub[0][1])
                        if i < len(rv[2]):
                            out |= self.of_operand(fn, rv[2][i], sub[1:], depth + 1, stack)
                    else:
                        out.add(("agg", fn.id, kind[1] if len(kind) > 1 else kind[0], sub))
                elif k == "discr":
                    out.add(("expr", fn.id, "discr"))
                else:
                    out.add(("expr", fn.id, k))
        self._memo[key] = out
        return out


# ----------------------------------------------------------------------------- inlined views
def _map_place(p, lo, bo):
    if isinstance(p, int):
        return p + lo
    projs = []
    for e in p[1]:
        if isinstance(e, list) and e[0] == "i":
            projs.append(["i", e[1] + lo])
        else:
            projs.append(e)
    return [p[0] + lo, projs]


def _map_op(op, lo, bo):
    if op[0] in ("cp", "mv"):
        return [op[0], _map_place(op[1], lo, bo)]
    return op


def _map_rv(rv, lo, bo):
    k = rv[0]
    if k in ("use", "repeat"):
        return [k, _map_op(rv[1], lo, bo)] + rv[2:]
    if k == "ref":
        return [k, rv[1], _map_place(rv[2], lo, bo)]
    if k in ("rawptr", "discr"):
        return [k, _map_place(rv[1], lo, bo)]
    if k == "cast":
        return [k, rv[1], _map_op(rv[2], lo, bo), rv[3]]
    if k == "bin":
        return [k, rv[1], _map_op(rv[2], lo, bo), _map_op(rv[3], lo, bo)]
    if k == "un":
        return [k, rv[1], _map_op(rv[2], lo, bo)]
    if k == "agg":
        return [k, rv[1], [_map_op(o, lo, bo) for o in rv[2]]]
    return rv


def _map_stmt(s, lo, bo):
    if s[0] == "=":
        return ["=", _map_place(s[1], lo, bo), _map_rv(s[2], lo, bo), s[3]]
    if s[0] in ("dead", "live"):
        return [s[0], s[1] + lo]
    if s[0] == "setdiscr":
        return [s[0], _map_place(s[1], lo, bo), s[2]]
    return s


def _map_term(t, lo, bo):
    k = t[0]
    b = lambda x: None if x is None else x + bo
    if k == "goto":
        return ["goto", b(t[1])]
    if k == "switch":
        return ["switch", _map_op(t[1], lo, bo), [[v, b(x)] for v, x in t[2]], b(t[3]), t[4]]
    if k == "drop":
        return ["drop", _map_place(t[1], lo, bo), b(t[2]), b(t[3]), t[4]]
    if k == "call":
        c = dict(t[1])
        c["args"] = [_map_op(a, lo, bo) for a in c["args"]]
        c["dest"] = _map_place(c["dest"], lo, bo)
        c["target"] = b(c["target"])
        c["unwind"] = b(c["unwind"])
        if "fnptr" in c:
            c["fnptr"] = _map_op(c["fnptr"], lo, bo)
        return ["call", c]
    if k == "assert":
        return ["assert", _map_op(t[1], lo, bo), t[2], t[3], [_map_op(o, lo, bo) for o in t[4]], b(t[5]), b(t[6]), t[7]]
    if k == "yield":
        return ["yield", _map_op(t[1], lo, bo), b(t[2]), _map_place(t[3], lo, bo), b(t[4]), t[5]]
    return t


def inline_fn(crate, f, cg=None, depth=3, max_blocks=600, max_total=6000, pred=None):
    """A copy of f in which calls to local, non-recursive plain functions/methods are replaced by the callee's body
    (parameters bound by assignments, `return` turned into an assignment to the call's destination + goto).
    Original blocks keep their indices. `origin[bb]` names the function a block came from."""
    import copy
    if f.kind not in ("fn", "method", "closure", "coroutine"):
        return f
    # functions from which f is reachable (to refuse recursion)
    blocks = copy.deepcopy(f.blocks)
    locals_ = list(f.locals)
    origin = [f.id] * len(blocks)
    inlined_calls = []  # (call-site block, callee id, original call dict)
    level = [0] * len(blocks)
    stack_of = [(f.id,)] * len(blocks)
    i = 0
    while i < len(blocks) and len(blocks) < max_total:
        t = blocks[i]["t"]
        if t[0] == "call" and level[i] < depth:
            c = t[1]
            g = crate.fns.get(c.get("res")) if c.get("res_local") else None
            if g is not None and g.kind in ("fn", "method") and g.phase in ("elaborated",) and g.id not in stack_of[i] \
                    and len(g.blocks) <= max_blocks and g.argc == len(c["args"]) and (pred is None or pred(g)):
                lo, bo = len(locals_), len(blocks)
                inlined_calls.append((i, g.id, c))
                locals_.extend(g.locals)
                for gb in g.blocks:
                    nb = {"s": [_map_stmt(s, lo, bo) for s in gb["s"]], "t": _map_term(gb["t"], lo, bo), "c": gb["c"]}
                    if nb["t"][0] == "ret":
                        nb["s"].append(["=", c["dest"], ["use", ["mv", lo]], c["span"]])
                        nb["t"] = ["goto", c["target"]] if c["target"] is not None else ["unreachable"]
                    blocks.append(nb)
                    origin.append(g.id)
                    level.append(level[i] + 1)
                    stack_of.append(stack_of[i] + (g.id,))
                for ai, a in enumerate(c["args"]):
                    blocks[i]["s"].append(["=", lo + 1 + ai, ["use", a], c["span"]])
                blocks[i]["t"] = ["goto", bo]
        i += 1
    d = dict(f.d)
    d["blocks"] = blocks
    d["locals"] = locals_
    nf = Fn(d, [f.file] + [""] * 64, crate)
    nf.file = f.file
    nf.line = f.line
    nf.line_hi = f.line_hi
    nf.origin = origin
    nf.inlined_calls = inlined_calls
    nf.inlined = True
    return nf
