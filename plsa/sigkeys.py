"""Rename-stable aliases of violation keys.

A key names the function a construct lives in.  Renaming that function must not turn a reviewed site or a recorded known
finding into a new violation, so every reviewed / known key has a *signature alias* -- the key with each function id replaced
by `sig:<enclosing path>(<parameter types>)-><return type>` -- computed once on the pinned tree and committed
(plsa/sigkeys.json, written by tools/gen_sigkeys.py; never written at check time).  At check time a violation whose own key is
unknown is matched through its signature alias against entries whose named function no longer exists in the analysed tree
(so a second construct with the same shape in another function is still reported while the original is there)."""
import json
import os
import re

_PATH = os.path.join(os.path.dirname(os.path.abspath(__file__)), "sigkeys.json")
_norm = lambda k: re.sub(r"::\{closure#\d+\}", "", k)


def load():
    if os.path.exists(_PATH):
        with open(_PATH) as fh:
            return json.load(fh)
    return {}


def fn_sig(crate, fid):
    f = crate.fns.get(fid)
    if f is None or f.kind not in ("fn", "method"):
        return None
    prefix, _, own = fid.rpartition("::") if "::" in fid else ("", "", fid)
    # an `async fn` returns `{async fn body of <its own name>()}`: the own name must not be part of the signature
    ret = re.sub(r"\b%s\b" % re.escape(own), "%", f.ret)
    return "sig:%s(%s)->%s" % (prefix, ",".join(f.local_ty(i) for i in range(1, f.argc + 1)), ret)


DBT = "fixtures::FixtureDatabase"


def field_aliases(crate):
    """field name of the database struct -> `fld:<type>#<ordinal among the fields of that type>`"""
    memo = getattr(crate, "_field_aliases", None)
    if memo is not None:
        return memo
    out = {}
    adt = crate.adts.get(DBT)
    if adt:
        seen = {}
        for f in adt["variants"][0]["fields"]:
            n = seen.get(f["ty"], 0)
            seen[f["ty"]] = n + 1
            out[f["name"]] = "fld:%s#%d" % (f["ty"], n)
    crate._field_aliases = out
    return out


def _pieces(key):
    out = []
    for seg in _norm(key).split("|"):
        out.append(seg.split("+"))
    return out


def sigkey(crate, key):
    """the key with every function id replaced by its signature; None when the key names no function of the crate"""
    hit = False
    segs = []
    fa = field_aliases(crate)
    for parts in _pieces(key):
        ps = []
        for p in parts:
            sg = fn_sig(crate, p) if "::" in p or p in crate.fns else None
            if sg is not None:
                hit = True
                ps.append(sg)
                continue
            # `<map>` or `<map>.<method>` segments
            head, dot, rest = p.partition(".")
            if head in fa:
                hit = True
                ps.append(fa[head] + dot + rest)
            else:
                ps.append(p)
        segs.append("+".join(ps))
    return "|".join(segs) if hit else None


def named_fns_present(crate, key):
    """does some function named by the key still exist in the analysed tree?"""
    fa = field_aliases(crate)
    named = 0
    present = 0
    for parts in _pieces(key):
        for p in parts:
            if "::" in p and not p.startswith(("`", "(")):
                if re.match(r"^[\w<>:, &\[\]{}#']+$", p) and ("<impl" in p or p.count("::") >= 1):
                    named += 1
                    present += 1 if p in crate.fns else 0
            else:
                head = p.partition(".")[0]
                if head in fa:
                    named += 1
                    present += 1
    # every function / field the key names must still exist for the entry to be "in place"
    return named > 0 and present == named


def alias_match(crate, key, entries, table):
    """entry of `entries` (normalised keys) whose committed signature alias equals the signature alias of `key`, provided the
    entry's own function is gone from the tree"""
    if crate is None or not table:
        return None
    sk = sigkey(crate, key)
    if sk is None:
        return None
    for e in entries:
        if table.get(e) == sk and not named_fns_present(crate, e):
            return e
    return None
