"""Data for MANIFEST.json (see gen_manifest.py)."""

NOTES = ("Static analysis only. Every check decides structural clauses of its property from the MIR of /repo's current "
         "working tree (see DESIGN.md section 5 for the decided and the undecided clauses of each property).")

_UNDER_CONSTRUCTION = "static rule for this property is not built yet (build order in DESIGN.md section 9); not claimed until it runs clean-or-triaged on the pinned tree"

CHECKS = {
    "C12": {
        "level_text": "All lock operations (DashMap, std Mutex, tokio locks) of the binary crate are enumerated from MIR, each "
                      "receiver resolved to a struct field; a may-held guard dataflow plus transitive acquisition summaries give "
                      "the complete lock-order graph. The verdict (no exclusive re-entrancy, no conflicting order cycle, no "
                      "blocking guard across await, every recursive SCC guarded) holds for every schedule and key placement "
                      "because shards are abstracted away. Hand-written loops matching a progress idiom (parent() walk, "
                      "peek/next scan, exit-tested counter, pop-driven worklist) make their progress step on every path round "
                      "the loop (must-pass-through on the CFG). Loops matching no idiom and starvation are not decided.",
        "design_ref": "DESIGN.md section 4 R1, section 5 C12",
        "level_note": "Trusted: rustc MIR and callee resolution, reading of dashmap 6.1.0's reader-preferring RawRwLock "
                      "(version re-checked each run), the method->mode table, the rule layer. Undecided: the import-scan "
                      "fixpoint loop, fairness, locks inside dependencies.",
        "technique": "MIR may-held guard dataflow + call-graph acquisition summaries + lock-order cycle search; SCC recursion-guard classification; natural-loop progress (must-pass-through) analysis",
    },
}

CHECKS.update({
    "C09": {
        "level_text": "Every write operation on the shared maps is enumerated from MIR and must have the shape that makes "
                      "per-key atomicity hold: in-place mutation under one entry()/get_mut() guard, remove_if(is_empty), "
                      "retain predicates keeping exactly the other files' elements, per-file maps keyed only by the analysed "
                      "file's canonical path (interprocedural origin tracing). These are necessary conditions of isolation; "
                      "sequential equivalence of whole analyses is not decided.",
        "design_ref": "DESIGN.md section 4 R2, section 5 C09",
        "level_note": "Trusted: DashMap per-key atomicity of entry/get_mut/remove_if; MIR extraction; rule layer. Undecided: "
                      "linearizability of complete analyses.",
        "technique": "MIR call-site enumeration + closure predicate shape matching + interprocedural value-origin tracing",
    },
    "C06": {
        "level_text": "In the CFG of the analysis entry (found by role) a clear of every appended map dominates every append-"
                      "reaching call, all index writes are dominated by the Ok edge of the parse result, and the cleaning flag "
                      "is false only on paths the document-synchronisation handlers cannot reach. Necessary conditions of "
                      "history independence; equality with a fresh index for every history is not decided.",
        "design_ref": "DESIGN.md section 4 R3a/R3b/R3e, section 5 C06",
        "level_note": "Trusted: MIR dominators, call graph incl. closures, retain-by-file summaries. Undecided: value-level "
                      "equality of indexes, stale positions while a document is unparsable.",
        "technique": "dominance / must-pass-through analysis on MIR CFG + call-graph reachability",
    },
    "C10": {
        "level_text": "Handlers reach the analysis entry only with cleaning enabled; tasks spawned from handlers must not run "
                      "the non-cleaning analysis (may-happen-in-parallel by spawn edges). The second clause is violated by the "
                      "pinned tree (recorded known finding, reproduced against the real library). Which content wins per "
                      "timing is not decided.",
        "design_ref": "DESIGN.md section 4 R3e, section 5 C10",
        "level_note": "Trusted: call graph with spawn edges (tokio::spawn / spawn_blocking). Undecided: schedules.",
        "technique": "call-graph reachability with spawn-edge (may-happen-in-parallel) classification; constant-argument check of the cleaning flag",
    },
    "C04": {
        "level_text": "The per-file usage map and its per-name reverse index are written in step (paired appends fed by one "
                      "FixtureUsage, removals dominated by a by-file clear of the reverse index, no other writer kinds). "
                      "Necessary for references being the inverse of resolution; the equivalence itself is not decided.",
        "design_ref": "DESIGN.md section 4 R3c, section 5 C04",
        "level_note": "Trusted: MIR dominators/post-dominators. Undecided: pairwise inverse relation, count equality across consumers.",
        "technique": "paired-effect (dominance + post-dominance) analysis of map writers on MIR",
    },
    "C07": {
        "level_text": "Every stamp stored in a cache entry is compared on the hit path; every mutation of the definition maps "
                      "and of every map read behind a version-stamped cache is followed by a version increment; no memoised "
                      "result depends on a &mut context parameter outside the key; no query is gated solely by membership in "
                      "an evictable cache. Two genuine defects found by these rules were repaired (fix: commits), one is a "
                      "recorded known finding. Warm/cold equality for every interleaving is not decided.",
        "design_ref": "DESIGN.md section 4 R3d, section 5 C07",
        "level_note": "Trusted: MIR, transitive read/write sets over the call graph, post-dominance of version increments, "
                      "reviewed transparent cache (canonical_path_cache). Undecided: value equality, eviction of open documents' text.",
        "technique": "effect (read/write-set) analysis + post-dominance of invalidation + stamp-comparison dominance on MIR",
    },
})

CHECKS.update({
    "C03": {
        "level_text": "Visitor-coverage clauses: the yield-line visitor and the generator-status visitor (found by role) must "
                      "descend into the same statement-list fields and into every statement-list field of the AST type universe "
                      "(derived from rustpython_ast's definitions) except nested scopes. One disagreement was repaired (fix: "
                      "commit), the remaining gaps (match / except*) are recorded known findings with replays. Field values of "
                      "the extracted records are not decided.",
        "design_ref": "DESIGN.md section 4 R6, section 5 C03",
        "level_note": "Trusted: MIR field projections as evidence of descent; AST type universe from the type context. Undecided: "
                      "names, scopes, dependency order, return-type text, docstrings, usage extraction from marks.",
        "technique": "sibling-visitor agreement + exhaustiveness over the AST type universe (MIR field-projection sets)",
    },
    "C17": {
        "level_text": "The body visitors of the undeclared-fixture scan must descend into every nested statement list and the "
                      "local-variable collector must read every name-binding field of the language (table from the Python "
                      "reference, resolved against the AST types); all gaps of the pinned tree are recorded known findings with "
                      "replays. The quick-fix edit is a string-value property and is not decided.",
        "design_ref": "DESIGN.md section 4 R6, section 5 C17",
        "level_note": "Trusted: MIR field projections; binding-form table. Undecided: expression forms inside visited statements, "
                      "positions, the quick-fix/parameter-insertion text edits.",
        "technique": "exhaustiveness of visitor descent / binding-form coverage over the AST type universe",
    },
})

def _c(level, ref, note, tech):
    return {"level_text": level, "design_ref": ref, "level_note": note, "technique": tech}


CHECKS.update({
    "C01": _c("Every selection site of the resolver cascade (found by role; sites = first/find/max_by_key calls and element-"
              "carrying early-exit loops over the per-name definition vector, extracted from MIR) must test visibility on the "
              "selected element; the same-file stage must take the last definition; the skip filter of import extraction must "
              "test the module string that is recorded (reaching definitions agree). The name-only imported-name stage of the "
              "pinned tree is a recorded known finding (replay). Coincidence of the cascade with pytest for every layout is not decided.",
              "DESIGN.md section 4 R5a/R5e/R10j, section 5 C01",
              "Trusted: selection-site extraction (sel.py), closure field-touch sets. Undecided: cascade order, conftest walk, columns.",
              "selection-site extraction from MIR + predicate field analysis; reaching-definitions agreement between filter and record"),
    "C02": _c("The exclusion filter is invoked at every selection site of the cascade; every caller that resolves usages pairs "
              "the excluding and non-excluding resolver under a `definition.name == usage name` test (memo lookups of "
              "non-excluding resolutions count as non-excluding calls); the excluding filter compares whole records.",
              "DESIGN.md section 4 R5b/R5c, section 5 C02",
              "Trusted: selection sites, control-dependence via dominators and intra-iteration reachability. Undecided: columns, chain semantics.",
              "control-dependence / pairing analysis of resolver callers on MIR"),
    "C05": _c("Sibling resolvers (per-file view, outgoing-call resolution; found by the stages their selection sites cover) must use "
              "the navigation cascade's selector class per stage and never select by name alone; the disagreements of the pinned "
              "tree are recorded known findings with a replay. Agreement on every input is not decided.",
              "DESIGN.md section 4 R5d/R5a, section 5 C05",
              "Trusted: selection-site extraction and stage classification. Undecided: hover/inlay text, agreement on values.",
              "sibling-implementation cross-check over selection sites"),
    "C08": _c("Vectors filled in DashMap/hash iteration order must be sorted before they are returned (must-pass-through check); "
              "first-match exits from hash iterations are in a reviewed table; order-sensitive selections over the per-name vector "
              "must pin one file; no order-dependent pick from the iteration of a hash container. Four unsorted outputs and one pick in "
              "hash order (the .pth lookup of editable installs) were repaired (fix: commits); the unpinned selections are recorded known "
              "findings with replays. Ties and other nondeterminism channels are not decided.",
              "DESIGN.md section 4 R4, section 5 C08",
              "Trusted: iterator-type based source detection, sort must-pass-through on the CFG. Undecided: sort-key totality.",
              "taint-style flow of unordered iteration to return + must-pass-through sort check; selection-site pinning"),
    "C16": _c("Dependency definitions used by the cycle graph and the scope check must be selected with a visibility test (known "
              "findings: both use .first()); result vectors must not be in hash order (repaired); the scope enum follows pytest's "
              "order, parse/as_str agree, ScopeMismatch is built only under fixture.scope > dependency.scope.",
              "DESIGN.md section 4 R5a/R4a/R8b, section 5 C16",
              "Trusted: discriminant values from the type context; literal extraction. Undecided: cycle search soundness/completeness.",
              "selection-site analysis + enum/literal table agreement + guard-direction check"),
    "C18": _c("Every push into the per-file fixture view is guarded by the seen-set and followed by its insert; the textual fallback "
              "recognises every decorator module the AST recogniser accepts (one gap repaired by a fix: commit).",
              "DESIGN.md section 4 R11c/R8c, section 5 C18",
              "Trusted: literal extraction from MIR constants. Undecided: context classification, offered-set algebra, sort priority.",
              "dominance/post-dominance of dedup guards; literal-table agreement between sibling recognisers"),
    "C19": _c("Codes constructed = codes gated = codes accepted by the configuration loader; each Diagnostic and collector sits on "
              "the not-disabled edge of its own gate; did_open/did_change always continue from analysis to publishing for the "
              "same document.",
              "DESIGN.md section 4 R8a/R11a, section 5 C19",
              "Trusted: literal flow through aggregates; post-dominance in coroutine MIR. Undecided: last-published equality over histories.",
              "literal-set agreement + gate dominance + analysis=>publish post-dominance"),
    "C20": _c("exit(0)/exit(1) are controlled by is_empty() of the unused list, both formats iterate it; the json branch prints only "
              "serializer output or JSON literals (format templates decoded from MIR constants); CLI vectors from unordered "
              "iteration are sorted; the CLI usage counter pairs the resolvers like the server.",
              "DESIGN.md section 4 R11b/R11d/R4a/R5c, section 5 C20",
              "Trusted: constant decoding of format templates, dominators. Undecided: count equality with the server, byte-identical output.",
              "guard dominance on exit calls + print-content analysis + reuse of R4a/R5c"),
})

CHECKS.update({
    "C11": _c("All 17 `str` range-indexing sites are enumerated from MIR; an abstract evaluation of each index's provenance proves it "
              "a char boundary of the sliced string (find / char_indices / len / guarded constants / suffix arithmetic) or the "
              "site is in the reviewed table; u32 arithmetic on request positions and unwrap/expect sites are enumerated; "
              "hand-written loops matching a progress idiom make their progress step on every path (the cycle search expands "
              "each node once). Seven sites that could panic were repaired (four fix: commits).",
              "DESIGN.md section 4 R7, section 5 C11",
              "Trusted: the boundary domain's soundness as argued in DESIGN; reviewed entries. Undecided: slice bounds, usize "
              "arithmetic, range order, panics in dependencies, stack exhaustion, loops matching no idiom, scan isolation.",
              "abstract interpretation of index provenance (char-boundary domain) over MIR def-use chains; natural-loop progress (must-pass-through) analysis"),
    "C13": _c("Ignore rules must inspect only the path relative to the walk root, the directory filter must be depth-aware, the two "
              "file-name predicates must agree, the parallel phase must not short-circuit. The relocation defect of the pinned "
              "tree was repaired (fix: commit).",
              "DESIGN.md section 4 R10a/b/f, section 5 C13",
              "Trusted: provenance of path values through strip_prefix; literal extraction. Undecided: exact file set, unreadable files.",
              "provenance check (strip_prefix of the walk root) + sibling literal-table agreement + who-may-call on rayon consumers"),
    "C14": _c("Constructors classify alike, plugin marks precede the analysis they affect or enqueue a re-analysis, both import "
              "walkers follow both edge kinds, no stale snapshot of the plugin map decides propagation, import recursion is "
              "guarded by a visited set, the import memo does not depend on the visited context, the import skip filter tests "
              "the recorded module string.",
              "DESIGN.md section 4 R10c-j/R1d/R3d-iii, section 5 C14",
              "Trusted: backward slices of the classification flags; dominators. Undecided: reachability closure, venv layouts, .pth parsing.",
              "sibling agreement of backward slices + dominance ordering + call-graph reachability"),
    "C15": _c("Unit discipline only: byte columns must not reach Position.character and the UTF-16 cursor column must not be compared "
              "with byte spans. The pinned tree has no conversion layer: all 29 flows are recorded known findings (one replay). "
              "Concrete positions are value facts and are not decided.",
              "DESIGN.md section 4 R9, section 5 C15",
              "Trusted: interprocedural origin tracing, unit table of fields. Undecided: every concrete position, duplicates.",
              "unit (byte vs UTF-16) type-state over interprocedural value origins"),
})

NOT_APPLICABLE = {p: _UNDER_CONSTRUCTION for p in ["C%02d" % i for i in range(1, 21)]}
