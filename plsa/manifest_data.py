"""Data for MANIFEST.json (see gen_manifest.py)."""

NOTES = ("Static analysis only. Every check decides structural clauses of its property from the MIR of /repo's current "
         "working tree (see DESIGN.md section 5 for the decided and the undecided clauses of each property).")

_UNDER_CONSTRUCTION = "static rule for this property is not built yet (build order in DESIGN.md section 9); not claimed until it runs clean-or-triaged on the pinned tree"

CHECKS = {
    "C12": {
        "level_text": "All lock operations (DashMap, std Mutex, tokio locks) of the binary crate are enumerated from MIR, each "
                      "receiver resolved to a struct field; a may-held guard dataflow plus transitive acquisition summaries give "
                      "the complete lock-order graph. The verdict (no exclusive re-entrancy, no conflicting order cycle, no "
                      "blocking guard across await, every recursive SCC guarded) holds for every schedule and key placement "
                      "because shards are abstracted away. Loop termination and starvation are not decided.",
        "design_ref": "DESIGN.md section 4 R1, section 5 C12",
        "level_note": "Trusted: rustc MIR and callee resolution, reading of dashmap 6.1.0's reader-preferring RawRwLock "
                      "(version re-checked each run), the method->mode table, the rule layer. Undecided: while/loop fixpoints, "
                      "fairness, locks inside dependencies.",
        "technique": "MIR may-held guard dataflow + call-graph acquisition summaries + lock-order cycle search; SCC recursion-guard classification",
    },
}

CHECKS.update({
    "C09": {
        "level_text": "Every write operation on the shared maps is enumerated from MIR and must have the shape that makes "
                      "per-key atomicity hold: in-place mutation under one entry()/get_mut() guard, remove_if(is_empty), "
                      "retain predicates keeping exactly the other files' elements, per-file maps keyed only by the analysed "
                      "file's canonical path (interprocedural origin tracing). These are necessary conditions of isolation; "
                      "sequential equivalence of whole analyses is not decided.",
        "design_ref": "DESIGN.md section 4 R2, section 5 C09",
        "level_note": "Trusted: DashMap per-key atomicity of entry/get_mut/remove_if; MIR extraction; rule layer. Undecided: "
                      "linearizability of complete analyses.",
        "technique": "MIR call-site enumeration + closure predicate shape matching + interprocedural value-origin tracing",
    },
    "C06": {
        "level_text": "In the CFG of the analysis entry (found by role) a clear of every appended map dominates every append-"
                      "reaching call, all index writes are dominated by the Ok edge of the parse result, and the cleaning flag "
                      "is false only on paths the document-synchronisation handlers cannot reach. Necessary conditions of "
                      "history independence; equality with a fresh index for every history is not decided.",
        "design_ref": "DESIGN.md section 4 R3a/R3b/R3e, section 5 C06",
        "level_note": "Trusted: MIR dominators, call graph incl. closures, retain-by-file summaries. Undecided: value-level "
                      "equality of indexes, stale positions while a document is unparsable.",
        "technique": "dominance / must-pass-through analysis on MIR CFG + call-graph reachability",
    },
    "C10": {
        "level_text": "Handlers reach the analysis entry only with cleaning enabled; tasks spawned from handlers must not run "
                      "the non-cleaning analysis (may-happen-in-parallel by spawn edges). The second clause is violated by the "
                      "pinned tree (recorded known finding, reproduced against the real library). Which content wins per "
                      "timing is not decided.",
        "design_ref": "DESIGN.md section 4 R3e, section 5 C10",
        "level_note": "Trusted: call graph with spawn edges (tokio::spawn / spawn_blocking). Undecided: schedules.",
        "technique": "call-graph reachability with spawn-edge (may-happen-in-parallel) classification; constant-argument check of the cleaning flag",
    },
    "C04": {
        "level_text": "The per-file usage map and its per-name reverse index are written in step (paired appends fed by one "
                      "FixtureUsage, removals dominated by a by-file clear of the reverse index, no other writer kinds). "
                      "Necessary for references being the inverse of resolution; the equivalence itself is not decided.",
        "design_ref": "DESIGN.md section 4 R3c, section 5 C04",
        "level_note": "Trusted: MIR dominators/post-dominators. Undecided: pairwise inverse relation, count equality across consumers.",
        "technique": "paired-effect (dominance + post-dominance) analysis of map writers on MIR",
    },
    "C07": {
        "level_text": "Every stamp stored in a cache entry is compared on the hit path; every mutation of the definition maps "
                      "and of every map read behind a version-stamped cache is followed by a version increment; no memoised "
                      "result depends on a &mut context parameter outside the key; no query is gated solely by membership in "
                      "an evictable cache. Two genuine defects found by these rules were repaired (fix: commits), one is a "
                      "recorded known finding. Warm/cold equality for every interleaving is not decided.",
        "design_ref": "DESIGN.md section 4 R3d, section 5 C07",
        "level_note": "Trusted: MIR, transitive read/write sets over the call graph, post-dominance of version increments, "
                      "reviewed transparent cache (canonical_path_cache). Undecided: value equality, eviction of open documents' text.",
        "technique": "effect (read/write-set) analysis + post-dominance of invalidation + stamp-comparison dominance on MIR",
    },
})

CHECKS.update({
    "C03": {
        "level_text": "Visitor-coverage clauses: the yield-line visitor and the generator-status visitor (found by role) must "
                      "descend into the same statement-list fields and into every statement-list field of the AST type universe "
                      "(derived from rustpython_ast's definitions) except nested scopes. One disagreement was repaired (fix: "
                      "commit), the remaining gaps (match / except*) are recorded known findings with replays. Field values of "
                      "the extracted records are not decided.",
        "design_ref": "DESIGN.md section 4 R6, section 5 C03",
        "level_note": "Trusted: MIR field projections as evidence of descent; AST type universe from the type context. Undecided: "
                      "names, scopes, dependency order, return-type text, docstrings, usage extraction from marks.",
        "technique": "sibling-visitor agreement + exhaustiveness over the AST type universe (MIR field-projection sets)",
    },
    "C17": {
        "level_text": "The body visitors of the undeclared-fixture scan must descend into every nested statement list and the "
                      "local-variable collector must read every name-binding field of the language (table from the Python "
                      "reference, resolved against the AST types); all gaps of the pinned tree are recorded known findings with "
                      "replays. The quick-fix edit is a string-value property and is not decided.",
        "design_ref": "DESIGN.md section 4 R6, section 5 C17",
        "level_note": "Trusted: MIR field projections; binding-form table. Undecided: expression forms inside visited statements, "
                      "positions, the quick-fix/parameter-insertion text edits.",
        "technique": "exhaustiveness of visitor descent / binding-form coverage over the AST type universe",
    },
})

NOT_APPLICABLE = {p: _UNDER_CONSTRUCTION for p in ["C%02d" % i for i in range(1, 21)]}
