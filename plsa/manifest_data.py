"""Data for MANIFEST.json (see gen_manifest.py)."""

NOTES = ("Static analysis only. Every check decides structural clauses of its property from the MIR of /repo's current "
         "working tree (see DESIGN.md section 5 for the decided and the undecided clauses of each property).")

_UNDER_CONSTRUCTION = "static rule for this property is not built yet (build order in DESIGN.md section 9); not claimed until it runs clean-or-triaged on the pinned tree"

CHECKS = {
    "C12": {
        "level_text": "All lock operations (DashMap, std Mutex, tokio locks) of the binary crate are enumerated from MIR, each "
                      "receiver resolved to a struct field; a may-held guard dataflow plus transitive acquisition summaries give "
                      "the complete lock-order graph. The verdict (no exclusive re-entrancy, no conflicting order cycle, no "
                      "blocking guard across await, every recursive SCC guarded) holds for every schedule and key placement "
                      "because shards are abstracted away. Loop termination and starvation are not decided.",
        "design_ref": "DESIGN.md section 4 R1, section 5 C12",
        "level_note": "Trusted: rustc MIR and callee resolution, reading of dashmap 6.1.0's reader-preferring RawRwLock "
                      "(version re-checked each run), the method->mode table, the rule layer. Undecided: while/loop fixpoints, "
                      "fairness, locks inside dependencies.",
        "technique": "MIR may-held guard dataflow + call-graph acquisition summaries + lock-order cycle search; SCC recursion-guard classification",
    },
}

NOT_APPLICABLE = {p: _UNDER_CONSTRUCTION for p in ["C%02d" % i for i in range(1, 21)]}
