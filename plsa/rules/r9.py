"""R9: units of columns (C15).  Position.character is UTF-16; recorded columns and str::find results are bytes."""
import re
from collections import defaultdict

from ..check import Result
from ..core import Origins, op_local, op_place, op_const, place_local, place_projs, proj_fields
from ..reviewed import REVIEWED

BYTE_FIELDS = {"start_char", "end_char", "char_pos"}
BYTE_CALLS = re.compile(r"<impl str>::(find|rfind|len)$|string::String::len$|::get_char_position_from_offset$")


def _origins(ctx):
    return ctx.memo("origins_plain", lambda: Origins(ctx.bin, ctx.callgraph()))


def classify(term):
    """'const' | 'byte:<what>' | 'utf16' | 'other:<what>'"""
    k = term[0]
    if k == "const":
        return "const"
    fields = term[3] if len(term) > 3 and isinstance(term[3], tuple) else ()
    named = [(o, n) for o, n in fields if not o.startswith(("std::", "tuple", "closure:", "core::"))]
    if named:
        o, n = named[-1]
        if n in BYTE_FIELDS:
            return "byte:%s.%s" % (o.split("::")[-1], n)
        if o.endswith("::Position") and n == "character":
            return "utf16"
        return "other:%s.%s" % (o.split("::")[-1], n)
    if k == "call":
        if BYTE_CALLS.search(term[2] or ""):
            return "byte:%s()" % term[2].split("::")[-1]
        return "other:%s()" % (term[2] or "?").split("::")[-1]
    if k == "param":
        return "param"
    if k == "closure-param":
        return "other:closure-param"
    return "other:%s" % k


def r9_bytes_to_utf16(ctx):
    r = Result("R9a", "a byte-unit column (recorded start_char / end_char / char_pos, or a str::find / len result) does not reach "
                      "`Position.character` (UTF-16 code units by protocol) without passing through a conversion that looks at "
                      "the line text")
    crate = ctx.bin
    og = _origins(ctx)
    n = 0
    seen_keys = {}
    for f in crate.real_fns():
        if f.id.startswith("<") and "LanguageServer" not in f.id:
            continue
        for bb, si, pl, rv, sp in f.assigns():
            if rv[0] == "agg" and rv[1][0] == "adt" and rv[1][1].endswith("::Position") and "character" in rv[1][3]:
                n += 1
                terms = og.of_operand(f, rv[2][rv[1][3].index("character")])
                for t in terms:
                    c = classify(t)
                    if c.startswith("byte:"):
                        born = t[1] if t[0] in ("call", "param", "agg", "expr", "closure-param") else f.id
                        key = "R9a|%s|%s -> Position.character" % (born, c[5:])
                        seen_keys.setdefault(key, crate.span_str(sp))
                if all(classify(t) in ("const", "utf16") for t in terms) and terms:
                    r.ok(sample={"position_at": crate.span_str(sp), "character": sorted({classify(t) for t in terms})})
    for key, where in sorted(seen_keys.items()):
        if key in REVIEWED:
            r.review(key, REVIEWED[key])
        else:
            r.violate(key, "a byte column flows unconverted into an LSP Position (constructed at %s): ranges are shifted on lines "
                           "with non-ASCII text before the token" % where)
    r.counts["position_constructions"] = n
    r.floor("Position constructions", n, 3)
    return r


def r9_utf16_vs_bytes(ctx):
    r = Result("R9b", "the request's cursor column (UTF-16 code units) is not compared with recorded byte columns, nor used as a "
                      "character index, without conversion")
    crate = ctx.bin
    n = 0
    for f in crate.real_fns():
        if f.kind not in ("method", "fn"):
            continue
        cursor = [i for i in range(1, f.argc + 1) if f.local_ty(i) == "u32" and (f.local_name(i) or "") in ("character", "char", "col", "column")]
        if not cursor:
            continue
        n += 1
        cur_aliases = set(cursor)
        changed = True
        while changed:
            changed = False
            for bb, si, pl, rv, sp in f.assigns():
                if not isinstance(pl, int) or pl in cur_aliases:
                    continue
                src = None
                if rv[0] == "use":
                    src = op_local(rv[1]) if op_place(rv[1]) is not None and not place_projs(op_place(rv[1])) else None
                elif rv[0] == "cast":
                    src = op_local(rv[2])
                if src in cur_aliases:
                    cur_aliases.add(pl)
                    changed = True
        hits = set()
        for bb, si, pl, rv, sp in f.assigns():
            if rv[0] == "bin" and rv[1] in ("Lt", "Le", "Gt", "Ge", "Eq", "Ne"):
                a, b = op_local(rv[2]), op_local(rv[3])
                for x, y in ((a, rv[3]), (b, rv[2])):
                    if x in cur_aliases:
                        fs = _byte_field_of(f, y)
                        if fs:
                            hits.add("compared with %s" % fs)
        for bb, c in f.calls():
            # the word extractor by role: (line: &str, index: usize) -> Option<String>, indexing the line's chars
            g = crate.fns.get(c.get("res")) if c.get("res_local") else None
            if g is not None and g.argc >= 2 and g.local_ty(g.argc - 1) == "&str" and g.local_ty(g.argc) == "usize" \
                    and "Option<std::string::String>" in g.ret and len(c["args"]) == g.argc and op_local(c["args"][-1]) in cur_aliases:
                hits.add("used as a char index by the word extractor")
        for h in sorted(hits):
            key = "R9b|%s|cursor column %s" % (f.id, h)
            if key in REVIEWED:
                r.review(key, REVIEWED[key])
            else:
                r.violate(key, "%s: the UTF-16 cursor column is %s" % (f.id.split("::")[-1], h))
        if not hits:
            r.ok()
    r.floor("functions taking a cursor column", n, 4)
    return r


def _byte_field_of(f, op, depth=0):
    p = op_place(op)
    if p is None or depth > 6:
        return None
    for o, n in proj_fields(place_projs(p)):
        if n in BYTE_FIELDS:
            return "%s.%s (bytes)" % (o.split("::")[-1], n)
    l = place_local(p)
    for d in f.whole_defs(l):
        if d[0] == "assign" and d[3][0] == "use":
            r = _byte_field_of(f, d[3][1], depth + 1)
            if r:
                return r
        if d[0] == "assign" and d[3][0] == "ref":
            r = _byte_field_of(f, ["cp", d[3][2]], depth + 1)
            if r:
                return r
    return None


LINE_FIELDS = {"line", "end_line", "function_line", "yield_line", "import_line"}


def r9_line_base(ctx):
    r = Result("R9c", "a recorded line number (1-based: the `line` / `end_line` / `function_line` fields of the index records) does "
                      "not reach `Position.line` (0-based by protocol) through copies and casts alone: it passes a conversion "
                      "call or an arithmetic step")
    crate = ctx.bin
    og = _origins(ctx)
    n = 0
    bad = {}
    for f in crate.real_fns():
        if f.id.startswith("<") and "LanguageServer" not in f.id:
            continue
        for bb, si, pl, rv, sp in f.assigns():
            if rv[0] == "agg" and rv[1][0] == "adt" and rv[1][1].endswith("::Position") and "line" in rv[1][3]:
                n += 1
                terms = og.of_operand(f, rv[2][rv[1][3].index("line")])
                hit = False
                for t in terms:
                    fields = t[3] if len(t) > 3 and isinstance(t[3], tuple) else ()
                    named = [(o, nm) for o, nm in fields if not o.startswith(("std::", "tuple", "closure:", "core::"))]
                    if named and named[-1][1] in LINE_FIELDS and not named[-1][0].endswith(("::Position", "::Range")):
                        born = t[1] if t[0] in ("call", "param", "agg", "expr", "closure-param") else f.id
                        key = "R9c|%s|%s.%s -> Position.line" % (born, named[-1][0].split("::")[-1], named[-1][1])
                        bad.setdefault(key, crate.span_str(sp))
                        hit = True
                if not hit:
                    r.ok(sample={"position_at": crate.span_str(sp)} if len(r.samples) < 3 else None)
    for key, where in sorted(bad.items()):
        if key in REVIEWED:
            r.review(key, REVIEWED[key])
        else:
            r.violate(key, "a 1-based recorded line flows unconverted into an LSP Position.line (constructed at %s): the position "
                           "is one line below the token / past the end of the document" % where)
    r.counts["position_constructions"] = n
    r.floor("Position constructions", n, 3)
    # the 0-based result of the line converter (role: usize -> u32, subtracts one) is not moved off its line again
    conv = set()
    for f in crate.real_fns():
        if f.kind in ("fn", "method") and f.argc == 1 and f.local_ty(1) == "usize" and f.ret == "u32":
            subs = [1 for _b, c in f.calls() if re.search(r"::saturating_sub$|::checked_sub$|::wrapping_sub$", c.get("res") or "")] + \
                   [1 for _b, _s, _p, rv, _sp in f.assigns() if rv[0] == "bin" and rv[1].startswith("Sub")]
            if subs:
                conv.add(f.id)
    r.counts["line_converters"] = len(conv)
    m = 0
    for f in crate.real_fns():
        res_locals = {place_local(c["dest"]) for _b, c in f.calls() if c.get("res") in conv}
        if not res_locals:
            continue
        m += len(res_locals)
        changed = True
        while changed:
            changed = False
            for bb, si, pl, rv, sp in f.assigns():
                if isinstance(pl, int) and pl not in res_locals and rv[0] == "use" and op_local(rv[1]) in res_locals and not place_projs(op_place(rv[1])):
                    res_locals.add(pl)
                    changed = True
        for bb, si, pl, rv, sp in f.assigns():
            if rv[0] == "bin" and (rv[1].startswith("Add") or rv[1].startswith("Sub")):
                if op_local(rv[2]) in res_locals or op_local(rv[3]) in res_locals:
                    r.violate("R9c|%s|converted line %s constant" % (f.id, "+" if rv[1].startswith("Add") else "-"),
                              "%s shifts an already converted (0-based) line at %s: the position leaves the line of the token -- one "
                              "past the last line of a document without a trailing newline is outside the document" % (f.id, crate.span_str(sp)))
    r.floor("uses of the line converter", m, 5)
    # a recorded 1-based line is not used as a 0-based index into the lines of a text (`lines.get(def.end_line)` looks at the
    # line AFTER the fixture)
    k = 0
    for f in crate.real_fns():
        for bb, c in f.calls():
            res = (c.get("res") or "") + " " + (c.get("fn") or "")
            ta = " ".join(c.get("targs", []))
            is_lines = ("&str" in ta and re.search(r"<impl \[T\]>::get$|ops::Index<.*>>::index$|Vec::<T, A>::get$", res)) or \
                ("std::str::Lines" in ta and re.search(r"Iterator::nth$", res))
            if not is_lines or len(c["args"]) < 2 or c["span"][4].startswith("macro:"):
                continue
            k += 1
            for t in og.of_operand(f, c["args"][1]):
                fields = t[3] if len(t) > 3 and isinstance(t[3], tuple) else ()
                named = [(o, nm) for o, nm in fields if not o.startswith(("std::", "tuple", "closure:", "core::"))]
                if named and named[-1][1] in LINE_FIELDS and not named[-1][0].endswith(("::Position", "::Range")):
                    r.violate("R9c|%s|%s.%s indexes lines" % (f.root, named[-1][0].split("::")[-1], named[-1][1]),
                              "%s indexes the lines of a text with the recorded 1-based `%s` at %s without subtracting one: it reads the "
                              "line after the one meant" % (f.root.split("::")[-1], named[-1][1], crate.span_str(c["span"])))
                    break
    r.counts["line_lookups"] = k
    return r


def r9_char_count_plus_bytes(ctx):
    r = Result("R9d", "a number of characters (`s.chars().count()`) is not added to a byte column (a recorded start_char / a "
                      "get_char_position_from_offset result / a find() offset): the recorded spans are byte spans, a char count "
                      "is shorter than the byte length for every non-ASCII name, so the span ends inside the token")
    crate = ctx.bin
    og = _origins(ctx)
    n = 0
    for f in crate.real_fns():
        counts = set()
        for bb, c in f.calls():
            if re.search(r"Iterator>?::count$", c.get("fn") or c.get("res") or "") and "str::Chars" in " ".join(c.get("targs", [])):
                counts.add(place_local(c["dest"]))
        if not counts:
            continue
        changed = True
        while changed:
            changed = False
            for bb, si, pl, rv, sp in f.assigns():
                if isinstance(pl, int) and pl not in counts and rv[0] == "use" and op_local(rv[1]) in counts and not place_projs(op_place(rv[1])):
                    counts.add(pl)
                    changed = True
        for bb, si, pl, rv, sp in f.assigns():
            if rv[0] != "bin" or not rv[1].startswith("Add"):
                continue
            a, b = rv[2], rv[3]
            for x, y in ((a, b), (b, a)):
                if op_local(x) in counts:
                    n += 1
                    terms = og.of_operand(f, y)
                    byte = sorted({classify(t)[5:] for t in terms if classify(t).startswith("byte:")})
                    key = "R9d|%s|chars().count() + %s" % (f.id, ",".join(byte) or "?")
                    if byte:
                        r.violate(key, "%s adds a character count to the byte column %s at %s" % (f.id, byte, crate.span_str(sp)))
                    else:
                        r.ok()
    r.counts["char_counts_added"] = n
    return r


def r9e_name_search_uses_identifier(ctx):
    r = Result("R9e", "the finder that looks a NAME up in the text of a source line to get its columns (by role: returns (usize, "
                      "usize), takes the text, a line number and the name, and searches with str::find) is handed the identifier "
                      "the AST carries at that place: no function of this crate lies in the backward slice of the name argument. "
                      "A name computed elsewhere (the `name=` keyword of the decorator) does not occur after `def`: the search "
                      "fails or hits another occurrence and the definition's columns point at the wrong text")
    from .r3 import _slice_calls
    crate = ctx.bin
    finders = set()
    for f in crate.real_fns():
        if f.kind not in ("fn", "method") or f.ret.replace(" ", "") != "(usize,usize)":
            continue
        tys = [f.local_ty(i) for i in range(1, f.argc + 1)]
        if sum(1 for t in tys if t.lstrip("&").startswith("str") or t == "&str") < 2 or "usize" not in tys:
            continue
        finders.add(f.id)
    # keep those that (transitively, among finders) search text
    searching = {fid for fid in finders if any(re.search(r"str>?::(find|match_indices|rfind)$", c.get("res") or "")
                                               for g in crate.real_fns() if g.root == fid for _b, c in g.calls())}
    grew = True
    while grew:
        grew = False
        for fid in finders - searching:
            if any(c.get("res") in searching for _b, c in crate.fns[fid].calls()):
                searching.add(fid)
                grew = True
    n = 0
    for f in crate.real_fns():
        for bb, c in f.calls():
            if c.get("res") not in searching or f.id in searching:
                continue
            tf = crate.fns[c["res"]]
            # the name is the last &str parameter
            idx = [i for i in range(1, tf.argc + 1) if tf.local_ty(i) == "&str"]
            if not idx or idx[-1] - 1 >= len(c["args"]):
                continue
            n += 1
            calls = _slice_calls(crate, f, c["args"][idx[-1] - 1])
            from .r6 import pure_destructurer
            local = sorted(x.split("::")[-1] for x in calls if x in crate.fns and x not in searching and not pure_destructurer(crate, crate.fns[x]))
            key = "R9e|%s|searched name is computed" % f.root
            if local:
                r.violate(key, "%s looks up a name at %s that comes out of %s, not out of the AST node at that place" % (
                    f.root, crate.span_str(c["span"]), local))
            else:
                r.ok(sample={"finder": tf.id.split("::")[-1], "called from": f.id.split("::")[-1]})
    r.counts["name_lookups_in_line_text"] = n  # no floor: the finder is recognised by its signature; a finder that returns a struct is not one
    return r
