"""R1e: progress of hand-written loops (C12 "no unbounded looping", C11 "never wedges").

`for` loops and `while let Some(x) = it.next()` loops consume an iterator and are not examined.  Every other natural loop of the
MIR is matched against a small set of progress idioms; for a matched idiom the obligation is a must-pass-through fact of the
CFG: no path from the loop header back to the header avoids every progress step.  A loop that matches no idiom is listed in
the evidence as unclassified and is NOT reported (termination is undecidable; the rule decides the structural part only)."""
import re

from ..check import Result
from ..core import op_local, op_place, op_const, place_local, place_projs, proj_fields, value_preserving
from ..reviewed import REVIEWED

NEXT_LIKE = re.compile(r"Iterator>?::next$|Peekable::<I>::next$|::next_key$|::next_element$|::next_value$|DoubleEndedIterator::next_back$|::next_entry$")
SET_TEST = re.compile(r"collections::(Hash|BTree)Set::<[^>]*>::(contains|insert)$|collections::(Hash|BTree)Map::<[^>]*>::contains_key$")
SET_SHRINK = re.compile(r"::(remove|clear|retain|drain|take)$")


def natural_loops(f):
    dom = f.dominators()
    heads = {}
    for b in f.reachable():
        for s in f.succs(b):
            if s in dom.get(b, set()):
                heads.setdefault(s, []).append(b)
    preds = f.preds()
    out = []
    for h, latches in sorted(heads.items()):
        body = {h}
        st = list(latches)
        while st:
            b = st.pop()
            if b in body:
                continue
            body.add(b)
            st.extend(p for p in preds.get(b, []) if p not in body)
        out.append((h, sorted(latches), body))
    return out


def _skip_goto(f, b, limit=6):
    while limit and f.blocks[b]["t"][0] == "goto" and not [s for s in f.blocks[b]["s"] if s[0] == "="]:
        b = f.blocks[b]["t"][1]
        limit -= 1
    return b


def _iterator_driven(f, h, body):
    """for loops, `while let Some(..) = it.next()`: the first call after the header consumes an iterator; the poll loop of
    an `.await` (coroutine bodies before the state transform) is not a loop of the program text"""
    if any(f.blocks[b]["t"][0] == "yield" for b in body) and any(
            f.blocks[b]["t"][0] == "call" and f.blocks[b]["t"][1]["span"][4].startswith("desugar:Await") for b in body):
        return True
    b = _skip_goto(f, h)
    t = f.blocks[b]["t"]
    if t[0] == "call":
        c = t[1]
        if NEXT_LIKE.search(c.get("fn") or "") or NEXT_LIKE.search(c.get("res") or ""):
            return True
    return False


def _root(f, op_or_local, depth=0):
    """root local through refs, copies, derefs and value-preserving calls (clone, as_ref, deref ...)"""
    l = op_or_local if isinstance(op_or_local, int) else op_local(op_or_local)
    if l is None or depth > 12:
        return l
    ds = f.whole_defs(l)
    if len(ds) != 1:
        return l
    d = ds[0]
    if d[0] == "assign" and d[3][0] == "ref":
        return _root(f, place_local(d[3][2]), depth + 1)
    if d[0] == "assign" and d[3][0] == "use" and op_place(d[3][1]) is not None:
        p = op_place(d[3][1])
        if all(e == "*" for e in place_projs(p)):
            return _root(f, place_local(p), depth + 1)
        return l
    if d[0] == "call" and d[2]["args"] and (value_preserving(d[2]) or re.search(r"::(clone|to_owned|to_string|to_path_buf|as_str|as_path|borrow)$", d[2].get("res") or "")):
        return _root(f, d[2]["args"][0], depth + 1)
    return l


def _avoiding_path(f, h, latches, body, progress_blocks):
    """is some latch reachable from the header inside the loop without passing a progress block?"""
    if h in progress_blocks:
        return None
    seen = {h}
    st = [h]
    while st:
        b = st.pop()
        if b in latches:
            return b
        for s in f.succs(b):
            if s in body and s not in seen and s not in progress_blocks and s != h:
                seen.add(s)
                st.append(s)
    return None


def _exit_switches(f, body):
    """(block, operand local) of switches in the loop with an edge leaving it"""
    out = []
    for b in body:
        t = f.blocks[b]["t"]
        if t[0] == "switch":
            targets = [x for _v, x in t[2]] + ([t[3]] if len(t) > 3 and t[3] is not None else [])
            if any(x not in body for x in targets):
                out.append((b, op_local(t[1])))
    return out


def _payload_assigns(f, body, opt_local):
    """blocks assigning some local from the Some payload of opt_local: [(bb, dest_local)]"""
    out = []
    for b in body:
        for s in f.blocks[b]["s"]:
            if s[0] != "=" or s[2][0] != "use":
                continue
            p = op_place(s[2][1])
            if p is not None and place_local(p) == opt_local and any(isinstance(e, list) and e[0] == "d" and e[1] == "Some" for e in place_projs(p)):
                out.append((b, place_local(s[1])))
    return out


def classify_loop(crate, f, h, latches, body):
    """-> (idiom, ok, detail) ; idiom None when no idiom matches"""
    latchset = set(latches)
    calls = [(b, f.blocks[b]["t"][1]) for b in sorted(body) if f.blocks[b]["t"][0] == "call"]
    # ---- W: pop-driven worklist
    hb = _skip_goto(f, h)
    ht = f.blocks[hb]["t"]
    if ht[0] == "call" and re.search(r"Vec::<T, A>::pop$|VecDeque::<T, A>::pop_(front|back)$", ht[1].get("res") or ""):
        return _worklist(crate, f, h, hb, ht[1], body, calls)
    # ---- P: parent walk
    for b, c in calls:
        if not re.search(r"path::Path::parent$", c.get("res") or ""):
            continue
        opt = place_local(c["dest"])
        cur = _root(f, c["args"][0])
        steps = set()
        # payload -> (temps ->) cur
        frm = {opt: None}
        changed = True
        while changed:
            changed = False
            for b2 in body:
                for s in f.blocks[b2]["s"]:
                    if s[0] != "=" or s[2][0] not in ("use", "ref"):
                        continue
                    p = op_place(s[2][1]) if s[2][0] == "use" else s[2][2]
                    if p is None or place_local(p) not in frm or not isinstance(s[1], int):
                        continue
                    if place_local(p) == opt and not any(isinstance(e, list) and e[0] == "d" and e[1] == "Some" for e in place_projs(p)):
                        continue
                    if s[1] == cur:
                        steps.add(b2)
                    elif s[1] not in frm:
                        frm[s[1]] = b2
                        changed = True
                t2 = f.blocks[b2]["t"]
                if t2[0] == "call" and t2[1]["args"] and op_local(t2[1]["args"][0]) in frm and op_local(t2[1]["args"][0]) != opt \
                        and re.search(r"::(to_path_buf|to_owned|into|clone|as_ref|from)$", t2[1].get("res") or ""):
                    d2 = place_local(t2[1]["dest"])
                    if d2 == cur:
                        steps.add(b2)
                    elif d2 not in frm:
                        frm[d2] = b2
                        changed = True
        if not steps:
            continue
        # exits on None
        w = _avoiding_path(f, h, latchset, body, steps)
        if w is None:
            return "parent-walk", True, "`%s` is replaced by its parent() on every way round" % (f.local_name(cur) or "_%d" % cur)
        return "parent-walk", False, "a path from the loop head to the back edge at bb%d does not step `%s` to its parent()" % (w, f.local_name(cur) or "_%d" % cur)
    # ---- K: peek-driven
    for b, c in calls:
        if re.search(r"Peekable::<I>::peek$", c.get("res") or ""):
            it = _root(f, c["args"][0])
            steps = {b2 for b2, c2 in calls if NEXT_LIKE.search(c2.get("res") or "") and _root(f, c2["args"][0]) == it}
            if not steps:
                continue
            w = _avoiding_path(f, h, latchset, body, steps)
            if w is None:
                return "peek-next", True, "the peeked iterator is advanced on every way round"
            return "peek-next", False, "a path to the back edge at bb%d does not advance the peeked iterator" % w
    # ---- C: counters (several may share the work: a two-pointer scan advances one of them per round)
    ctrs = []
    for i in _counter_candidates(f, body):
        steps, dirs = _counter_steps(f, body, i)
        if steps and len(dirs) == 1 and _controls_exit(f, body, i):
            ctrs.append((i, steps, dirs))
    if ctrs:
        allsteps = set().union(*[st for _i, st, _d in ctrs])
        names = ", ".join("`%s` %s" % (f.local_name(i) or "_%d" % i, "up" if d == {"Add"} else "down") for i, _s, d in ctrs)
        w = _avoiding_path(f, h, latchset, body, allsteps)
        if w is None:
            return "counter", True, "%s on every way round, tested by an exit" % names
        return "counter", False, "a path to the back edge at bb%d leaves the loop counter(s) %s unchanged" % (w, names)
    return None, True, ""


def _counter_candidates(f, body):
    out = []
    for b in sorted(body):
        for s in f.blocks[b]["s"]:
            if s[0] == "=" and isinstance(s[1], int) and re.match(r"^(usize|u32|u64|i32|i64|isize)$", f.local_ty(s[1])) and f.local_name(s[1]):
                if s[1] not in out:
                    out.append(s[1])
    return out


def _counter_steps(f, body, i):
    """blocks where `i = (i +/- const).0` (checked arithmetic) ; directions"""
    steps, dirs = set(), set()
    other = False
    for b in body:
        for s in f.blocks[b]["s"]:
            if s[0] != "=" or place_local(s[1]) != i or not isinstance(s[1], int):
                continue
            rv = s[2]
            ok = False
            if rv[0] == "use":
                p = op_place(rv[1])
                if p is not None and proj_fields(place_projs(p))[-1:] == [("tuple", "0")]:
                    for d in f.whole_defs(place_local(p)):
                        if d[0] == "assign" and d[3][0] == "bin" and d[3][1] in ("AddWithOverflow", "SubWithOverflow", "Add", "Sub"):
                            a, c = d[3][2], d[3][3]
                            if op_local(a) == i and op_const(c) is not None and str(op_const(c).get("v", "0")) not in ("0", "0_usize"):
                                ok = True
                                dirs.add("Add" if d[3][1].startswith("Add") else "Sub")
            elif rv[0] == "bin" and rv[1] in ("Add", "Sub", "AddUnchecked", "SubUnchecked") and op_local(rv[2]) == i and op_const(rv[3]) is not None:
                ok = True
                dirs.add("Add" if rv[1].startswith("Add") else "Sub")
            weak = False
            if not ok and rv[0] == "use" and op_local(rv[1]) is not None and not place_projs(op_place(rv[1])):
                # `i = i.saturating_sub(1)`: a step that stands still at the boundary.  It is progress only behind a test of `i`
                # that leaves the loop there (`if i == 0 { break }` first); otherwise the way round through it may change nothing
                for d in f.whole_defs(op_local(rv[1])):
                    if d[0] == "call" and re.search(r"::saturating_(sub|add)$", d[2].get("res") or "") and d[2]["args"] \
                            and op_local(d[2]["args"][0]) is not None and _copy_of(f, op_local(d[2]["args"][0])) == i:
                        weak = True
                        dirs.add("Sub" if d[2]["res"].endswith("sub") else "Add")
                        if _exit_test_dominates(f, body, i, b):
                            ok = True
            if ok:
                steps.add(b)
            elif not weak:
                other = True
    if other:
        return set(), set()
    return steps, dirs


def _exit_test_dominates(f, body, i, b):
    dom = f.dominators().get(b, set())
    for sb, l in _exit_switches(f, body):
        if l is None or sb not in dom:
            continue
        for d in f.whole_defs(l):
            if d[0] == "assign" and d[3][0] == "bin" and d[3][1] in ("Eq", "Ne", "Lt", "Le", "Gt", "Ge"):
                for o in (d[3][2], d[3][3]):
                    ol = op_local(o)
                    if ol is not None and (ol == i or _copy_of(f, ol) == i):
                        return True
    return False


def _controls_exit(f, body, i):
    """some switch leaving the loop tests a comparison in which `i` takes part"""
    for b, l in _exit_switches(f, body):
        if l is None:
            continue
        seen = set()
        st = [l]
        while st:
            x = st.pop()
            if x in seen or len(seen) > 12:
                continue
            seen.add(x)
            for d in f.whole_defs(x):
                if d[0] == "assign" and d[3][0] == "bin" and d[3][1] in ("Lt", "Le", "Gt", "Ge", "Eq", "Ne"):
                    for o in (d[3][2], d[3][3]):
                        ol = op_local(o)
                        if ol == i or (ol is not None and _copy_of(f, ol) == i):
                            return True
                elif d[0] == "assign" and d[3][0] in ("use", "un"):
                    o = d[3][1] if d[3][0] == "use" else d[3][2]
                    if op_local(o) is not None:
                        st.append(op_local(o))
    # an index bounds assertion on `i` followed by an exit does not count; `i` compared in a block that breaks is enough above
    return False


def _copy_of(f, l, depth=0):
    ds = f.whole_defs(l)
    if len(ds) == 1 and ds[0][0] == "assign" and ds[0][3][0] == "use" and depth < 4:
        p = op_place(ds[0][3][1])
        if p is not None and not place_projs(p):
            return _copy_of(f, place_local(p), depth + 1)
    return l


def _computed_from(f, op, target, limit=200):
    """is the operand computed from local `target` (an identity / key derived from the node: `seen.insert(id_of(&node))`)?"""
    seen = set()
    st = [op_local(op)]
    while st and len(seen) < limit:
        l = st.pop()
        if l is None or l in seen:
            continue
        if l == target:
            return True
        seen.add(l)
        for d in f.whole_defs(l):
            if d[0] == "assign":
                rv = d[3]
                if rv[0] == "use":
                    st.append(op_local(rv[1]))
                elif rv[0] == "ref":
                    st.append(place_local(rv[2]))
                elif rv[0] == "agg":
                    st += [op_local(o) for o in rv[2]]
                elif rv[0] in ("cast", "un"):
                    st.append(op_local(rv[-1]))
            elif d[0] == "call":
                st += [op_local(a) for a in d[2]["args"]]
    return False


def _worklist(crate, f, h, hb, popc, body, calls):
    W = _root(f, popc["args"][0])
    popped = place_local(popc["dest"])
    # locals carrying (parts of) the popped frame
    from_pop = {popped}
    changed = True
    while changed:
        changed = False
        for b in body:
            for s in f.blocks[b]["s"]:
                if s[0] == "=" and s[2][0] in ("use", "ref"):
                    p = op_place(s[2][1]) if s[2][0] == "use" else s[2][2]
                    if p is not None and place_local(p) in from_pop and place_local(s[1]) not in from_pop:
                        from_pop.add(place_local(s[1]))
                        changed = True
    dom = f.dominators()
    shrinking = set()
    for b, c in f.calls():
        res = c.get("res") or ""
        if SET_SHRINK.search(res) and c["args"] and re.search(r"Hash(Set|Map)|BTree(Set|Map)", f.local_ty(_root(f, c["args"][0]) or 0)):
            shrinking.add(_root(f, c["args"][0]))
    pushes = [(b, c) for b, c in calls if re.search(r"Vec::<T, A>::push$|VecDeque::<T, A>::push_(back|front)$", c.get("res") or "") and _root(f, c["args"][0]) == W]
    # the loop must be a graph search: it inserts into a grow-only set (otherwise: a tree walk, nothing to demand)
    growing = {_root(f, c2["args"][0]) for _b2, c2 in calls if re.search(r"collections::(Hash|BTree)Set::<[^>]*>::insert$", c2.get("res") or "")} - shrinking
    if not growing:
        return None, True, ""
    n_succ = 0
    for b, c in pushes:
        first = _first_component(f, c["args"][1])
        r0 = _root(f, first) if first is not None else None
        if r0 in from_pop:
            continue            # the frame of the node being expanded is pushed back
        n_succ += 1
        guarded = False
        for sb in sorted(body):
            t = f.blocks[sb]["t"]
            if t[0] != "switch":
                continue
            tl = op_local(t[1])
            for d in f.whole_defs(tl) if tl is not None else []:
                cd = _through_not(f, d)
                if cd is None:
                    continue
                tc, negated = cd
                m = SET_TEST.search(tc.get("res") or "")
                if not m:
                    continue
                V = _root(f, tc["args"][0])
                if V not in growing:
                    continue
                key = _root(f, tc["args"][1]) if len(tc["args"]) > 1 else None
                # the test is about the popped node (dropped when popped again: the frames pushed back carry a position,
                # so the test need not dominate the push) or about the pushed node (then the push is on its not-seen side)
                if key in from_pop:
                    guarded = True
                    continue
                if (key != r0 and not (len(tc["args"]) > 1 and r0 is not None and _computed_from(f, tc["args"][1], r0))) \
                        or sb not in dom.get(b, set()):
                    continue
                # the push lies on the "not yet seen" side
                want = 0 if "contains" in (tc.get("res") or "") else 1
                if negated:
                    want = 1 - want
                side = [x for v, x in t[2] if v == want]
                if not side and len(t) > 3 and t[3] is not None:
                    side = [t[3]]
                if any(x == b or x in dom.get(b, set()) for x in side):
                    guarded = True
        if not guarded:
            return "worklist", False, "the successor pushed at %s is not behind a membership test in the grow-only set the loop records finished nodes in (neither when pushed nor when popped): nodes reached by several paths are expanded once per path" % crate.span_str(c["span"])
    if not n_succ:
        return None, True, ""
    return "worklist", True, "%d successor push(es) guarded by a grow-only visited set" % n_succ


def _through_not(f, d, depth=0):
    """definition -> (call, negated) following `!x` and copies"""
    if d[0] == "call":
        return d[2], False
    if d[0] == "assign" and d[3][0] == "un" and d[3][1] == "Not" and depth < 3:
        l = op_local(d[3][2])
        for d2 in f.whole_defs(l) if l is not None else []:
            r = _through_not(f, d2, depth + 1)
            if r:
                return r[0], not r[1]
    if d[0] == "assign" and d[3][0] == "use" and depth < 3:
        l = op_local(d[3][1])
        for d2 in f.whole_defs(l) if l is not None else []:
            r = _through_not(f, d2, depth + 1)
            if r:
                return r
    return None


def _first_component(f, op):
    """operand of the first field of the pushed aggregate (or the operand itself)"""
    l = op_local(op)
    if l is None:
        return None
    for d in f.whole_defs(l):
        if d[0] == "assign" and d[3][0] == "agg" and d[3][2]:
            return d[3][2][0]
        if d[0] == "call" and d[2].get("res_local") and d[2]["args"] and re.search(r"::(new|from|with_\w+)$", d[2].get("res") or ""):
            return d[2]["args"][0]      # a frame struct built by its constructor: `Frame::new(node, ..)`
    return op


def r1e_loop_progress(ctx):
    r = Result("R1e", "every hand-written loop (not driven by an iterator) that matches a progress idiom -- parent() walk, "
                      "peek/next scan, counter tested by an exit, pop-driven worklist -- makes its progress step on every path "
                      "from the loop head back to it (must-pass-through on the CFG); a worklist pushes a successor only behind a "
                      "membership test in a grow-only set (each node is expanded once, not once per path)")
    crate = ctx.bin
    n = 0
    classified = 0
    uncls = []
    for f in crate.real_fns():
        if "_serde::" in f.id or f.id.startswith("<"):
            continue
        for h, latches, body in natural_loops(f):
            if _iterator_driven(f, h, body):
                continue
            n += 1
            idiom, ok, detail = classify_loop(crate, f, h, latches, body)
            where = crate.span_str(f.blocks[_skip_goto(f, h)]["t"][1]["span"]) if f.blocks[_skip_goto(f, h)]["t"][0] == "call" else ""
            if idiom is None:
                uncls.append("%s%s" % (f.id.split("::")[-1], (" @" + where) if where else ""))
                continue
            classified += 1
            key = "R1e|%s|%s" % (f.id, idiom)
            if ok:
                r.ok(sample={"loop": f.id.split("::")[-1], "idiom": idiom, "why": detail} if len(r.samples) < 6 else None)
            elif key in REVIEWED:
                r.review(key, REVIEWED[key])
            else:
                r.violate(key, "%s loop in %s%s: %s" % (idiom, f.id, (" (head at %s)" % where) if where else "", detail))
    r.counts["hand_written_loops"] = n
    r.counts["classified"] = classified
    r.counts["unclassified"] = "; ".join(sorted(uncls)[:12])
    r.floor("hand-written loops", n, 8)
    r.floor("loops matching a progress idiom", classified, 6)
    return r


def r1e_worklist_unbounded(ctx):
    r = Result("R1e-b", "a pop-driven worklist that searches a graph (cycle detection, import closure) skips a node only because "
                        "of what the search has already seen: no branch inside the loop compares a length or a counter with an "
                        "integer constant >= 8 (a depth / size bound). A bound makes the search incomplete in a way no small "
                        "test shows: nodes past the bound are marked visited by the walk that gave up, so a cycle longer than "
                        "the bound is never reported")
    crate = ctx.bin
    n = 0
    for f in crate.real_fns():
        if "_serde::" in f.id or f.id.startswith("<"):
            continue
        for h, latches, body in natural_loops(f):
            if _iterator_driven(f, h, body):
                continue
            hb = _skip_goto(f, h)
            ht = f.blocks[hb]["t"]
            if not (ht[0] == "call" and re.search(r"Vec::<T, A>::pop$|VecDeque::<T, A>::pop_(front|back)$", ht[1].get("res") or "")):
                continue
            n += 1
            bounds = []
            for b in sorted(body):
                for st in f.blocks[b]["s"]:
                    if st[0] != "=" or st[2][0] != "bin" or st[2][1] not in ("Lt", "Le", "Gt", "Ge"):
                        continue
                    for o in (st[2][2], st[2][3]):
                        k = op_const(o)
                        v = k.get("v") if k else None
                        if v is not None and str(v).isdigit() and int(v) >= 8 and not (st[-1][4] if isinstance(st[-1], list) and len(st[-1]) > 4 else "").startswith("macro:"):
                            bounds.append((int(v), st[-1]))
            key = "R1e-b|%s|numeric bound in worklist" % f.id
            if bounds:
                r.violate(key, "worklist loop in %s compares against the constant(s) %s at %s" % (
                    f.id, sorted({b[0] for b in bounds}), crate.span_str(bounds[0][1]) if isinstance(bounds[0][1], list) else "?"))
            else:
                r.ok(sample={"worklist": f.id.split("::")[-1]} if len(r.samples) < 4 else None)
    r.floor("pop-driven worklists", n, 1)
    return r


SHARED_READS = r"atomic::Atomic(\w+|::<[^>]*>)::(load|compare_exchange\w*|fetch_\w+|swap)$"


def _exit_rests_on_shared_read(f, body, l, limit=60):
    """does the tested local depend on a value read from shared state *inside* the loop (an atomic load)?"""
    seen, st = set(), [l]
    while st and len(seen) < limit:
        x = st.pop()
        if x is None or x in seen:
            continue
        seen.add(x)
        for d in f.whole_defs(x):
            if d[1] not in body if d[0] in ("assign", "call") else True:
                continue
            if d[0] == "call":
                if re.search(SHARED_READS, d[2].get("res") or d[2].get("fn") or ""):
                    return d[2]
                st += [op_local(a) for a in d[2]["args"]]
            else:
                rv = d[3]
                if rv[0] == "use":
                    st.append(op_local(rv[1]))
                elif rv[0] == "bin":
                    st += [op_local(rv[2]), op_local(rv[3])]
                elif rv[0] in ("cast", "un"):
                    st.append(op_local(rv[-1]))
                elif rv[0] == "ref":
                    st.append(place_local(rv[2]))
    return None


def r1e_no_wait_for_quiescence(ctx):
    r = Result("R1e-c", "no hand-written loop can be left only through tests of a value it reads from shared state inside the loop "
                        "(an atomic load / compare-exchange): such a retry loop ends when the other threads stop writing, not "
                        "after a number of steps -- a steady stream of analyses keeps the request spinning for ever although no "
                        "lock is held. A loop with another way out (a counter, an iterator, a pop) is bounded by that one")
    crate = ctx.bin
    n = 0
    for f in crate.real_fns():
        if "_serde::" in f.id or f.id.startswith("<"):
            continue
        for h, latches, body in natural_loops(f):
            if _iterator_driven(f, h, body):
                continue
            n += 1
            ex = _exit_switches(f, body)
            # other ways out: a call whose unwinding is not the point, a `return`/`?` edge is a switch too
            if not ex:
                continue
            reads = [_exit_rests_on_shared_read(f, body, l) if l is not None else None for _b, l in ex]
            key = "R1e-c|%s|retry until shared state is quiet" % f.id
            if all(reads):
                r.violate(key, "loop in %s (head near %s) is left only when the value of %s read at %s compares as wanted: other "
                               "threads decide when it ends" % (f.id, crate.span_str(reads[0]["span"]),
                                                              (reads[0].get("res") or "").split("::")[-2:], crate.span_str(reads[0]["span"])))
            else:
                r.ok(sample={"loop": f.id.split("::")[-1], "exits": len(ex), "resting on a shared read": sum(1 for x in reads if x)}
                     if len(r.samples) < 4 else None)
    r.floor("hand-written loops", n, 8)
    return r
