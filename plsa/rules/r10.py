"""R10: discovery relocation invariance (C13) and classification / import-graph siblings (C14)."""
import re
from collections import defaultdict

from ..check import Result
from ..core import (Origins, op_local, op_place, op_const, op_str, place_local, place_projs, proj_fields, value_preserving)
from ..facts import DbInfo, DB
from ..reviewed import REVIEWED
from .r8 import literals_reaching, _switch_after_call


def _db(ctx):
    return ctx.memo("dbinfo", lambda: DbInfo(ctx))


def discovery_fn(ctx):
    """the workspace walk: function that constructs a WalkDir and runs the parallel per-file analysis"""
    cands = []
    for f in ctx.bin.real_fns():
        if f.kind not in ("method", "fn"):
            continue
        walk = any((c.get("res") or "").startswith("walkdir::WalkDir::new") for _b, c in f.calls())
        if walk and _uses_rayon(ctx, f):
            cands.append(f)
    return cands[0] if len(cands) == 1 else None


def _uses_rayon(ctx, f, depth=0):
    """rayon in f itself or in a phase extracted from it (a local function it calls, one level)"""
    if any("rayon" in (c.get("res") or "") or "rayon" in (c.get("fn") or "") for _b, c in f.calls()):
        return True
    if depth == 0:
        for _b, c in f.calls():
            g = ctx.bin.fns.get(c.get("res")) if c.get("res_local") else None
            if g is not None and g.id != f.id and g.kind in ("fn", "method") and _uses_rayon(ctx, g, 1):
                return True
    return False


def parallel_phase_fns(ctx, f):
    """the functions in which the parallel per-file phase of walk f is written: f, its closures, and a phase helper with its closures"""
    fam = [f] + [h for h in ctx.bin.real_fns() if h.root == f.id and h.id != f.id]
    for _b, c in f.calls():
        g = ctx.bin.fns.get(c.get("res")) if c.get("res_local") else None
        if g is not None and g.id != f.id and g.kind in ("fn", "method") and _uses_rayon(ctx, g, 1):
            fam += [g] + [h for h in ctx.bin.real_fns() if h.root == g.id and h.id != g.id]
    return fam


def _derives_from_call(f, op, pattern, depth=0, seen=None):
    """does the operand derive (through copies, refs, value-preserving calls and method chains on paths/strings)
    from a call whose resolved name matches `pattern`?"""
    seen = seen or set()
    l = op_local(op)
    if l is None or l in seen or depth > 20:
        return False
    seen.add(l)
    for d in f.defs().get(l, []):
        if d[0] == "call":
            c = d[2]
            if re.search(pattern, c.get("res") or ""):
                return True
            # closures handed to Option/Result combinators (`.and_then(|ws| p.strip_prefix(ws).ok())`)
            for cid, loc in c.get("clos", []):
                cf = f.crate.fns.get(cid)
                if cf is not None and any(re.search(pattern, c2.get("res") or "") for _b, c2 in cf.calls()):
                    return True
            for a in c["args"][:1]:
                if _derives_from_call(f, a, pattern, depth + 1, seen):
                    return True
        elif d[0] == "assign":
            rv = d[3]
            if rv[0] == "use" and _derives_from_call(f, rv[1], pattern, depth + 1, seen):
                return True
            if rv[0] == "ref" and _derives_from_call(f, ["cp", rv[2]], pattern, depth + 1, seen):
                return True
            if rv[0] == "cast" and _derives_from_call(f, rv[2], pattern, depth + 1, seen):
                return True
    return False


def r10a_relocation(ctx):
    r = Result("R10a", "in the workspace walk every inspection of a path's components / text that feeds the inclusion decision "
                       "operates on the path relative to the walk root (`strip_prefix` of the very value given to WalkDir::new), and "
                       "the directory filter does not apply its ignore list to the root entry itself (depth 0): otherwise the "
                       "outcome changes when the workspace is moved under a directory named like an ignored one")
    f = discovery_fn(ctx)
    if f is None:
        r.anchor_missing("workspace walk", "no unique function that builds a WalkDir and a rayon loop")
        return r
    crate = ctx.bin
    fns = [f] + [g for g in crate.real_fns() if g.root == f.id and g.id != f.id]
    # walk root value
    root_keys = set()
    for bb, c in f.calls():
        if (c.get("res") or "").startswith("walkdir::WalkDir::new"):
            root_keys |= {str(x) for x in _param_roots(f, c["args"][0])}
    n = 0
    for g in fns:
        for bb, c in g.calls():
            res = c.get("res") or ""
            if c["span"][4].startswith("macro:"):
                continue
            if res.endswith("std::path::Path::components") or res.endswith("std::path::Path::ancestors") or \
                    (res.endswith("<impl str>::contains") and _derives_from_call(g, c["args"][0], r"Path::to_string_lossy$|Path::to_str$|Path::display$")):
                n += 1
                key = "R10a|%s|%s on a path not relative to the walk root" % (g.id, res.split("::")[-1])
                if _derives_from_call(g, c["args"][0], r"std::path::Path::strip_prefix$"):
                    r.ok(sample={"inspects": res.split("::")[-1], "relative": True})
                elif key in REVIEWED:
                    r.review(key, REVIEWED[key])
                else:
                    r.violate(key, "%s at %s inspects the absolute path: ancestors of the workspace named like an ignored "
                                   "directory exclude every file" % (res.split("::")[-1], crate.span_str(c["span"])))
            if res.endswith("std::path::Path::strip_prefix"):
                n += 1
                key = "R10a|%s|strip_prefix base" % g.id
                base = {str(x) for x in _param_roots(g, c["args"][1])} if len(c["args"]) > 1 else set()
                if base and base <= root_keys:
                    r.ok(sample={"strip_prefix_base": sorted(base), "walk_root": sorted(root_keys)})
                else:
                    r.violate(key, "strip_prefix at %s uses base %s, the walk yields paths prefixed with %s: the prefix does not "
                                   "match when the two differ (symlinked / non-canonical root) and the relative-path rules are skipped" % (
                                       crate.span_str(c["span"]), sorted(base), sorted(root_keys)))
    # filter_entry closure: ignore list must not be applied to the root entry
    for bb, c in f.calls():
        if (c.get("res") or "").endswith("::filter_entry"):
            for cid, loc in c.get("clos", []):
                cf = crate.fns.get(cid)
                if cf is None:
                    continue
                uses_ignore = any((c2.get("res") or "").endswith("::should_skip_directory") or "skip" in (c2.get("res") or "").lower() for _b, c2 in cf.calls())
                checks_depth = any((c2.get("res") or "").endswith("walkdir::DirEntry::depth") for _b, c2 in cf.calls())
                if not uses_ignore:
                    continue
                n += 1
                key = "R10a|%s|filter_entry applies the ignore list to the root entry" % cf.id
                if checks_depth:
                    r.ok(sample={"filter_entry": "depth-aware"})
                else:
                    r.violate(key, "the directory filter tests the root entry's own name against the ignore list: a workspace "
                                   "whose root directory is called `build`, `env`, `vendor` ... is not scanned at all")
    r.floor("path inspections in the workspace walk", n, 2)
    return r


def _param_roots(f, op, depth=0, seen=None):
    """parameters (by index) or calls an operand derives from through value-preserving steps"""
    seen = seen or set()
    l = op_local(op)
    if l is None or l in seen or depth > 12:
        return set()
    seen.add(l)
    out = set()
    for d in f.whole_defs(l):
        if d[0] == "arg":
            out.add(("param", d[1]))
        elif d[0] == "call":
            c = d[2]
            if value_preserving(c) and c["args"]:
                out |= _param_roots(f, c["args"][0], depth + 1, seen)
            else:
                out.add(("call", (c.get("res") or "?").split("::")[-1]))
        elif d[0] == "assign":
            rv = d[3]
            if rv[0] == "use":
                pl = op_place(rv[1])
                if pl is not None and place_local(pl) == 1 and f.kind == "closure" and proj_fields(place_projs(pl)) and proj_fields(place_projs(pl))[0][0].startswith("closure:"):
                    idx = [e[1] for e in place_projs(pl) if isinstance(e, list) and e[0] == "f"][0]
                    site = f.crate.closure_sites().get(f.id)
                    if site is not None and idx < len(site[3]):
                        out |= _param_roots(site[0], site[3][idx], depth + 1, set())
                else:
                    out |= _param_roots(f, rv[1], depth + 1, seen)
            elif rv[0] == "ref":
                out |= _param_roots(f, ["cp", rv[2]], depth + 1, seen)
    return out


def _name_tests(f, depth=0):
    """(method, literal) tests on a file name in f and in the local helper functions it calls / passes (two levels)"""
    out = set()
    if depth < 2:
        for bb, c in f.calls():
            tgt = []
            if c.get("res_local") and c.get("res") in f.crate.fns:
                tgt.append(c["res"])
            for cid, loc in c.get("clos", []):
                g = f.crate.fns.get(cid)
                if g is not None and (g.kind in ("fn", "method") or (g.kind == "closure" and len(g.blocks) < 40)):
                    tgt.append(cid)    # a named predicate, or a small closure (`.is_some_and(|name| name == "conftest.py" || ..)`)
            for a in c["args"]:
                k = op_const(a)
                if k and k.get("res_local") and k.get("res") in f.crate.fns:
                    tgt.append(k["res"])
            for t in tgt:
                g = f.crate.fns[t]
                if g.id != f.id and len(g.blocks) < 80:
                    out |= _name_tests(g, depth + 1)
    for bb, c in f.calls():
        res = c.get("res") or ""
        m = re.search(r"<impl str>::(starts_with|ends_with|contains)$", res)
        if m and len(c["args"]) > 1:
            for lit in literals_reaching(f, c["args"][1]):
                out.add((m.group(1), lit))
        if "PartialEq" in (c.get("fn") or ""):
            for a in c["args"]:
                for lit in literals_reaching(f, a):
                    if lit.endswith(".py"):
                        out.add(("eq", lit))
    return out


def r10b_filename_predicates(ctx):
    r = Result("R10b", "the file-name predicate of the workspace walk and the predicate that seeds the import scan use the same "
                       "literal tests (conftest.py / test_*.py / *_test.py)")
    f = discovery_fn(ctx)
    if f is None:
        r.anchor_missing("workspace walk", "not found")
        return r
    crate = ctx.bin
    a = {t for t in _name_tests(f) if t[1].endswith(".py") or t[1].endswith("_")}
    # seed filter: closure (of a closure) in the scan code comparing with "conftest.py" that is not part of the walk
    others = []
    for g in crate.real_fns():
        if g.root == f.id or g.id == f.id:
            continue
        if "scanner" not in g.id:
            continue
        t = {x for x in _name_tests(g) if x[1].endswith(".py") or x[1].endswith("_")}
        if ("eq", "conftest.py") in t and any(m == "starts_with" for m, _ in t):
            others.append((g, t))
    r.counts["walk_tests"] = ",".join("%s:%s" % x for x in sorted(a))
    if not others:
        r.anchor_missing("import-scan seed filter", "no second predicate testing conftest.py / test_ prefixes in the scanner")
        return r
    for g, t in others:
        key = "R10b|%s" % g.id
        if t == a:
            r.ok(sample={"sibling": g.id.split("::")[-3:], "tests": sorted(t)})
        else:
            r.violate(key, "file-name tests differ: walk %s vs %s %s" % (sorted(a - t), g.id.split("::")[-2], sorted(t - a)))
    return r


def r10f_no_short_circuit(ctx):
    r = Result("R10f", "the parallel per-file phase of the scan consumes the file list with a non-short-circuiting consumer "
                       "(for_each): one unreadable file must not stop the others from being analysed")
    f = discovery_fn(ctx)
    if f is None:
        r.anchor_missing("workspace walk", "not found")
        return r
    n = 0
    for g in parallel_phase_fns(ctx, f):
        for bb, c in g.calls():
            fn_ = c.get("fn") or ""
            if "rayon" not in fn_ and "rayon" not in (c.get("res") or ""):
                continue
            m = fn_.split("::")[-1]
            if m in ("into_par_iter", "par_iter", "par_iter_mut", "par_bridge"):
                continue
            n += 1
            key = "R10f|%s|%s" % (g.id, m)
            # rayon's short-circuiting operations (its documentation marks them): the try_* family, the find / position /
            # any / all searches, while_some, the *_any takes and skips, panic_fuse, and collect into Result / Option
            short = bool(re.match(r"try_|find_|position_|any$|all$|while_some$|take_any|skip_any|panic_fuse$|(par_)?(r)?chunks_exact", m)) or \
                (m in ("collect", "collect_into_vec", "from_par_iter") and
                 re.search(r"\b(Result|Option)<", " ".join(c.get("targs", [])[1:2] or c.get("targs", []))) is not None and
                 re.match(r"(std|core)::(result::Result|option::Option)<", (c.get("targs", ["", ""]) + [""])[1] or "") is not None)
            if not short:
                r.ok(sample={"parallel_consumer": m})
            else:
                r.violate(key, "parallel consumer `%s` at %s can stop early (short-circuit): files after the first failure are not analysed" % (
                    m, ctx.bin.span_str(c["span"])))
    r.floor("parallel consumers in the scan", n, 1)
    # a closure that is handed a BATCH of files loops over it: that loop is left only when the batch is exhausted (a `return`
    # on the first unreadable file skips the rest of its batch)
    from .r1e import natural_loops, _iterator_driven, _skip_goto
    phase = parallel_phase_fns(ctx, f)
    for g in [h for h in phase if h.kind == "closure"]:
        site = ctx.bin.closure_sites().get(g.id)
        if site is None:
            continue
        handed_to_rayon = any(any(cid == g.id for cid, _l in c.get("clos", [])) and ("rayon" in (c.get("fn") or "") or "rayon" in (c.get("res") or ""))
                              for h in phase for _bb, c in h.calls())
        if not handed_to_rayon:
            continue
        for hd, latches, body in natural_loops(g):
            if not _iterator_driven(g, hd, body):
                continue
            hb = _skip_goto(g, hd)
            nxt = g.blocks[hb]["t"][1].get("target") if g.blocks[hb]["t"][0] == "call" else None
            early = []
            for b in sorted(body):
                if b == nxt or b == hb:
                    continue  # the None edge of next(): the batch is exhausted
                for s2 in g.succs(b):
                    if s2 not in body:
                        early.append(b)
            key = "R10f|%s|batch loop left early" % g.id
            if early:
                r.violate(key, "the loop over a batch of files in the parallel phase (%s) can be left before the batch is exhausted "
                               "(return / break at %s): the remaining files of that batch are not analysed" % (
                                   g.id, ctx.bin.span_str(g.blocks[early[0]]["t"][1]["span"]) if g.blocks[early[0]]["t"][0] == "call" else "block %d" % early[0]))
            else:
                r.ok(sample={"batch_loop": g.id.split("::")[-1], "left_only_when_exhausted": True})
    return r


# ------------------------------------------------------------------------------------------ C14
def _backward_callees(f, op, depth=0, seen=None):
    """names of the (non value-preserving) calls an operand's value is computed from"""
    seen = seen if seen is not None else set()
    out = set()
    l = op_local(op)
    if l is None or l in seen or depth > 20:
        return out
    seen.add(l)
    for d in f.defs().get(l, []):
        if d[0] == "call":
            c = d[2]
            if not value_preserving(c) and not re.search(r"to_string_lossy$|Deref>::deref$", c.get("res") or ""):
                out.add((c.get("res") or "?").split("::")[-1] + ((":" + ",".join(sorted(literals_reaching(f, c["args"][1])))) if len(c["args"]) > 1 and literals_reaching(f, c["args"][1]) else ""))
            for a in c["args"][:1]:
                out |= _backward_callees(f, a, depth + 1, seen)
        elif d[0] == "assign":
            rv = d[3]
            for o in ([rv[1]] if rv[0] in ("use",) else [["cp", rv[2]]] if rv[0] == "ref" else [rv[2], rv[3]] if rv[0] == "bin" else [rv[2]] if rv[0] in ("un", "cast") else []):
                out |= _backward_callees(f, o, depth + 1, seen)
            if rv[0] == "use" and op_place(rv[1]) is not None:
                # which component of a pair the value is (`let (third_party, plugin) = origin(..)`: swapping the two names at one
                # site gives the same callee and another component)
                fs = proj_fields(place_projs(op_place(rv[1])))
                if len(fs) == 1 and (fs[0][0] == "tuple" or str(fs[0][0]).startswith("(")) and str(fs[0][1]).isdigit():
                    out.add("component:%s" % fs[0][1])
            if rv[0] == "use" and op_const(rv[1]) is not None:
                out.add("const:%s" % op_const(rv[1]).get("v"))
    return out


def r10c_constructors_agree(ctx):
    r = Result("R10c", "every construction of a FixtureDefinition derives `is_third_party` and `is_plugin` from the same set of "
                       "tests (site-packages substring / editable-install test; plugin-file membership)")
    crate = ctx.bin
    sites = []
    for f in crate.real_fns():
        if f.id.startswith("<"):
            continue
        for bb, si, pl, rv, sp in f.assigns():
            if rv[0] == "agg" and rv[1][0] == "adt" and rv[1][1] == "fixtures::types::FixtureDefinition":
                names = rv[1][3]
                d = {}
                for fld in ("is_third_party", "is_plugin"):
                    d[fld] = frozenset(x for x in _backward_callees(f, rv[2][names.index(fld)]) if not x.startswith("const:"))
                sites.append((f, sp, d))
    r.counts["constructions"] = len(sites)
    if len(sites) < 2:
        r.floor("FixtureDefinition constructions", len(sites), 2)
        return r
    ref = sites[0][2]
    for f, sp, d in sites:
        for fld in ("is_third_party", "is_plugin"):
            key = "R10c|%s|%s" % (f.id, fld)
            if d[fld] == ref[fld] and d[fld]:
                r.ok(sample={"constructor": f.id.split("::")[-1], fld: sorted(d[fld])})
            else:
                r.violate(key, "%s computes `%s` from %s, another constructor from %s" % (f.id.split("::")[-1], fld, sorted(d[fld]), sorted(ref[fld])))
    r.floor("FixtureDefinition constructions", len(sites), 2)
    return r


def r10d_mark_before_analyse(ctx):
    r = Result("R10d", "in every function that marks a path as plugin file and analyses files, a mark that can be followed by the "
                       "analysis of the same path dominates it; a mark of an already indexed path (guarded by membership in the "
                       "file cache) enqueues the path for a cleaning re-analysis")
    db = _db(ctx)
    crate = ctx.bin
    entry = db.analysis_entry()
    n = 0
    marks = db.maps_where(lambda k, v: k == "std::path::PathBuf" and v == "()")  # the set of plugin files
    for op in (db.ops_by_map.get(marks[0], []) if len(marks) == 1 else []):
        if op.method != "insert":
            continue
        f = op.fn
        n += 1
        dom = f.dominators()
        ana = [bb for bb, c in f.calls() if c.get("res_local") and entry is not None and entry.id in db.cg.reach([c["res"]])
               and (c.get("res") or "").split("::")[-1].startswith(("analyze_file", "scan_"))]
        later = [a for a in ana if _reaches(f, op.bb, a)]
        key = "R10d|%s" % f.id
        # re-analysis queue: a HashSet::insert post-dominated... within 6 blocks after the mark under a file_cache.contains_key test
        queue = False
        for bb, c in f.calls():
            if re.search(r"HashSet::<T, S(, A)?>::insert$", c.get("res") or "") and op.bb in dom.get(bb, set()):
                fc = [b2 for b2, c2 in f.calls() if (c2.get("res") or "").endswith("DashMap::<K, V, S>::contains_key") and op.bb in dom.get(b2, set()) and b2 in dom.get(bb, set())]
                if fc:
                    queue = True
        direct = [a for a in later if op.bb in dom.get(a, set())]
        if queue or direct:
            r.ok(sample={"marker": f.id.split("::")[-1], "then": "re-analysis queue" if queue else "analysis dominated by the mark"})
        else:
            r.violate(key, "plugin mark in %s at %s is neither followed by an analysis it dominates nor by an enqueue for re-analysis: "
                           "fixtures indexed before the mark keep is_plugin = false" % (f.id, crate.span_str(op.call["span"])))
    r.floor("plugin marks", n, 3)
    return r


def _reaches(f, a, b):
    seen = {a}
    st = [a]
    while st:
        x = st.pop()
        if x == b:
            return True
        for s in f.succs(x):
            if s not in seen:
                seen.add(s)
                st.append(s)
    return False


def r10e_walkers(ctx):
    r = Result("R10e", "every import-graph walker (function that resolves module names to files in a loop or recursion) consults both "
                       "kinds of edges: `from x import ...` (extract_fixture_imports) and `pytest_plugins` declarations "
                       "(extract_pytest_plugins)")
    crate = ctx.bin
    cg = ctx.callgraph()
    from .. import roles
    imp_x = roles.import_extractors(ctx)      # build FixtureImport records (`from x import ..` edges)
    plg_x = roles.plugin_decl_extractors(ctx)  # read `pytest_plugins = ..` declarations
    r.counts["import_extractors"] = ",".join(sorted(x.split("::")[-1] for x in imp_x))
    r.counts["pytest_plugins_extractors"] = ",".join(sorted(x.split("::")[-1] for x in plg_x))
    if not imp_x or not plg_x:
        r.anchor_missing("edge extractors", "import extractors: %d, pytest_plugins extractors: %d" % (len(imp_x), len(plg_x)))
        return r
    walkers = []
    entry = _db(ctx).analysis_entry()
    for f in crate.real_fns():
        if f.kind not in ("method", "fn") or f.id in imp_x or f.id in plg_x:
            continue
        # a walker follows edges: it calls an extractor itself (functions further up merely call the walker) AND it walks the
        # graph: it threads a visited set of paths (the import-closure computation) or leads to the analysis of the modules it
        # finds (the scan).  A wrapper around an extractor or a query that lists the direct references of one file walks nothing.
        if not any(c.get("res") in imp_x or c.get("res") in plg_x for g in crate.real_fns() if g.root == f.id for _b, c in g.calls()):
            continue
        threads_visited = any("HashSet<std::path::PathBuf>" in f.local_ty(i) and f.local_ty(i).startswith("&mut") for i in range(1, f.argc + 1))
        analyses = entry is not None and entry.id in cg.reach([f.id], include_spawn=True)
        if threads_visited or analyses:
            walkers.append(f)
    for f in walkers:
        reach = cg.reach([f.id])
        a = any(x in imp_x for x in reach)
        b = any(x in plg_x for x in reach)
        key = "R10e|%s" % f.id
        if not a and not b:
            continue
        if a and b:
            r.ok(sample={"walker": f.id.split("::")[-1], "edges": "imports + pytest_plugins"})
        else:
            r.violate(key, "%s follows %s but not %s" % (f.id.split("::")[-1], "imports" if a else "pytest_plugins" if b else "neither",
                                                         "pytest_plugins" if a else "imports"))
    r.floor("import-graph walkers", r.examined, 2)
    return r


def r10g_no_stale_snapshot(ctx):
    r = Result("R10g", "a function that inserts into a shared map does not decide on membership in a snapshot (collected copy) of "
                       "that same map: entries added during the loop would be invisible (e.g. plugin status not propagated past "
                       "the first hop of an import chain)")
    db = _db(ctx)
    crate = ctx.bin
    n = 0
    by_fn = defaultdict(set)
    for op in db.lm.ops:
        if op.family == "dashmap" and op.method == "insert":
            by_fn[op.fn.root].add(op.ident)
    for fid, maps in sorted(by_fn.items()):
        f = crate.fns.get(fid)
        if f is None:
            continue
        for op in db.fn_ops(fid):
            if op.method != "iter" or op.ident not in maps:
                continue
            n += 1
            # does the iterator flow into a collected local collection that is later used for membership tests?
            snap = _collected_from(f, place_local(op.call["dest"]))
            bad = []
            for s in snap:
                for bb, c in f.calls():
                    if re.search(r"::(contains|contains_key|get)$", c.get("res") or "") and c["args"] and _root(f, c["args"][0]) == s:
                        bad.append(crate.span_str(c["span"]))
                for g in crate.real_fns():
                    if g.root == f.id and g.id != f.id:
                        pass
            key = "R10g|%s|snapshot of %s" % (fid, op.ident.split(".")[-1])
            if bad:
                r.violate(key, "%s inserts into `%s` and tests membership in a snapshot of it taken at %s (tests at %s)" % (
                    fid.split("::")[-1], op.ident.split(".")[-1], crate.span_str(op.call["span"]), bad[:3]))
            else:
                r.ok()
    r.counts["iterations_of_maps_also_inserted"] = n
    return r


def _collected_from(f, l, depth=0, seen=None):
    """locals holding a collection built from iterator local l"""
    seen = seen or set()
    out = set()
    if l in seen or depth > 8:
        return out
    seen.add(l)
    for bb, c in f.calls():
        if any(op_local(a) == l for a in c["args"]):
            d = place_local(c["dest"])
            res = c.get("res") or ""
            if res.endswith("Iterator::collect") or c.get("fn") == "std::iter::Iterator::collect":
                out.add(d)
            else:
                out |= _collected_from(f, d, depth + 1, seen)
    for bb, si, pl, rv, sp in f.assigns():
        if rv[0] == "use" and op_local(rv[1]) == l:
            out |= _collected_from(f, place_local(pl), depth + 1, seen)
    return out


def _root(f, op, depth=0):
    l = op_local(op)
    if l is None or depth > 10:
        return None
    for d in f.whole_defs(l):
        if d[0] == "assign" and d[3][0] == "ref":
            return _root(f, ["cp", d[3][2]], depth + 1) if not isinstance(d[3][2], int) else d[3][2]
        if d[0] == "assign" and d[3][0] == "use" and op_local(d[3][1]) is not None:
            return _root(f, d[3][1], depth + 1)
    return l


def r10i_no_textual_path_prefix(ctx):
    r = Result("R10i", "an ancestor test between two paths is component-wise (`Path::starts_with`): `str::starts_with` between two "
                       "paths rendered as text also accepts siblings whose name merely extends the other (tests_integration vs tests)")
    crate = ctx.bin
    n = 0
    for f in crate.real_fns():
        for bb, c in f.calls():
            res = c.get("res") or ""
            if c["span"][4].startswith("macro:"):
                continue
            if res.endswith("std::path::Path::starts_with"):
                n += 1
                r.ok(sample={"component_wise": f.id.split("::")[-1]} if len(r.samples) < 3 else None)
            if re.search(r"<impl str>::starts_with$", res) and len(c["args"]) > 1:
                pat = r"Path::to_string_lossy$|Path::to_str$|Path::display$|OsStr::to_string_lossy$|OsStr::to_str$"
                a = _derives_from_call(f, c["args"][0], pat) and not _derives_from_call(f, c["args"][0], r"Path::file_name$|Path::extension$|Path::file_stem$")
                b = _derives_from_call(f, c["args"][1], pat) and not _derives_from_call(f, c["args"][1], r"Path::file_name$|Path::extension$|Path::file_stem$")
                if a and b:
                    n += 1
                    r.violate("R10i|%s|textual prefix test between paths" % f.id,
                              "string prefix test between two rendered paths at %s" % crate.span_str(c["span"]))
    r.floor("path ancestor tests", n, 5)
    return r


def r10a2_classification_relative(ctx):
    r = Result("R10a2", "a substring test of a rendered path against a directory-name literal (e.g. \"site-packages\") is made on the "
                        "path relative to the workspace root (`strip_prefix`), not on the absolute path: otherwise the classification "
                        "changes when the workspace lives under a directory whose name contains the literal")
    crate = ctx.bin
    n = 0
    for f in crate.real_fns():
        for bb, c in f.calls():
            res = c.get("res") or ""
            if c["span"][4].startswith("macro:") or not res.endswith("<impl str>::contains") or len(c["args"]) < 2:
                continue
            if not _derives_from_call(f, c["args"][0], r"Path::to_string_lossy$|Path::to_str$|Path::display$"):
                continue
            lits = literals_reaching(f, c["args"][1])
            lits = {l for l in lits if "." not in l and len(l) > 2}
            if not lits:
                continue
            n += 1
            key = "R10a2|%s|contains(%s) on an absolute path" % (f.id, ",".join(sorted(lits)))
            if _derives_from_call(f, c["args"][0], r"Path::strip_prefix$") or _derives_from_call(f, c["args"][0], r"::relative_to_workspace$"):
                r.ok(sample={"fn": f.id.split("::")[-1], "literal": sorted(lits), "relative": True})
            elif key in REVIEWED:
                r.review(key, REVIEWED[key])
            else:
                r.violate(key, "`%s` is tested on the absolute path in %s at %s" % (sorted(lits), f.id, crate.span_str(c["span"])))
    r.counts["sites"] = n
    return r


def _reaching_defs(f, L):
    """reaching definitions of whole local L: {bb: set(def ids)} at block entry; def id = (bb, statement index | 'T')"""
    gen = {}
    for bi, b in enumerate(f.blocks):
        last = None
        for si, s in enumerate(b["s"]):
            if s[0] == "=" and s[1] == L:
                last = (bi, si)
        t = b["t"]
        if t[0] == "call" and t[1]["dest"] == L:
            last = (bi, "T")
        gen[bi] = last
    IN = {b: set() for b in range(len(f.blocks))}
    work = list(f.reachable())
    preds = f.preds()
    out_of = lambda b: ({gen[b]} if gen[b] is not None else IN[b])
    changed = True
    while changed:
        changed = False
        for b in work:
            new = set()
            for p in preds.get(b, []):
                # a call's destination is written on the return edge only
                tp = f.blocks[p]["t"]
                if tp[0] == "call" and tp[1]["dest"] == L and tp[1].get("target") != b:
                    prev = None
                    for si, s in enumerate(f.blocks[p]["s"]):
                        if s[0] == "=" and s[1] == L:
                            prev = (p, si)
                    new |= ({prev} if prev is not None else IN[p])
                else:
                    new |= out_of(p)
            if new != IN[b]:
                IN[b] = new
                changed = True
    return IN


def _defs_at(f, IN, L, bb, si):
    cur = set(IN[bb])
    for k, s in enumerate(f.blocks[bb]["s"]):
        if si != "T" and k >= si:
            break
        if s[0] == "=" and s[1] == L:
            cur = {(bb, k)}
    return cur


def r10j_filter_sees_recorded_module(ctx):
    r = Result("R10j", "a skip filter applied to the module string of an import record (`FixtureImport.module_path`) tests the "
                       "string that is recorded: the definitions of the variable reaching the filter call are those reaching the "
                       "record construction (a filter placed before the leading dots of a relative import are prepended tests "
                       "another module name than the one imported)")
    from .r1e import _root
    crate = ctx.bin
    n = 0
    # the module string of the import record: its only String field (found by type, whatever it is called)
    adt = next((a for pth, a in crate.adts.items() if pth.endswith("::FixtureImport")), None)
    sfields = [x["name"] for x in adt["variants"][0]["fields"] if x["ty"] == "std::string::String"] if adt else []
    mfield = sfields[0] if len(sfields) == 1 else "module_path"
    for f in crate.real_fns():
        recs = []
        for bb, si, pl, rv, sp in f.assigns():
            if rv[0] == "agg" and rv[1][0] == "adt" and rv[1][1].endswith("::FixtureImport") and mfield in rv[1][3]:
                o = rv[2][rv[1][3].index(mfield)]
                L = _root(f, o)
                if L is not None:
                    recs.append((bb, si, L))
        if not recs:
            continue
        for L in sorted({L for _b, _s, L in recs}):
            IN = _reaching_defs(f, L)
            at_rec = set()
            for bb, si, L2 in recs:
                if L2 == L:
                    at_rec |= _defs_at(f, IN, L, bb, si)
            for bb, c in f.calls():
                if not c.get("res_local") or c["span"][4].startswith("macro:"):
                    continue
                g = crate.fns.get(c.get("res"))
                if g is None or g.ret != "bool":
                    continue
                if not any(_root(f, a) == L for a in c["args"]):
                    continue
                n += 1
                at_test = _defs_at(f, IN, L, bb, "T")
                key = "R10j|%s|%s tests `%s`" % (f.id, c["res"].split("::")[-1], f.local_name(L) or "_%d" % L)
                if at_test == at_rec:
                    r.ok(sample={"filter": c["res"].split("::")[-1], "variable": f.local_name(L), "definitions": len(at_rec)})
                else:
                    r.violate(key, "%s at %s sees %d of the %d definitions of `%s` that reach the record: it tests another string than "
                                   "the one stored in FixtureImport.module_path" % (c["res"].split("::")[-1], crate.span_str(c["span"]),
                                                                                   len(at_test & at_rec), len(at_rec), f.local_name(L)))
        # a filter applied to a PART of the recorded string (the bare module name that is later prefixed with the dots of a
        # relative import): sound only where relative imports are excluded first -- `level == 0 && is_stdlib(name)`
        from .r5 import _slice_fields
        from .r7 import _root_local
        dom = f.dominators()
        Ls = {L for _b, _s, L in recs}
        feeders = set()
        for bb, c in f.calls():
            roots = [_root_local(f, a) for a in c["args"]]
            if c["args"] and roots[0] in Ls and re.search(r"::(push_str|add|add_assign|insert_str|extend)$|Add<.*>>::add$", c.get("res") or ""):
                feeders |= {x for x in roots[1:] if x is not None}
        rel_guards = []
        for bb, b in enumerate(f.blocks):
            t = b["t"]
            if t[0] != "switch":
                continue
            for st in b["s"]:
                if st[0] == "=" and st[2][0] == "bin" and st[2][1] == "Eq" and op_local(t[1]) == place_local(st[1]):
                    a_, c_ = st[2][2], st[2][3]
                    for x, y in ((a_, c_), (c_, a_)):
                        k = op_const(y)
                        if k is not None and str(k.get("v")) == "0" and any(nm == "level" and o.endswith("StmtImportFrom") for o, nm in _slice_fields(f, x)):
                            rel_guards.append(t[3])  # otherwise-edge = comparison true
        for bb, c in f.calls():
            if not c.get("res_local") or c["span"][4].startswith("macro:"):
                continue
            g = crate.fns.get(c.get("res"))
            if g is None or g.ret != "bool":
                continue
            part = [a for a in c["args"] if _root_local(f, a) in feeders and _root_local(f, a) not in Ls]
            if not part:
                continue
            n += 1
            key = "R10j|%s|%s tests a part of the recorded module string" % (f.id, c["res"].split("::")[-1])
            if any(tg in dom.get(bb, set()) for tg in rel_guards):
                r.ok(sample={"filter": c["res"].split("::")[-1], "tests": "the bare module name, under `level == 0`"})
            else:
                r.violate(key, "%s at %s tests the bare module name of an import whose recorded string also carries the dots of a relative "
                               "import, without excluding relative imports first" % (c["res"].split("::")[-1], crate.span_str(c["span"])))
    r.floor("filters on recorded import module strings", n, 1)
    return r


# ------------------------------------------------------------------------------------------ R10h: the "already analysed" marker
def r10h_analysed_marker(ctx):
    r = Result("R10h", "scan-time code that decides by `contains_key` on a per-file map whether a file still has to be analysed "
                       "tests a map the analysis writes for EVERY file it analyses (an insert that lies on every path through "
                       "the analysis entry): a map that only has entries for files with fixtures / usages / imports makes the "
                       "scan analyse an open document again from disk")
    db = _db(ctx)
    crate = ctx.bin
    E = db.analysis_entry()
    if E is None:
        r.anchor_missing("analysis entry", "not found by role")
        return r
    Ev = ctx.inl(E, depth=2, max_blocks=120, tag="r10h")
    pdom = Ev.postdominators()
    complete = set()
    from ..locks import classify_call
    for bb, c in Ev.calls():
        k = classify_call(c)
        if k is None or k[1] != "insert" or not c["args"]:
            continue
        ids, why = db.lm.identity(Ev, c["args"][0])
        if len(ids) == 1 and not why and bb in pdom.get(0, set()):
            complete.add(next(iter(ids)).split(".")[-1])
    r.counts["written_for_every_analysed_file"] = ",".join(sorted(complete))
    fam = db.cg.reach([E.id])
    from .r3 import handler_roots
    query_fns = db.cg.reach([h.id for h in handler_roots(crate)], include_spawn=False)
    written_by_analysis = {m for m, ops in db.ops_by_map.items() if any(op.mode == "X" and (op.fn.root in fam or op.fn.id in fam) for op in ops)}
    n = 0
    for m, ops in sorted(db.ops_by_map.items()):
        if db.maps[m][0] != "std::path::PathBuf" or m not in written_by_analysis:
            continue
        for op in ops:
            if op.method != "contains_key":
                continue
            f = op.fn
            # scan-time code: it leads to the analysis itself, or it is not reachable from a request handler (without spawn)
            if f.root in fam or f.id in fam or (E.id not in db.cg.reach([f.root]) and f.root in query_fns):
                continue
            n += 1
            key = "R10h|%s|%s.contains_key" % (f.root, m)
            if m in complete:
                r.ok(sample={"test": key})
            elif key in REVIEWED:
                r.review(key, REVIEWED[key])
            else:
                r.violate(key, "%s decides at %s by `%s.contains_key()`; the analysis does not write `%s` for every file it analyses "
                               "(complete maps: %s)" % (f.root, crate.span_str(op.call["span"]), m, m, sorted(complete)))
    r.floor("already-analysed tests in scan-time code", n, 2)
    r.floor("maps written for every analysed file", len(complete), 1)
    return r


# ------------------------------------------------------------------------------------------ R10k: where the configuration comes from
def r10k_config_location(ctx):
    from .r3 import _slice_calls
    r = Result("R10k", "the configuration that steers discovery (exclude patterns are matched against paths relative to the workspace "
                       "root) is read from the workspace root's own pyproject.toml: the path handed to read_to_string in the loader "
                       "(found by role: joins the literal \"pyproject.toml\" and reads it) is not derived through ancestors() / "
                       "parent(): a file found above the root belongs to another project and its patterns are relative to another "
                       "directory")
    crate = ctx.bin
    n = 0
    for f in crate.real_fns():
        if f.kind not in ("fn", "method"):
            continue
        fam = [g for g in crate.real_fns() if g.root == f.id]
        lits = set()
        for g in fam:
            for bb, c in g.calls():
                if re.search(r"path::Path::join$", c.get("res") or ""):
                    for a in c["args"][1:]:
                        lits |= literals_reaching(g, a)
        if "pyproject.toml" not in lits:
            continue
        reads = [(bb, c) for bb, c in f.calls() if re.search(r"std::fs::read_to_string", c.get("res") or "")]
        if not reads:
            continue
        n += 1
        key = "R10k|%s" % f.id
        calls = set()
        for bb, c in reads:
            for a in c["args"]:
                calls |= _slice_calls(crate, f, a)
        up = sorted(x.split("::")[-1] for x in calls if re.search(r"path::Path::(ancestors|parent)$", x or ""))
        if up:
            r.violate(key, "%s looks for pyproject.toml through %s: a configuration above the workspace root is applied to it" % (f.id, up))
        else:
            r.ok(sample={"config_loader": f.id})
    r.floor("configuration loaders", n, 1)
    return r


# ------------------------------------------------------------------------------------------ R10l: the ignore set is exact
def r10l_skip_predicate_exact(ctx):
    r = Result("R10l", "the directory-ignore predicate (by role: a bool function over a name that consults a table of literals "
                       "containing `.git` / `__pycache__`) matches names exactly as they are on disk: no case folding "
                       "(to_lowercase, to_ascii_lowercase, eq_ignore_ascii_case, ...) in it. Folding widens the ignored set on a "
                       "case-sensitive file system (`Build/`, `Env/`): the test files below such a directory are never indexed")
    crate = ctx.bin
    n = 0
    preds = set()
    for f in crate.real_fns():
        if f.kind not in ("fn", "method") or f.ret != "bool":
            continue
        fam = [g for g in crate.real_fns() if g.root == f.id]
        lits = set()
        for g in fam:
            for bb, si, pl, rv, sp in g.assigns():
                for o in (rv[2] if rv[0] == "agg" else [rv[1]] if rv[0] in ("use",) else [rv[2]] if rv[0] == "cast" else []):
                    k = op_const(o) if isinstance(o, list) else None
                    if k and "named" in k:
                        lits |= crate.const_literals(k["named"])
                    if k and "promoted" in k:
                        lits |= crate.const_literals("%s::promoted[%d]" % (k["of"], k["promoted"]))
            for bb, c in g.calls():
                for a in c["args"]:
                    k = op_const(a) if isinstance(a, list) else None
                    if k and "named" in k:
                        lits |= crate.const_literals(k["named"])
                    if k and "promoted" in k:
                        lits |= crate.const_literals("%s::promoted[%d]" % (k["of"], k["promoted"]))
        if not ({".git", "__pycache__"} & lits):
            continue
        n += 1
        fold = sorted({(c.get("res") or "").split("::")[-1] for g in fam for _b, c in g.calls()
                       if re.search(r"::(to_lowercase|to_ascii_lowercase|to_uppercase|to_ascii_uppercase|eq_ignore_ascii_case|make_ascii_lowercase)$", c.get("res") or "")})
        key = "R10l|%s" % f.id
        if fold:
            r.violate(key, "%s folds the case of the name (%s) before matching the ignore table" % (f.id, fold))
        else:
            r.ok(sample={"ignore_predicate": f.id.split("::")[-1], "table_size": len(lits)})
        preds.add(f.id)
    r.floor("directory-ignore predicates", n, 1)
    # where it is consulted, names are single entry names or components of a root-relative path: a function family that
    # consults the table never splits a path that is not the result of strip_prefix into components / ancestors
    m = 0
    fams = set()
    for g in crate.real_fns():
        for bb, c in g.calls():
            if c.get("res") in preds or any((op_const(a) or {}).get("res") in preds for a in c["args"] if isinstance(a, list)):
                if g.root not in preds:
                    fams.add(g.root)
                    m += 1
    for root in sorted(fams):
        bad = None
        for g in crate.real_fns():
            if g.root != root:
                continue
            for bb, c in g.calls():
                res = c.get("res") or ""
                if c["span"][4].startswith("macro:"):
                    continue
                if (res.endswith("std::path::Path::components") or res.endswith("std::path::Path::ancestors")) and \
                        not _derives_from_call(g, c["args"][0], r"std::path::Path::strip_prefix$"):
                    bad = bad or (res.split("::")[-1], crate.span_str(c["span"]))
        key = "R10l|%s|ignore table applied to components of an absolute path" % root
        if bad and key not in REVIEWED and ("R10a|%s|%s on a path not relative to the walk root" % (root, bad[0])) not in REVIEWED:
            r.violate(key, "%s consults the directory-ignore table and splits a path that is not root-relative (%s at %s): an "
                           "ancestor of the workspace named like an ignored directory (`build`, `env`, `vendor`, ...) changes the "
                           "result" % (root, bad[0], bad[1]))
        else:
            r.ok(sample={"consults_ignore_table": root.split("::")[-1]})
    r.floor("consultations of the ignore predicate", m, 2)
    # the table is the WORKSPACE walk's: it lists names (`build`, `env`, `vendor`, `dist`, `target`, ...) that are ordinary
    # sub-package names inside an installed plugin.  The workspace walk is the one that is handed the exclude patterns
    for root in sorted(fams):
        f0 = crate.fns.get(root)
        if f0 is None:
            continue
        def is_walk(rt, depth=0):
            g0 = crate.fns.get(rt)
            if g0 is None:
                return False
            if any("Pattern" in g0.local_ty(i) for i in range(1, g0.argc + 1)):
                return True
            # ... or matches paths against exclude patterns itself (the patterns arrive inside an options value)
            if any(re.search(r"glob::Pattern::matches\w*$", c.get("res") or "") for g in crate.real_fns() if g.root == rt for _b, c in g.calls()):
                return True
            if depth >= 2:
                return False
            # a helper (an extracted entry filter) used by the walk only
            users = {g.root for g in crate.real_fns() for _bb, c in g.calls()
                     if g.root != rt and (c.get("res") == rt or any((op_const(a) or {}).get("res") == rt for a in c["args"] if isinstance(a, list)))}
            return bool(users) and all(is_walk(u, depth + 1) for u in users)
        key = "R10l|%s|ignore table consulted outside the workspace walk" % root
        if is_walk(root):
            r.ok(sample={"workspace_walk": root.split("::")[-1]})
        else:
            r.violate(key, "%s consults the workspace's directory-ignore table but is not the workspace walk (it is not handed "
                           "the exclude patterns): inside a plugin package `build`, `env`, `vendor` are ordinary sub-packages, "
                           "their fixtures are never indexed" % root)
    return r


# ------------------------------------------------------------------------------------------ R10m: imports are transitive
def r10m_import_reads_are_transitive(ctx):
    r = Result("R10m", "in the computation of the fixtures a file imports (the recursion cycle that fills the imported-fixtures "
                       "memo) every look at what a resolved module DEFINES (a read of the per-file definition index keyed by the "
                       "resolved path) is followed, for the same path, by the recursive call that adds what that module IMPORTS: a "
                       "branch that consults only the module's own definitions loses names the module merely re-exports "
                       "(`from .db import *` in a package `__init__`)")
    db = _db(ctx)
    crate = ctx.bin
    from .r3d import fill_functions, stamped_caches
    from .r7 import _root_local
    memo = [m for m, k in stamped_caches(db).items() if k == 2]   # (content hash, version, names): the import memo
    fills = fill_functions(db)
    n = 0
    idx_maps = set(db.maps_where(lambda k, v: k == "std::path::PathBuf" and v.startswith("std::collections::HashSet<std::string::String")))
    for m in memo:
        fid = fills.get(m)
        if fid is None:
            continue
        comp = None
        for c_ in db.cg.sccs():
            if fid in c_:
                comp = set(c_)
        if not comp:
            continue
        for gid in sorted(comp):
            g = crate.fns[gid]
            dom = g.dominators()
            rec = [(bb, c) for bb, c in g.calls() if c.get("res") in comp]
            for op in db.fn_ops(gid):
                if op.method != "get" or op.ident.split(".")[-1] not in idx_maps or len(op.call["args"]) < 2:
                    continue
                # only reads that also feed the result (skip pure membership tests of other maps)
                k = _root_local(g, op.call["args"][1])
                n += 1
                key = "R10m|%s|%s.get" % (gid, op.ident.split(".")[-1])
                ok = any(op.bb in dom.get(bb, set()) and any(_root_local(g, a) == k for a in c["args"][1:]) for bb, c in rec)
                if ok:
                    r.ok(sample={"read": key, "followed_by": "recursive call for the same path"})
                else:
                    r.violate(key, "%s reads `%s` for a resolved module at %s without a recursive call for the same path: names the "
                                   "module re-exports are not seen" % (gid.split("::")[-1], op.ident.split(".")[-1], crate.span_str(op.call["span"])))
    r.floor("definition-index reads in the import computation", n, 1)
    return r


def r10n_excludes_from_loaded_config(ctx):
    r = Result("R10n", "what the workspace walk is told to exclude comes from the configuration loaded for this root: where an "
                       "argument of the walk originates from a read of the shared configuration (`RwLock<Config>::read`), that read "
                       "is dominated, in the same function, by the write that stores the loader's result. A read taken before the "
                       "configuration is loaded (the load moved into the background task, the patterns still cloned on the "
                       "initialize path) scans with the default -- empty -- exclude list")
    crate = ctx.bin
    db = _db(ctx)
    walk = discovery_fn(ctx)
    if walk is None:
        r.anchor_missing("workspace walk", "not found")
        return r
    # the loader, by role (as in R10k)
    loaders = set()
    for f in crate.real_fns():
        if f.kind in ("fn", "method") and any(re.search(r"std::fs::read_to_string", c.get("res") or "") for _b, c in f.calls()):
            lits = set()
            for g in [x for x in crate.real_fns() if x.root == f.id]:
                for bb, c in g.calls():
                    if re.search(r"path::Path::join$", c.get("res") or ""):
                        for a in c["args"][1:]:
                            lits |= literals_reaching(g, a)
            if "pyproject.toml" in lits:
                loaders.add(f.id)
    n = 0
    for f in crate.real_fns():
        for bb, c in f.calls():
            if c.get("res") != walk.id:
                continue
            for i, a in enumerate(c["args"]):
                for t in db.origins.of_operand(f, a):
                    if t[0] != "call" or not re.search(r"RwLock::<T>::read", t[2] or ""):
                        continue
                    fields = t[3] if len(t) > 3 and isinstance(t[3], tuple) else ()
                    if not any("Config" in o for o, _n in fields):
                        continue
                    n += 1
                    R = crate.fns.get(t[1])
                    key = "R10n|%s|walk argument %d read before the configuration is loaded" % (f.root, i)
                    if R is None:
                        r.violate(key, "origin function %s not found" % t[1])
                        continue
                    dom = R.dominators()
                    reads = [b for b, c2 in R.calls() if re.search(r"RwLock::<T>::read", c2.get("res") or "") and "Config" in " ".join(c2.get("targs", []))]
                    writes = [b for b, c2 in R.calls() if re.search(r"RwLock::<T>::write", c2.get("res") or "") and "Config" in " ".join(c2.get("targs", []))]
                    loads = [b for b, c2 in R.calls() if c2.get("res") in loaders]
                    ok = bool(reads) and all(any(w in dom.get(rb, set()) and any(l in dom.get(w, set()) for l in loads) for w in writes) for rb in reads)
                    if ok:
                        r.ok(sample={"walk_argument": i, "read_in": R.id.split("::")[-2:], "after_load_and_store": True})
                    else:
                        r.violate(key, "%s reads the shared configuration for the walk's argument %d without a dominating "
                                       "load-and-store of the configuration in the same function" % (R.id, i))
    r.counts["walk_arguments_read_from_shared_configuration"] = n  # no floor: patterns handed over as a local have no such read
    return r


# ----------------------------------------------------------------------- R10o: the root is known before anything is analysed
def r10o_root_known_before_analysis(ctx):
    r = Result("R10o", "the database's root cell (by type: the one Mutex<Option<PathBuf>> field) is consulted by the analysis (the "
                       "third-party classification strips it from the path before looking for `site-packages` and compares "
                       "editable-install roots with it); a function that both stores it and starts analyses (directly or in a "
                       "closure it hands to a parallel iterator) takes the cell before the first of them, on every path. Stored "
                       "later, the files analysed before that are classified against no root -- a workspace that lies below a "
                       "directory called site-packages is indexed as third-party")
    db = _db(ctx)
    crate = ctx.bin
    entry = db.analysis_entry()
    cells = sorted(n for n, ty in db.mutexes.items() if re.search(r"Mutex<std::option::Option<std::path::PathBuf>>", ty))
    if entry is None or len(cells) != 1:
        r.anchor_missing("root cell", "analysis entry %s, Mutex<Option<PathBuf>> fields %s" % (entry.id if entry else None, cells))
        return r
    cell = cells[0]
    ops = [op for op in db.lm.ops if op.family == "std" and op.ident.endswith(".%s" % cell) and op.ident.split("|")[1].startswith(DB + ".")]
    reach_entry = db.cg.reach([entry.id])
    readers = sorted({op.fn.root for op in ops if op.fn.root in reach_entry or op.fn.id in reach_entry})
    r.counts["consulted_during_analysis_by"] = ", ".join(x.split("::")[-1] for x in readers)
    n = 0
    # who stores into the cell: a `deref_mut` of its guard (readers only deref)
    storers = set()
    for g in crate.real_fns():
        for _b, c in g.calls():
            if re.search(r"DerefMut>?::deref_mut$", c.get("res") or "") and \
                    re.search(r"std::sync::MutexGuard<'_, std::option::Option<std::path::PathBuf>>", " ".join(c.get("targs", []))):
                storers.add(g.id)
    r.counts["stored_by"] = ", ".join(sorted(x.split("::")[-1] for x in storers))
    def _reaching(targets):
        rev = defaultdict(set)
        for a, es in db.cg.edges.items():
            for _bb, t, via in es:
                if via != "spawn":
                    rev[t].add(a)
        seen, st = set(targets), list(targets)
        while st:
            x = st.pop()
            for a in rev.get(x, ()):
                if a not in seen:
                    seen.add(a)
                    st.append(a)
        return seen
    to_entry = _reaching({entry.id})
    to_storer = _reaching(storers)
    for f in crate.real_fns():
        if f.kind not in ("fn", "method", "closure", "coroutine"):
            continue
        starts, takes = [], []
        for bb, c in f.calls():
            callee = c.get("res") if c.get("res_local") else None
            via_clos = any(cid in to_entry for cid, _l in c.get("clos", []))
            if (callee and callee in to_entry) or via_clos:
                starts.append((bb, c))
            elif callee and callee in to_storer:
                takes.append(bb)      # a helper that stores the root (and analyses nothing)
        if f.id in storers:
            takes += [op.bb for op in ops if op.fn.id == f.id]
        if not starts or not takes:
            continue
        n += 1
        dom = f.dominators()
        late = [(bb, c) for bb, c in starts if not any(t in dom.get(bb, set()) for t in takes)]
        key = "R10o|%s|analysis started before the root is stored" % f.id
        if late and readers:
            r.violate(key, "%s starts analyses at %s before it stores the root cell `%s`: what is analysed there is "
                           "classified against no root" % (f.id, crate.span_str(late[0][1]["span"]), cell))
        else:
            r.ok(sample={"stores the root and analyses": f.id.split("::")[-1], "analysis starts": len(starts)})
    r.floor("functions that store the root and start analyses", n, 1)
    return r


# ----------------------------------------------------------------------- R10p: a pattern is compiled as it was written
def r10p_pattern_compiled_as_written(ctx):
    r = Result("R10p", "the text handed to the glob compiler (`glob::Pattern::new`) is the configured string itself: no trimming, "
                       "stripping, replacing, case folding or splitting call lies in the backward slice of its argument. A "
                       "'normalisation' (`trim_start_matches(['.', '/'])`) changes which paths a pattern matches -- `.ci/**` "
                       "becomes `ci/**` -- for exactly the spellings no test lists")
    from .r3 import _slice_calls
    crate = ctx.bin
    n = 0

    def reads_exclude_key(root):
        # the function family that turns the `exclude` key of the configuration table into patterns (the key is part of the
        # configuration format: the raw table's field is (de)serialised under its own name)
        for g in crate.real_fns():
            if g.root != root:
                continue
            for b in g.blocks:
                places = [pl for st in b["s"] if st[0] == "=" for pl in _rv_places(st[2]) if pl is not None]
                if b["t"][0] == "call":
                    places += [op_place(a) for a in b["t"][1]["args"] if op_place(a) is not None]
                for pl in places:
                    if any(nm == "exclude" for _o, nm in proj_fields(place_projs(pl))):
                        return True
        return False
    from ..sel import _rv_places
    for f in crate.real_fns():
        for bb, c in f.calls():
            if not re.search(r"glob::Pattern::new$", c.get("res") or "") or not c["args"]:
                continue
            if not reads_exclude_key(f.root):
                continue      # patterns of another setting (a list of file-name globs in one string is split and trimmed by design)
            n += 1
            calls = _slice_calls(crate, f, c["args"][0])
            edits = sorted({x.split("::")[-1] for x in calls if re.search(
                r"str>?::(trim\w*|strip_\w+|replace\w*|to_\w*case|to_lowercase|to_uppercase|split\w*|rsplit\w*)$|String::(remove|truncate|drain|replace_range|retain|insert\w*)$", x or "")})
            key = "R10p|%s|pattern text edited before it is compiled" % f.root
            if edits:
                r.violate(key, "%s compiles a pattern at %s whose text went through %s" % (f.root, crate.span_str(c["span"]), edits))
            else:
                r.ok(sample={"compiled in": f.id.split("::")[-2:], "calls in the slice of the text": len(calls)})
    r.counts["compilations_of_exclude_patterns"] = n  # no floor: a compile helper that is handed the strings does not read the key itself
    return r
