"""R5 selection rules for resolvers (C01, C02, C05, C16) and R4c order-sensitive selections (C08)."""
import re
from collections import defaultdict

from ..check import Result
from ..core import op_local, op_place, op_const, place_local, place_projs, proj_fields, value_preserving
from .. import sel
from ..reviewed import REVIEWED

VIS_FIELDS = {"file_path", "is_plugin", "is_third_party"}


def _sites(ctx):
    return ctx.memo("selsites", lambda: sel.all_sites(ctx.bin))


def _def_sites(ctx):
    return [s for s in _sites(ctx) if s.elem == sel.DEF]


def resolver_core(ctx):
    """the generic resolver: function with a closure-typed (Fn) parameter that contains >= 3 selection sites"""
    by_fn = defaultdict(list)
    for s in _def_sites(ctx):
        by_fn[s.owner].append(s)
    cands = []
    for fid, ss in by_fn.items():
        f = ctx.bin.fns.get(fid)
        if f is not None and any(s.filter_param for s in ss) and len(ss) >= 3:
            cands.append(f)
    return cands[0] if len(cands) == 1 else None


def site_key(rule, s, extra=""):
    return "%s|%s|%s%s" % (rule, s.fn.id, s.descr(), ("|" + extra) if extra else "")


def _disambiguate(sites):
    """stable keys for several sites of the same kind in one function: suffix with tested fields.  Each site also gets
    `alt_keys`: the same key under the function(s) it may have been extracted from (single-caller chain)."""
    out = {}
    cnt = defaultdict(int)
    for s in sites:
        tail = "%s|fields=%s|cmp=%s" % (s.descr(), ",".join(sorted(s.fields)) or "-", ",".join(sorted(set(s.path_cmp))) or "-")
        base = "%s|%s" % (s.owner, tail)
        cnt[base] += 1
        out[id(s)] = base if cnt[base] == 1 else "%s#%d" % (base, cnt[base])
        s.alt_keys = ["%s|%s" % (o, tail) for o in getattr(s, "owner_alts", [])]
    return out


def _alts(rule, s):
    return ["%s|%s" % (rule, k) for k in getattr(s, "alt_keys", [])]


def r5a_visibility(ctx, fns=None, rule="R5a"):
    r = Result(rule, "every selection of a FixtureDefinition out of the per-name vector whose result is used tests the selected "
                     "element on at least one of file_path / is_plugin / is_third_party: a selection by name alone can return a "
                     "definition that is not visible from the requesting file whenever two files define the name")
    sites = [s for s in _def_sites(ctx) if s.kind in ("call", "loop", "push")]
    if fns is not None:
        sites = [s for s in sites if any(s.owner.endswith("::" + n) or s.fn.root.endswith("::" + n) for n in fns)]
    keys = _disambiguate(sites)
    for s in sites:
        key = "%s|%s" % (rule, keys[id(s)])
        if s.fields & VIS_FIELDS:
            r.ok(sample=s.as_dict(ctx.bin) if len(r.samples) < 4 else None)
        elif key in REVIEWED:
            r.review(key, REVIEWED[key])
        else:
            r.violate(key, "selection `%s` in %s at %s picks a definition by name alone (no visibility test on the element)" % (
                s.descr(), s.fn.id, ctx.bin.span_str(s.span)), aliases=_alts(rule, s))
    r.counts["selection_sites"] = len(sites)
    return r


def r5a_c01(ctx):
    core = resolver_core(ctx)
    r = r5a_visibility(ctx, fns=[core.id.split("::")[-1]] if core else [], rule="R5a")
    if core is None:
        r.anchor_missing("resolver core", "no unique generic function with a filter parameter and >= 3 selection sites")
    else:
        r.floor("selection sites in the resolver cascade", r.counts.get("selection_sites", 0), 5)
    return r


def r5b_filter_everywhere(ctx):
    r = Result("R5b", "in the resolver that takes an exclusion filter closure, every selection site invokes that filter on the "
                      "candidate element (directly or inside its predicate closure)")
    core = resolver_core(ctx)
    if core is None:
        r.anchor_missing("resolver core", "not found")
        return r
    sites = [s for s in _def_sites(ctx) if s.owner == core.id]
    keys = _disambiguate(sites)
    for s in sites:
        key = "R5b|%s" % keys[id(s)]
        if s.filter_param:
            r.ok(sample={"site": s.descr(), "at": ctx.bin.span_str(s.span), "filter": True})
        else:
            r.violate(key, "selection `%s` at %s does not apply the caller's exclusion filter: a self-named parameter can resolve "
                           "to the overriding fixture itself" % (s.descr(), ctx.bin.span_str(s.span)))
    r.floor("selection sites in the resolver cascade", len(sites), 5)
    return r


# ------------------------------------------------------------------------------------------ R5c
def wrappers(ctx):
    """(non_excluding, excluding) wrapper function ids around the resolver core"""
    core = resolver_core(ctx)
    if core is None:
        return None, None, None
    non_ex, ex = [], []
    for f in ctx.bin.real_fns():
        if f.kind not in ("method", "fn"):
            continue
        for bb, c in f.calls():
            if c.get("res") == core.id:
                clos = [cid for cid, loc in c.get("clos", []) if loc and cid in ctx.bin.fns]
                if len(clos) != 1:
                    continue
                cf = ctx.bin.fns[clos[0]]
                # a wrapper is thin: apart from the core it calls nothing of the crate (a feature that calls the core with a
                # filter of its own is a client of the cascade, not one of its two entry points)
                if any(c3.get("res_local") and c3.get("res") in ctx.bin.fns and c3.get("res") != core.id
                       and not c3["span"][4].startswith("macro:") for _b3, c3 in f.calls()):
                    continue
                real_calls = [c2 for _b, c2 in cf.calls() if not c2["span"][4].startswith("macro:")]
                if not real_calls:
                    non_ex.append(f.id)
                elif any(c2.get("fn") in ("std::cmp::PartialEq::ne", "std::cmp::PartialEq::eq") for c2 in real_calls):
                    ex.append(f.id)
    return core, (non_ex[0] if len(non_ex) == 1 else None), (ex[0] if len(ex) == 1 else None)


def _name_cmp_fns(ctx):
    """closures/functions that compare FixtureDefinition.name with something"""
    out = set()
    for f in ctx.bin.real_fns():
        for bb, c in f.calls():
            if c.get("fn") in ("std::cmp::PartialEq::eq", "std::cmp::PartialEq::ne"):
                for a in c["args"]:
                    if _is_field(f, a, sel.DEF, "name"):
                        out.add((f.id, bb))
    return out


def _is_field(f, op, owner, name, depth=0):
    p = op_place(op)
    if p is None or depth > 6:
        return False
    for o, n in proj_fields(place_projs(p)):
        if o == owner and n == name:
            return True
    l = place_local(p)
    for d in f.whole_defs(l):
        if d[0] == "assign" and d[3][0] == "ref" and _is_field(f, ["cp", d[3][2]], owner, name, depth + 1):
            return True
        if d[0] == "assign" and d[3][0] == "use" and _is_field(f, d[3][1], owner, name, depth + 1):
            return True
    return False


def selfref_switches(ctx, f):
    """[(switch bb, true_target, false_target)] for switches in f that test 'current definition's name == usage name'"""
    cmps = _name_cmp_fns(ctx)
    src_locals = set()
    for bb, c in f.calls():
        if (f.id, bb) in cmps:
            src_locals.add(place_local(c["dest"]))
        else:
            # is_some_and(closure comparing the name) / map_or(false, closure)
            for cid, loc in c.get("clos", []):
                if any(fid == cid for fid, _ in cmps) and re.search(r"::(is_some_and|map_or|is_ok_and|filter)$", c.get("res") or ""):
                    src_locals.add(place_local(c["dest"]))
    out = []
    if not src_locals:
        return out
    aliases = set(src_locals)
    changed = True
    while changed:
        changed = False
        for bb, si, pl, rv, sp in f.assigns():
            if isinstance(pl, int) and pl not in aliases and rv[0] == "use" and op_local(rv[1]) in aliases and not place_projs(op_place(rv[1])):
                aliases.add(pl)
                changed = True
    # `opt.filter(|d| d.name == usage.name)` keeps the definition only when the names agree: the Some arm of a match on it
    # is the true side of the test
    discr = set()
    for bb, si, pl, rv, sp in f.assigns():
        if rv[0] == "discr" and isinstance(pl, int) and place_local(rv[1]) in aliases:
            discr.add(pl)
    for bb, b in enumerate(f.blocks):
        t = b["t"]
        if t[0] == "switch" and op_local(t[1]) in aliases:
            false_t = [tg for v, tg in t[2] if v == 0]
            if false_t:
                out.append((bb, t[3], false_t[0]))
        elif t[0] == "switch" and op_local(t[1]) in discr:
            false_t = [tg for v, tg in t[2] if v == 0]
            true_t = [tg for v, tg in t[2] if v == 1] or ([t[3]] if t[3] is not None else [])
            if false_t and true_t:
                out.append((bb, true_t[0], false_t[0]))
    return out


def r5c_selfref_pairing(ctx):
    r = Result("R5c", "every function that resolves a usage with the non-excluding resolver also calls the excluding resolver, the "
                      "excluding call lies on the true side and every non-excluding call (and every lookup of a memo of "
                      "non-excluding resolutions) lies off the true side of a test `current definition's name == usage name`")
    core, non_ex, ex = wrappers(ctx)
    if core is None or non_ex is None or ex is None:
        r.anchor_missing("resolver wrappers", "core=%s non_excluding=%s excluding=%s" % (core.id if core else None, non_ex, ex))
        return r
    # the excluding wrapper must exclude exactly one definition: its closure compares whole records
    exf = ctx.bin.fns[ex]
    whole = False
    for bb, c in exf.calls():
        if c.get("res") == core.id:
            for cid, loc in c.get("clos", []):
                cf = ctx.bin.fns.get(cid)
                if cf is None:
                    continue
                for _b, c2 in cf.calls():
                    if c2.get("fn") in ("std::cmp::PartialEq::ne", "std::cmp::PartialEq::eq"):
                        ta = " ".join(c2.get("targs", []))
                        if ta.count(sel.DEF) >= 2 or (ta.count(sel.DEF) >= 1 and "&" in ta and "PathBuf" not in ta and "String" not in ta):
                            whole = True
    if whole:
        r.ok(sample={"excluding_wrapper": ex, "compares": "whole FixtureDefinition records"})
    else:
        r.violate("R5c|%s|exclusion-not-by-record" % ex, "the excluding resolver's filter does not compare whole FixtureDefinition "
                  "records: it may exclude more than the overriding definition itself (e.g. every definition of its file)")
    r.counts["non_excluding"] = non_ex.split("::")[-1]
    r.counts["excluding"] = ex.split("::")[-1]
    callers = defaultdict(lambda: {"N": [], "X": []})
    for f in ctx.bin.real_fns():
        for bb, c in f.calls():
            if c.get("res") == non_ex:
                callers[f.id]["N"].append(bb)
            elif c.get("res") == ex:
                callers[f.id]["X"].append(bb)
    n = 0
    for fid, d in sorted(callers.items()):
        if fid in (non_ex, ex):
            continue
        f = ctx.bin.fns[fid]
        # the obligation is about resolving USAGES: a function whose family never handles a FixtureUsage (it resolves names
        # it enumerates itself, e.g. the definitions of a file) has no self-named parameter to get wrong
        fam = [g for g in ctx.bin.real_fns() if g.root == f.root]
        if not any(sel.USAGE in g.local_adts(l) for g in fam for l in range(len(g.locals))):
            continue
        n += 1
        key = "R5c|%s" % fid
        if d["N"] and not d["X"]:
            r.violate(key + "|unpaired", "%s resolves with the non-excluding resolver only: a self-named parameter of an overriding "
                                         "fixture resolves to the fixture itself" % fid)
            continue
        if not d["N"]:
            r.ok()
            continue
        sws = selfref_switches(ctx, f)
        if not sws:
            r.violate(key + "|no-selfref-test", "%s calls both resolvers but no test of `definition.name == usage name` decides between them" % fid)
            continue
        dom = f.dominators()
        ok = True
        why = ""
        true_side = set()
        for sw, tt, ft in sws:
            for b in range(len(f.blocks)):
                if tt in dom.get(b, set()) and tt != ft:
                    true_side.add(b)
        for xb in d["X"]:
            if xb not in true_side:
                ok = False
                why = "the excluding call is not controlled by the self-reference test"
        headers = {bb for bb, c in f.calls() if c.get("fn") == "std::iter::Iterator::next" and c["span"][4].startswith("desugar:ForLoop")}
        # memo maps: HashMap::insert fed (in the same iteration) by a non-excluding call
        memo_locals = set()
        for bb, c in f.calls():
            if re.search(r"std::collections::HashMap::<K, V, S(, A)?>::insert$", c.get("res") or "") and any(
                    nb in dom.get(bb, set()) or _reach_avoid(f, nb, bb, headers) for nb in d["N"]):
                memo_locals.add(_root_ref(f, c["args"][0]))
        nlike = list(d["N"])
        for bb, c in f.calls():
            if re.search(r"std::collections::HashMap::<K, V, S(, A)?>::(get|contains_key|entry)$", c.get("res") or "") and _root_ref(f, c["args"][0]) in memo_locals:
                nlike.append(bb)
        headers = {bb for bb, c in f.calls() if c.get("fn") == "std::iter::Iterator::next" and c["span"][4].startswith("desugar:ForLoop")}
        for nb in nlike:
            # a non-excluding resolution must not be reachable from the self-referencing side of any test
            # (without passing the test again, e.g. in the next loop iteration)
            for sw, tt, ft in sws:
                if tt != ft and _reach_avoid(f, tt, nb, {sw} | headers):
                    ok = False
                    why = "a non-excluding resolution (or memo lookup) is reachable on the self-referencing side"
            if not any(_reach_avoid(f, sw, nb, headers) for sw, _t, _f in sws) and not _on_none_edge(f, nb, dom):
                # never passes the test at all
                if not any(sw in dom.get(nb, set()) for sw, _t, _f in sws) and not any(_reach_avoid(f, 0, sw, nb) for sw, _t, _f in sws):
                    ok = False
                    why = "a non-excluding resolution (or memo lookup) is not controlled by the self-reference test"
        if ok:
            r.ok(sample={"caller": fid, "non_excluding_sites": len(nlike), "excluding_sites": len(d["X"])})
        else:
            r.violate(key + "|misplaced", "%s: %s" % (fid, why))
    r.floor("functions resolving usages", n, 3)
    return r


def _reach_avoid(f, a, b, avoid):
    if avoid is None:
        avoid = set()
    elif not isinstance(avoid, (set, frozenset)):
        avoid = {avoid}
    if a in avoid:
        return False
    seen = {a}
    st = [a]
    while st:
        x = st.pop()
        if x == b:
            return True
        for s2 in f.succs(x):
            if s2 not in seen and s2 not in avoid:
                seen.add(s2)
                st.append(s2)
    return False


def _root_ref(f, op, depth=0):
    l = op_local(op)
    if l is None or depth > 8:
        return l
    for d in f.whole_defs(l):
        if d[0] == "assign" and d[3][0] == "ref":
            return _root_ref(f, ["cp", d[3][2]], depth + 1) if place_projs(d[3][2]) in ([], ["*"]) and not isinstance(d[3][2], int) else place_local(d[3][2])
        if d[0] == "assign" and d[3][0] == "use" and op_local(d[3][1]) is not None:
            return _root_ref(f, d[3][1], depth + 1)
    return l


def _on_none_edge(f, bb, dom):
    """bb dominated by the 0-edge target of a discriminant switch over an Option<FixtureDefinition>-typed local"""
    for sb in dom.get(bb, set()):
        t = f.blocks[sb]["t"]
        if t[0] != "switch":
            continue
        dl = op_local(t[1])
        src = None
        for s in reversed(f.blocks[sb]["s"]):
            if s[0] == "=" and place_local(s[1]) == dl and s[2][0] == "discr":
                src = s[2][1]
        if src is None:
            continue
        ty = f.local_ty(place_local(src))
        if re.match(r"^&?(mut )?std::option::Option<&?(mut )?fixtures::types::FixtureDefinition>$", ty):
            none_t = [tg for v, tg in t[2] if v == 0]
            if none_t and none_t[0] in dom.get(bb, set()):
                return True
            if not none_t and t[3] in dom.get(bb, set()) and any(v == 1 for v, _ in t[2]):
                return True
    return False


# ------------------------------------------------------------------------------------------ R5d
def stage_of(s):
    cmp_ = set(s.path_cmp)
    if any(c.startswith("request:") for c in cmp_) and "file_path" in s.fields:
        return "same-file"
    if "conftest" in cmp_:
        return "conftest"
    if "is_plugin" in s.fields:
        return "plugin"
    if "is_third_party" in s.fields:
        return "third-party"
    if not s.fields:
        return "name-only"
    return "other"


ORIGIN_FLAGS = {"is_plugin", "is_third_party"}


def r5d_siblings(ctx):
    r = Result("R5d", "resolvers that answer 'which definition does this name denote for file F' (navigation cascade, per-file view "
                      "for completion/inlay hints, outgoing-call resolution) use the same selector class in the same stage: "
                      "when navigation takes the last same-file definition, a sibling taking the first one describes a "
                      "different definition whenever a file redefines a name")
    core = resolver_core(ctx)
    if core is None:
        r.anchor_missing("resolver core", "not found")
        return r
    # sibling resolvers: functions (not the core) with >= 3 stages among their selection sites and a Path parameter
    by_fn = defaultdict(list)
    for s in _def_sites(ctx):
        by_fn[s.owner].append(s)
    sibs = []
    for fid, ss in by_fn.items():
        if fid == core.id:
            continue
        stages = {stage_of(s) for s in ss}
        if len(stages & {"same-file", "conftest", "plugin", "third-party"}) >= 3 or ({"same-file", "plugin", "third-party"} <= stages):
            sibs.append(fid)
    r.counts["siblings"] = ",".join(x.split("::")[-1] for x in sorted(sibs))
    ref = {}
    for s in by_fn[core.id]:
        ref.setdefault(stage_of(s), s)
    # pytest uses the LAST definition of a name redefined in one file: the cascade's same-file stage must take the
    # maximum by line
    sf = ref.get("same-file")
    if sf is None:
        r.anchor_missing("same-file stage of the cascade", "no selection site pinned to the request path")
    elif sf.selector in ("max_by_key", "max_by") and (sf.key_field or "") == "line":
        r.ok(sample={"same_file_stage": "max_by_key(line)"})
    else:
        r.violate("R5d|%s|same-file stage is %s(%s)" % (core.id, sf.selector, sf.key_field),
                  "the same-file stage of the navigation cascade selects with %s(%s); pytest binds the last definition "
                  "(maximum line) of a name redefined in one file" % (sf.selector, sf.key_field))
    for fid in sorted(sibs):
        for s in by_fn[fid]:
            st = stage_of(s)
            if st == "name-only" and st in ref:
                # the stage that takes a definition by name alone (imported names, last-resort fallbacks): whatever order the
                # cascade imposes there (none: first registered; a ranking by origin: extremum) the siblings must impose too
                a, b = (s.klass, s.key_field or ""), (ref[st].klass, ref[st].key_field or "")
                if a == b:
                    r.ok(sample={"stage": st, "sibling": fid.split("::")[-1], "class": s.klass})
                else:
                    r.violate("R5d|%s|name-only stage: %s(%s) vs %s(%s)" % (fid, a[0], a[1], b[0], b[1]),
                              "%s takes %s%s among the definitions of an imported / unresolved name, navigation takes %s%s" % (
                                  fid.split("::")[-1], a[0], (" by " + a[1]) if a[1] else "", b[0], (" by " + b[1]) if b[1] else ""))
                continue
            if st not in ref or st in ("name-only", "other"):
                continue
            # the origin flags a stage tests must agree: a plugin stage that requires `is_plugin && !is_third_party` in one
            # resolver and `is_plugin` alone in the other ranks an installed plugin differently
            fa, fb = s.fields & ORIGIN_FLAGS, ref[st].fields & ORIGIN_FLAGS
            if st in ("plugin", "third-party") and fa != fb:
                r.violate("R5d|%s|%s stage tests %s vs %s" % (fid, st, "+".join(sorted(fa)) or "-", "+".join(sorted(fb)) or "-"),
                          "%s tests %s in its %s stage, navigation tests %s" % (fid.split("::")[-1], sorted(fa), st, sorted(fb)))
                continue
            key = "R5d|%s|%s stage: %s vs %s" % (fid, st, s.klass, ref[st].klass)
            if s.klass == ref[st].klass or st in ("plugin", "third-party", "conftest"):
                # within one plugin / conftest file the first match is what navigation takes too
                if s.klass == ref[st].klass:
                    r.ok(sample={"stage": st, "sibling": fid.split("::")[-1], "class": s.klass})
                else:
                    r.violate(key, "%s selects %s in the %s stage, navigation selects %s" % (fid, s.klass, st, ref[st].klass))
            else:
                r.violate(key, "%s takes the %s same-file definition (%s at %s) while navigation takes the %s (%s): a file that "
                               "redefines the name gets two different answers" % (
                                   fid.split("::")[-1], "first" if s.klass == "first-match" else s.klass, s.descr(),
                                   ctx.bin.span_str(s.span), "last by line" if ref[st].klass == "extremum" else ref[st].klass, ref[st].descr()))
    r.floor("sibling resolvers", len(sibs), 1)
    return r


# ------------------------------------------------------------------------------------------ R4c
def r4c_order_sensitive(ctx):
    r = Result("R4c", "an order-sensitive selection (first / find / next / early-exit loop / first-wins push) over the per-name "
                      "definition vector -- whose element order is the order in which files happened to be analysed -- has a "
                      "predicate that pins one file (`file_path ==` a path fixed before the scan of the vector); max/min-by-key "
                      "selections are order independent")
    sites = [s for s in _def_sites(ctx)]
    keys = _disambiguate(sites)
    n = 0
    for s in sites:
        if s.klass == "extremum":
            r.ok(sample={"site": s.descr(), "fn": s.fn.id.split("::")[-1], "order": "independent (extremum by %s)" % s.key_field})
            continue
        if s.kind == "push" and not s.dedup:
            continue  # every matching element is collected: nothing is selected (the order of the result is R4a's business)
        n += 1
        key = "R4c|%s" % keys[id(s)]
        # any equality test of the element's file_path against a value that is not computed from the element itself
        pins = [c for c in s.path_cmp if c not in ("other", "elem-field:both")]
        if s.kind == "call" and s.fields == {"name"} and _selects_from_per_file_view(ctx, s):
            # the per-file view holds one definition per name (R11c): selecting by name from it picks that one, in any order
            r.ok(sample={"site": s.descr(), "fn": s.fn.id.split("::")[-1], "unique_by": "one entry per name in the per-file view"} if len(r.samples) < 6 else None)
            continue
        if pins and "file_path" in s.fields:
            r.ok(sample={"site": s.descr(), "fn": s.fn.id.split("::")[-1], "pinned_to": sorted(set(pins))} if len(r.samples) < 6 else None)
        elif key in REVIEWED:
            r.review(key, REVIEWED[key])
        else:
            r.violate(key, "order-sensitive selection `%s` in %s at %s is not pinned to one file: with two candidates the answer "
                           "depends on which file was analysed first" % (s.descr(), s.fn.id, ctx.bin.span_str(s.span)),
                      aliases=_alts("R4c", s))
    r.floor("order-sensitive selection sites", n, 15)
    return r


def _selects_from_per_file_view(ctx, s):
    """the collection of a selection site is the result of the function that fills the per-file availability cache"""
    from ..facts import DbInfo
    from .r3d import fill_functions
    from .r4 import _iter_source_local
    db = ctx.memo("dbinfo", lambda: DbInfo(ctx))
    views = {fid for m, fid in fill_functions(db).items() if "std::vec::Vec<%s>" % sel.DEF in db.maps[m][1]}
    if not views:
        return False
    f = s.fn
    t = f.blocks[s.bb]["t"]
    if t[0] != "call" or not t[1]["args"]:
        return False
    src = _iter_source_local(f, t[1]["args"][0])
    seen = set()
    while src is not None and src not in seen:
        seen.add(src)
        ds = f.whole_defs(src)
        if len(ds) != 1:
            return False
        d = ds[0]
        if d[0] == "call":
            if d[2].get("res") in views:
                return True
            if re.search(r"Deref(Mut)?>?::deref(_mut)?$|::as_ref$|::clone$|::as_slice$|::iter$", d[2].get("res") or "") and d[2]["args"]:
                src = op_local(d[2]["args"][0])
                continue
            return False
        if d[0] == "assign" and d[3][0] == "use":
            src = op_local(d[3][1])
        elif d[0] == "assign" and d[3][0] == "ref":
            src = place_local(d[3][2])
        else:
            return False
    return False


def r5e_same_file_last(ctx):
    r = Result("R5e", "the same-file stage of the navigation cascade takes the maximum by `line` (pytest binds the last "
                      "definition of a name redefined in one file)")
    core = resolver_core(ctx)
    if core is None:
        r.anchor_missing("resolver core", "not found")
        return r
    sf = [s for s in _def_sites(ctx) if s.owner == core.id and stage_of(s) == "same-file"]
    if len(sf) != 1:
        r.anchor_missing("same-file stage", "found %d selection sites pinned to the request path" % len(sf))
        return r
    sf = sf[0]
    if sf.selector in ("max_by_key", "max_by") and (sf.key_field or "") == "line":
        r.ok(sample={"same_file_stage": "max_by_key(line)", "at": ctx.bin.span_str(sf.span)})
    else:
        r.violate("R5e|%s|same-file stage is %s(%s)" % (core.id, sf.selector, sf.key_field),
                  "same-file stage selects with %s(%s) instead of the maximum by line" % (sf.selector, sf.key_field))
    return r


# ------------------------------------------------------------------------------------------ R5f: bounds of the conftest walk
def r5f_walk_bounds(ctx):
    """the upward conftest walks (natural loops that step a directory to its parent() and join "conftest.py") leave through
    the end of the path only"""
    from .r1e import natural_loops, _skip_goto
    from ..core import op_str
    r = Result("R5f", "every upward conftest walk (a loop that replaces a directory by its parent() and looks at "
                      "<dir>/conftest.py) ends only where the path ends: the only exits that fall out of the loop into the code "
                      "after it are the None outcome of parent(); an additional `break` (e.g. at the workspace root) bounds the "
                      "walk in one resolver and not in its siblings")
    crate = ctx.bin
    n = 0
    for f in crate.real_fns():
        if f.kind not in ("fn", "method", "closure"):
            continue
        if not any(re.search(r"path::Path::parent$", c.get("res") or "") for _b, c in f.calls()):
            continue
        for h, latches, body in natural_loops(f):
            parents = [(b, f.blocks[b]["t"][1]) for b in body if f.blocks[b]["t"][0] == "call"
                       and re.search(r"path::Path::parent$", f.blocks[b]["t"][1].get("res") or "")]
            if not parents:
                continue
            joins = [b for b in body if f.blocks[b]["t"][0] == "call" and re.search(r"path::Path::join$", f.blocks[b]["t"][1].get("res") or "")
                     and any(_lit_of(f, a) == "conftest.py" for a in f.blocks[b]["t"][1]["args"][1:])]
            if not joins:
                continue
            # innermost loop containing the parent() call only
            if any(set(b2) < body and any(pb in b2 for pb, _ in parents) for _h2, _l2, b2 in natural_loops(f) if b2 != body):
                continue
            n += 1
            # Option locals holding the parent() result (through moves)
            opts = {place_local(c["dest"]) for _b, c in parents}
            for _ in range(4):
                for bb, si, pl, rv, sp in f.assigns():
                    if isinstance(pl, int) and rv[0] == "use" and op_local(rv[1]) in opts and not place_projs(op_place(rv[1])):
                        opts.add(pl)
            # exit edges
            fall = None
            exits = []
            for b in sorted(body):
                t = f.blocks[b]["t"]
                succs = f.succs(b)
                for s2 in succs:
                    if s2 in body or f.blocks[s2]["t"][0] == "unreachable":
                        continue
                    kind = "other"
                    if t[0] == "switch":
                        for st in f.blocks[b]["s"]:
                            if st[0] == "=" and st[2][0] == "discr" and place_local(st[2][1]) in opts and op_local(t[1]) == place_local(st[1]):
                                kind = "parent-none"
                    exits.append((b, s2, kind))
            pn = [e for e in exits if e[2] == "parent-none"]
            key = "R5f|%s" % f.id
            # the walk starts in the requesting file's own directory: every value the walk variable holds before the first
            # iteration is ONE parent() step away from what it is computed from (a second step -- `parent().and_then(Path::parent)`
            # for a conftest.py "whose own directory is already covered" -- skips the conftest's own imports)
            starts = []
            # walk variables: the Option results themselves, and the locals that receive their Some payload inside the loop
            wvars = set(opts)
            for _ in range(5):
                for bb2, si, pl, rv, sp in f.assigns():
                    tgt = place_local(pl)
                    src = place_local(op_place(rv[1])) if rv[0] == "use" and op_place(rv[1]) is not None else \
                        place_local(rv[2]) if rv[0] == "ref" and all(e == "*" for e in place_projs(rv[2])) else None
                    if bb2 in body and tgt is not None and not (place_projs(pl) if not isinstance(pl, int) else []) \
                            and src in wvars and tgt not in wvars:
                        wvars.add(tgt)
            for ol in sorted(wvars):
                for d in f.whole_defs(ol):
                    dbb = d[1]
                    if dbb in body:
                        continue
                    if d[0] == "assign" and d[3][0] == "use" and op_local(d[3][1]) in wvars:
                        continue  # a move between walk variables
                    starts.append(_parent_steps(f, d))
            if starts and any(k != 1 for k in starts):
                r.violate(key + "|walk-start", "the conftest walk in %s starts %s parent() steps above the requesting file on some path "
                                               "(expected exactly 1: the file's own directory)" % (f.id, sorted(set(starts))))
                continue
            if not pn:
                r.violate(key + "|no-end-of-path-exit", "the conftest walk in %s has no exit on the None outcome of parent()" % f.id)
                continue
            fall = {_skip_trivial(f, e[1]) for e in pn}
            extra = []
            for b, s2, kind in exits:
                if kind == "parent-none":
                    continue
                # a way out that ends up in the code after the loop (directly, or after a log line / a clean-up): a `break`.
                # A `return` from inside the loop never gets there.
                if _skip_trivial(f, s2) in fall or any(_reach(f, s2, fb, body) for fb in fall):
                    extra.append(crate.span_str(_span_of_block(f, b)))
            if extra:
                r.violate(key + "|extra-break", "the conftest walk in %s can also be left at %s into the code after the loop: the walk is "
                                                "bounded by something else than the end of the path" % (f.id, sorted(set(extra))[:3]))
            else:
                r.ok(sample={"walk_in": f.id, "exits": len(exits), "end_of_path_exits": len(pn)})
    r.floor("conftest walks", n, 2)
    return r


def _reach(f, a, b, avoid):
    seen, st = {a}, [a]
    while st:
        x = st.pop()
        if x == b:
            return True
        for s2 in f.succs(x):
            if s2 not in seen and s2 not in avoid:
                seen.add(s2)
                st.append(s2)
    return False


def _parent_steps(f, d, limit=60):
    """number of Path::parent applications (calls, or the function handed to and_then / map) in the backward slice of a def"""
    from ..core import op_const
    cnt = 0
    seen = set()
    st = []

    def from_call(c):
        nonlocal cnt
        if re.search(r"path::Path::parent$", c.get("res") or ""):
            cnt += 1
        for a in c["args"]:
            k = op_const(a) if isinstance(a, list) else None
            if k and re.search(r"path::Path::parent$", k.get("res") or ""):
                cnt += 1
            st.append(op_local(a))
    if d[0] == "call":
        from_call(d[2])
    elif d[0] == "assign":
        rv = d[3]
        st += [op_local(rv[1])] if rv[0] == "use" else [place_local(rv[2])] if rv[0] == "ref" else [op_local(o) for o in rv[2]] if rv[0] == "agg" else []
    while st and len(seen) < limit:
        l = st.pop()
        if l is None or l in seen:
            continue
        seen.add(l)
        for d2 in f.whole_defs(l):
            if d2[0] == "call":
                from_call(d2[2])
            elif d2[0] == "assign":
                rv = d2[3]
                st += [op_local(rv[1])] if rv[0] == "use" else [place_local(rv[2])] if rv[0] == "ref" else [op_local(o) for o in rv[2]] if rv[0] == "agg" else []
    return cnt


def _lit_of(f, op):
    from ..core import op_str
    s = op_str(op)
    if s is not None:
        return s
    l = op_local(op)
    if l is None:
        return None
    for d in f.whole_defs(l):
        if d[0] == "assign" and d[3][0] == "use":
            s = op_str(d[3][1])
            if s is not None:
                return s
        if d[0] == "call" and d[2]["args"]:
            s = op_str(d[2]["args"][0])
            if s is not None:
                return s
    return None


def _skip_trivial(f, b, limit=12):
    """the first block after b that does something: goto / drop / storage-only blocks are skipped (normal successor)"""
    while limit:
        t = f.blocks[b]["t"]
        if t[0] == "goto":
            b = t[1]
        elif t[0] == "drop":
            b = f.succs(b)[0]
        else:
            break
        limit -= 1
    return b


def _reaches_plain(f, a, b):
    seen, st = {a}, [a]
    while st:
        x = st.pop()
        if x == b:
            return True
        for s in f.succs(x):
            if s not in seen:
                seen.add(s)
                st.append(s)
    return False


def _span_of_block(f, b):
    t = f.blocks[b]["t"]
    if t[0] == "call":
        return t[1]["span"]
    for st in reversed(f.blocks[b]["s"]):
        if st[0] == "=":
            return st[3]
    return [0, f.line, 0, f.line, ""]


# ------------------------------------------------------------------------------------------ R5g: who attributes usages
def r5g_usage_attribution(ctx):
    r = Result("R5g", "a function that reads the usage index (`usages` / `usage_by_fixture`) and attributes usages to definitions "
                      "resolves them through the navigation cascade (the core resolver and its wrappers, checked by R5c), never "
                      "through a sibling resolver with selection rules of its own: a second attribution (code lens, a counter) that "
                      "uses another resolver disagrees with find-references on self-referencing overrides and redefined names")
    from ..facts import DbInfo
    db = ctx.memo("dbinfo", lambda: DbInfo(ctx))
    crate = ctx.bin
    core, non_ex, ex = wrappers(ctx)
    if core is None:
        r.anchor_missing("resolver core", "not found by role")
        return r
    own_sites = defaultdict(int)
    for s in _def_sites(ctx):
        if "line" in s.fields and s.klass != "extremum":
            continue  # a lookup by position (file, line) identifies a definition, it does not resolve a name
        own_sites[s.fn.root] += 1
    # functions resolving through the cascade: the core, its wrappers and everything that calls them
    via_core = {core.id, non_ex, ex}
    changed = True
    while changed:
        changed = False
        for f in crate.real_fns():
            if f.root in via_core:
                continue
            if any(c.get("res") in via_core for _b, c in f.calls()):
                via_core.add(f.root)
                changed = True
    readers = set()
    for m in db.maps_where(lambda k, v: "FixtureUsage" in v):
        for op in db.ops_by_map.get(m, []):
            if op.mode == "S":
                readers.add(op.fn.root)
    # functions that read the per-name definition map themselves (`definitions.get(name)` and a pattern / index on the vector
    # is a selection too, even without a selector call); lookups by position are not resolvers
    def_map_readers = set()
    for m in db.maps_where(lambda k, v: k == "std::string::String" and sel.DEF in v and not v.startswith("(")):
        for op in db.ops_by_map.get(m, []):
            if op.mode == "S" and op.method in ("get", "iter"):
                def_map_readers.add(op.fn.root)
    positional_roots = {s.fn.root for s in _def_sites(ctx) if "line" in s.fields}
    n = 0
    for root in sorted(readers):
        fam = [g for g in crate.real_fns() if g.root == root]
        for g in fam:
            for bb, c in g.calls():
                res = c.get("res")
                tf = crate.fns.get(res) if c.get("res_local") else None
                if tf is None or tf.root == root or "FixtureDefinition" not in tf.ret or "Option" not in tf.ret:
                    continue
                n += 1
                key = "R5g|%s|%s" % (root, res.split("::")[-1])
                picks_itself = own_sites.get(tf.root, 0) > 0 or (tf.root in def_map_readers and tf.root not in positional_roots)
                if tf.root in via_core or not picks_itself:
                    r.ok(sample={"reader": root.split("::")[-1], "resolves_through": res.split("::")[-1]})
                else:
                    r.violate(key, "%s reads the usage index and attributes usages with %s, which picks a definition out of the "
                                   "per-name map by itself (%d selection site(s)) outside the navigation cascade" % (root, res, own_sites.get(tf.root, 0)))
    r.counts["usage_index_readers"] = len(readers)
    r.floor("functions reading the usage index", len(readers), 3)
    return r


# ------------------------------------------------------------------------------------------ R5h: usage under the cursor first
def r5h_usage_before_definition_line(ctx):
    r = Result("R5h", "in a cursor-driven function (one that reads Position.character or takes a `character` column) a definition "
                      "looked up by line (a positional lookup: its selection tests `line`) is consulted only after the resolution "
                      "of the usage under the cursor came back empty (the call is dominated by the None edge of an "
                      "Option<FixtureDefinition>), except inside the usage resolver itself (which uses it for the self-reference "
                      "exclusion, R5c): on `def f(f):` the line holds a definition AND a usage, and the cursor column decides")
    crate = ctx.bin
    core, non_ex, ex = wrappers(ctx)
    if core is None:
        r.anchor_missing("resolver core", "not found by role")
        return r
    positional = set()
    by_root = defaultdict(list)
    for s in _def_sites(ctx):
        by_root[s.fn.root].append(s)
    for root, ss in by_root.items():
        f = crate.fns.get(root)
        if f is not None and "Option" in f.ret and "FixtureDefinition" in f.ret and all("line" in s.fields for s in ss) \
                and not any(s.klass == "extremum" for s in ss):
            # a pure lookup: it does not itself call another function that produces a definition
            fam0 = [g for g in crate.real_fns() if g.root == root]
            if not any(c.get("res_local") and c.get("res") in crate.fns and crate.fns[c["res"]].root != root
                       and "FixtureDefinition" in crate.fns[c["res"]].ret and "Option" in crate.fns[c["res"]].ret
                       for g in fam0 for _b, c in g.calls()):
                positional.add(root)
    r.counts["positional_lookups"] = ",".join(sorted(x.split("::")[-1] for x in positional))
    n = 0
    roots = defaultdict(list)
    for f in crate.real_fns():
        roots[f.root].append(f)
    for root, fam in sorted(roots.items()):
        cursor = False
        for g in fam:
            if any(g.local_ty(i) == "u32" and (g.local_name(i) or "") in ("character", "col", "column") for i in range(1, g.argc + 1)):
                cursor = True
            for bb, si, pl, rv, sp in g.assigns():
                for p in sel._rv_places(rv):
                    if p is not None and any(o.endswith("::Position") and nm == "character" for o, nm in proj_fields(place_projs(p))):
                        cursor = True
        if not cursor or root in positional:
            continue
        if any(c.get("res") == ex for g in fam for _b, c in g.calls()):
            continue  # the usage resolver proper
        for g in fam:
            dom = None
            for bb, c in g.calls():
                if c.get("res") not in positional:
                    continue
                n += 1
                dom = dom or g.dominators()
                key = "R5h|%s|%s" % (root, c["res"].split("::")[-1])
                if g.kind in ("fn", "method", "coroutine") and _on_none_edge(g, bb, dom):
                    r.ok(sample={"in": root.split("::")[-1], "positional_lookup": c["res"].split("::")[-1], "after": "usage resolution returned None"})
                else:
                    r.violate(key, "%s consults %s at %s before (or instead of) resolving the usage under the cursor: on a line like "
                                   "`def f(f):` the parameter resolves to the overriding fixture itself" % (
                                       root, c["res"].split("::")[-1], crate.span_str(c["span"])))
    r.floor("positional lookups", len(positional), 1)
    r.floor("positional lookups in cursor-driven functions", n, 1)
    return r


# ------------------------------------------------------------------------------------------ R5i: per-document answers are pinned
def _slice_fields(f, op, depth=0, seen=None):
    """(owner, field) projections read in the backward slice of an operand inside f (through call arguments)"""
    seen = seen if seen is not None else set()
    out = set()
    p = op_place(op)
    if p is None:
        return out
    out |= set(proj_fields(place_projs(p)))
    l = place_local(p)
    if l in seen or depth > 20:
        return out
    seen.add(l)
    for d in f.defs().get(l, []):
        if d[0] == "call":
            for a in d[2]["args"]:
                out |= _slice_fields(f, a, depth + 1, seen)
        elif d[0] == "assign":
            rv = d[3]
            ops = [rv[1]] if rv[0] == "use" else [["cp", rv[2]]] if rv[0] == "ref" else rv[2] if rv[0] == "agg" else [rv[2]] if rv[0] == "cast" \
                else [rv[2], rv[3]] if rv[0] == "bin" else []
            for o in ops:
                if isinstance(o, list):
                    out |= _slice_fields(f, o, depth + 1, seen)
    return out


URILESS_ITEMS = ("DocumentSymbol", "CodeLens", "InlayHint", "DocumentHighlight", "FoldingRange", "SelectionRange")


def r5i_per_document_items_pinned(ctx):
    r = Result("R5i", "a protocol item that carries positions but no uri (DocumentSymbol, CodeLens, InlayHint, DocumentHighlight, "
                      "FoldingRange: they are interpreted in the requested document) is built from a FixtureDefinition only under a "
                      "comparison of that definition's file_path (the construction is dominated by the comparison): the name-keyed "
                      "definition map holds the definitions of every file, an unpinned item places another file's fixture at a "
                      "position of this document")
    from ..facts import DbInfo
    db = ctx.memo("dbinfo", lambda: DbInfo(ctx))
    crate = ctx.bin
    n = 0
    POS = {"line", "end_line", "start_char", "end_char"}
    for f in crate.real_fns():
        aggs = [(bb, rv, sp) for bb, si, pl, rv, sp in f.assigns()
                if rv[0] == "agg" and rv[1][0] == "adt" and rv[1][1].split("::")[-1] in URILESS_ITEMS]
        if not aggs:
            continue
        dom = f.dominators()
        pins = []
        for bb, c in f.calls():
            if c.get("fn") in ("std::cmp::PartialEq::eq", "std::cmp::PartialEq::ne"):
                for a in c["args"]:
                    terms = db.origins.of_operand(f, a)
                    if any(len(t) > 3 and isinstance(t[3], tuple) and any(o == sel.DEF and nm == "file_path" for o, nm in t[3]) for t in terms) \
                            or _is_field(f, a, sel.DEF, "file_path"):
                        pins.append(bb)
        for bb, rv, sp in aggs:
            from_def = False
            for o in rv[2]:
                if any(ow == sel.DEF and nm in POS for ow, nm in _slice_fields(f, o)):
                    from_def = True
            if not from_def:
                continue
            n += 1
            item = rv[1][1].split("::")[-1]
            key = "R5i|%s|%s" % (f.root, item)
            if any(pb in dom.get(bb, set()) for pb in pins):
                r.ok(sample={"item": item, "in": f.root.split("::")[-1], "pinned_by": "file_path comparison"})
            else:
                r.violate(key, "%s builds a %s at %s from a FixtureDefinition without comparing its file_path: definitions of other "
                               "files are reported at positions of the requested document" % (f.root.split("::")[-1], item, crate.span_str(sp)))
    r.floor("uri-less items built from definitions", n, 1)
    # items that DO carry a uri: a search among already built items (to merge / de-duplicate) reads the uri
    m = 0
    for f in crate.real_fns():
        for bb, c in f.calls():
            meth = (c.get("fn") or "").rsplit("::", 1)[-1]
            if meth not in ("find", "position", "any", "rposition", "find_map", "retain", "dedup_by", "dedup_by_key", "contains"):
                continue
            for cid, loc in c.get("clos", []):
                cf = crate.fns.get(cid)
                if cf is None:
                    continue
                owners = defaultdict(set)
                for g in [cf] + [x for x in crate.real_fns() if x.root == cf.root and x.id.startswith(cf.id + "::")]:
                    for b in g.blocks:
                        places = []
                        for st in b["s"]:
                            if st[0] == "=":
                                places += [pl for pl in sel._rv_places(st[2]) if pl is not None]
                        if b["t"][0] == "call":
                            places += [op_place(a) for a in b["t"][1]["args"] if op_place(a) is not None]
                        for pl in places:
                            for o, nm in proj_fields(place_projs(pl)):
                                owners[o].add(nm)
                lsp = {o: fs for o, fs in owners.items() if o.split("::")[-1] in URI_ITEMS}
                if not lsp:
                    continue
                m += 1
                reads_uri = any("uri" in fs for fs in lsp.values())
                key = "R5i|%s|%s over %s without uri" % (f.root, meth, "+".join(sorted(o.split("::")[-1] for o in lsp)))
                if reads_uri:
                    r.ok()
                else:
                    r.violate(key, "%s searches built %s items by %s at %s without reading their uri: items of different "
                                   "documents that agree on the compared fields are merged, and positions of one document are "
                                   "reported under another" % (f.root.split("::")[-1], "/".join(sorted(o.split("::")[-1] for o in lsp)),
                                                               sorted(set().union(*lsp.values())), crate.span_str(c["span"])))
    r.counts["searches_over_uri_items"] = m
    return r


URI_ITEMS = {"CallHierarchyItem", "Location", "LocationLink", "SymbolInformation", "CallHierarchyIncomingCall", "CallHierarchyOutgoingCall",
             "TextDocumentIdentifier", "WorkspaceSymbol"}


# ------------------------------------------------------------------------------------------ R5j: records are compared whole
def _def_field_of(f, op, depth=0):
    """name of the FixtureDefinition field an operand reads (directly, or through refs / copies made in f)"""
    p = op_place(op)
    if p is None or depth > 6:
        return None
    for o, n in proj_fields(place_projs(p)):
        if o == sel.DEF:
            return n
    l = place_local(p)
    for d in f.whole_defs(l):
        if d[0] == "assign" and d[3][0] == "ref":
            x = _def_field_of(f, ["cp", d[3][2]], depth + 1)
            if x:
                return x
        if d[0] == "assign" and d[3][0] == "use":
            x = _def_field_of(f, d[3][1], depth + 1)
            if x:
                return x
    return None


def _fields_read(f, owner):
    out = set()

    def place(p):
        if isinstance(p, list) and len(p) == 2 and isinstance(p[1], list):
            for o, n in proj_fields(p[1]):
                if o == owner:
                    out.add(n)

    def operand(o):
        p = op_place(o)
        if p is not None:
            place(p)
    for _bb, _si, _pl, rv, _sp in f.assigns():
        if rv[0] == "ref":
            place(rv[2])
        elif rv[0] in ("use", "cast", "un"):
            operand(rv[-1] if rv[0] != "use" else rv[1])
        elif rv[0] == "bin":
            operand(rv[2])
            operand(rv[3])
        elif rv[0] == "agg":
            for o in rv[2]:
                operand(o)
    for _bb, c in f.calls():
        for a in c["args"]:
            operand(a)
    return out


def r5j_record_identity(ctx):
    r = Result("R5j", "two FixtureDefinition records are the same definition only if they are equal as whole records: (i) the "
                      "type's PartialEq reads every field of the struct (the derived comparison); (ii) a function that reads the "
                      "usage index and attributes usages through the cascade never matches the resolved definition against its "
                      "target by comparing a subset of fields pairwise -- with two definitions of one name in one file "
                      "(name, file) does not identify the one go-to-definition lands on")
    from ..facts import DbInfo
    db = ctx.memo("dbinfo", lambda: DbInfo(ctx))
    crate = ctx.bin
    adt = crate.adts.get(sel.DEF)
    eq = crate.fns.get("<%s as std::cmp::PartialEq>::eq" % sel.DEF)
    if adt is None or eq is None:
        r.anchor_missing("record equality", "no PartialEq implementation for %s in the crate" % sel.DEF)
        return r
    fields = [x["name"] for x in adt["variants"][0]["fields"]]
    read = _fields_read(eq, sel.DEF)
    missing = [x for x in fields if x not in read]
    if missing:
        r.violate("R5j|eq|ignores-fields", "PartialEq for %s does not compare %s: the exclusion of the current definition (`def != "
                                           "excluded`) and the attribution of usages (`resolved == *definition`) merge distinct "
                                           "definitions that agree on the compared fields" % (sel.DEF.split("::")[-1], missing[:6]),
                  n=len(fields))
    else:
        r.ok(len(fields), sample={"eq_reads_fields": len(fields)})
    r.floor("fields of the definition record", len(fields), 5)
    readers = set()
    for m in db.maps_where(lambda k, v: "FixtureUsage" in v):
        for op in db.ops_by_map.get(m, []):
            if op.mode == "S":
                readers.add(op.fn.root)
    n = 0
    for root in sorted(readers):
        for g in [g for g in crate.real_fns() if g.root == root]:
            pairs = []
            for bb, c in g.calls():
                if c.get("fn") in ("std::cmp::PartialEq::eq", "std::cmp::PartialEq::ne") and len(c["args"]) == 2:
                    a, b = _def_field_of(g, c["args"][0]), _def_field_of(g, c["args"][1])
                    if a and a == b:
                        pairs.append(a)
                    elif a is None and b is None and any(sel.DEF in t for t in c.get("targs", [])[:1]):
                        n += 1
                        r.ok(sample={"whole_record_comparison_in": g.id.split("::")[-1]} if len(r.samples) < 4 else None)
            for _bb, _si, _pl, rv, _sp in g.assigns():
                if rv[0] == "bin" and rv[1] in ("Eq", "Ne"):
                    a, b = _def_field_of(g, rv[2]), _def_field_of(g, rv[3])
                    if a and a == b:
                        pairs.append(a)
            if pairs:
                r.violate("R5j|%s|subset:%s" % (g.id, "+".join(sorted(set(pairs)))),
                          "%s matches two definition records by comparing only %s" % (g.id, sorted(set(pairs))))
    r.floor("whole-record comparisons in usage attribution", n, 1)
    return r


# ------------------------------------------------------------------------------------------ R5k: one source of truth
def _ret_sources(f, depth_limit=12):
    """defs that produce the returned value, through plain copies / moves of whole locals"""
    out = []
    seen = set()

    def walk(l, depth):
        if l in seen or depth > depth_limit:
            return
        seen.add(l)
        for d in f.whole_defs(l):
            if d[0] == "assign" and d[3][0] == "use" and op_local(d[3][1]) is not None and not place_projs(op_place(d[3][1])):
                walk(op_local(d[3][1]), depth + 1)
            else:
                out.append(d)
    walk(0, 0)
    return out


def _plain_root(f, op, depth=0):
    """the local an operand denotes through plain copies, reborrows and derefs (no calls)"""
    l = op_local(op)
    if l is None or depth > 10:
        return None
    p = op_place(op)
    if p is not None and [e for e in place_projs(p) if e != "*"]:
        return None
    ds = f.whole_defs(l)
    if len(ds) == 1 and ds[0][0] == "assign":
        rv = ds[0][3]
        if rv[0] == "use" and op_place(rv[1]) is not None:
            return _plain_root(f, rv[1], depth + 1)
        if rv[0] == "ref":
            return _plain_root(f, ["cp", rv[2]], depth + 1)
    return l


def r5k_single_source(ctx):
    r = Result("R5k", "(i) an entry point of the navigation cascade (a function that calls the resolver core with a filter closure "
                      "and has the core's result type) returns exactly what the core returns: no second source (a cached list, a "
                      "sibling's result) on any path -- a second source has tie-breaks of its own (first vs last definition in a "
                      "file) and answers differently depending on which request came first. (ii) a bool predicate over the import "
                      "closure of a file (it calls the memoised import computation, by role: returns a set of names and threads "
                      "a visited set of paths) returns exactly a `contains` on that computation's result: a fast path through "
                      "another index (the recorded import names) over-approximates and makes navigation disagree with the "
                      "per-file view")
    crate = ctx.bin
    core = resolver_core(ctx)
    n = 0
    if core is None:
        r.anchor_missing("resolver core", "not found by role")
    else:
        for f in crate.real_fns():
            if f.kind not in ("fn", "method") or f.ret != core.ret or f.id == core.id:
                continue
            sites = [(bb, c) for bb, c in f.calls() if c.get("res") == core.id and c.get("clos")]
            if not sites:
                continue
            n += 1
            dests = {place_local(c["dest"]) for _bb, c in sites}
            other = []
            for d in _ret_sources(f):
                if d[0] == "call" and place_local(d[2]["dest"]) in dests | {0} and d[2].get("res") == core.id:
                    continue
                if d[0] == "assign" and d[3][0] == "agg" and not d[3][2]:
                    continue  # None
                other.append(d)
            key = "R5k|%s|second source" % f.id
            # the requesting file and the name go to the core unchanged: the path / str arguments of the core call are the
            # entry point's own parameters (a directory computed from the excluded definition starts the walk elsewhere)
            moved = []
            for _bb, c in sites:
                for i, a in enumerate(c["args"]):
                    ty = core.local_ty(i + 1) if i + 1 <= core.argc else ""
                    if not re.search(r"std::path::Path\b|^&str$", ty):
                        continue
                    rl = _plain_root(f, a)
                    if rl is None or not (1 <= rl <= f.argc):
                        moved.append("%s (arg %d)" % (ty, i))
            if other:
                what = other[0][2].get("res") if other[0][0] == "call" else other[0][3][0] if other[0][0] == "assign" else other[0][0]
                r.violate(key, "%s returns a definition that does not come from the resolver core on some path (%s)" % (f.id, what))
            elif moved:
                r.violate("R5k|%s|argument not passed through" % f.id, "%s hands the resolver core a %s that is not its own parameter: "
                          "the cascade starts from another file / name than the request's" % (f.id, moved[0]))
            else:
                r.ok(sample={"entry_point": f.id.split("::")[-1]})
        r.floor("entry points of the cascade", n, 2)
    # (ii)
    comp = set()
    for f in crate.real_fns():
        if f.kind in ("fn", "method") and "HashSet<std::string::String>" in f.ret and \
                any("HashSet<std::path::PathBuf>" in f.local_ty(i) and f.local_ty(i).startswith("&mut") for i in range(1, f.argc + 1)):
            comp.add(f.id)
    r.counts["import_closure_computations"] = len(comp)
    m = 0
    for f in crate.real_fns():
        if f.kind not in ("fn", "method") or f.ret != "bool" or f.id in comp:
            continue
        sites = [(bb, c) for bb, c in f.calls() if c.get("res") in comp]
        if not sites:
            continue
        m += 1
        other = []
        for d in _ret_sources(f):
            if d[0] == "call" and re.search(r"HashSet::<T, S>::contains$|::contains$", d[2].get("res") or ""):
                continue
            if d[0] == "assign" and d[3][0] == "use" and (op_const(d[3][1]) or {}).get("v") in ("0", "false", False, 0):
                continue  # `false`: under-approximation only where the closure is not available
            other.append(d)
        key = "R5k|%s|second source" % f.id
        if other:
            what = other[0][2].get("res") if other[0][0] == "call" else "%s" % (other[0][3][0],) if other[0][0] == "assign" else other[0][0]
            r.violate(key, "%s decides `imported` on some path without asking the import closure (%s)" % (f.id, what))
        else:
            r.ok(sample={"import_predicate": f.id.split("::")[-1]})
    r.floor("predicates over the import closure", m, 1)
    return r


# ------------------------------------------------------------------------------------------ R5m: an upward step advances
def r5m_upward_step_advances(ctx):
    r = Result("R5m", "inside a loop, a directory variable that is overwritten with the parent() of something is overwritten with the "
                      "parent of ITSELF: `for _ in 1..level { dir = base.parent()? }` steps from the loop-invariant `base` every "
                      "time, so three or more levels go up only one directory (relative imports with three dots, conftest "
                      "walks)")
    from .r1e import natural_loops, _root
    crate = ctx.bin
    n = 0
    for f in crate.real_fns():
        if not any(re.search(r"path::Path::parent$", c.get("res") or "") for _b, c in f.calls()):
            continue
        for h, latches, body in natural_loops(f):
            for b in sorted(body):
                t = f.blocks[b]["t"]
                if t[0] != "call" or not re.search(r"path::Path::parent$", t[1].get("res") or "") or not t[1]["args"]:
                    continue
                # innermost loop only
                if any(set(b2) < body and b in b2 for _h2, _l2, b2 in natural_loops(f) if b2 != body):
                    continue
                src = _root(f, t[1]["args"][0])
                if src is None:
                    continue
                # where does the payload go?  locals assigned inside the loop from the parent() result (through payloads,
                # to_path_buf, reborrows) that are also live across iterations (defined outside the loop too)
                res = {place_local(t[1]["dest"])}
                for _ in range(5):
                    for bb2, si, pl, rv, sp in f.assigns():
                        if bb2 not in body:
                            continue
                        s0 = place_local(op_place(rv[1])) if rv[0] == "use" and op_place(rv[1]) is not None else \
                            place_local(rv[2]) if rv[0] == "ref" else None
                        if s0 in res and place_local(pl) is not None:
                            res.add(place_local(pl))
                    for bb2, c2 in f.calls():
                        if bb2 in body and c2["args"] and op_local(c2["args"][0]) in res and \
                                re.search(r"to_path_buf$|to_owned$|Try>?::branch$|::clone$|::into$|Deref>?::deref$", c2.get("res") or c2.get("fn") or ""):
                            res.add(place_local(c2["dest"]))
                carried = [v for v in res if any(d[1] not in body for d in f.whole_defs(v)) and any(d[1] in body for d in f.whole_defs(v))]
                if not carried:
                    continue
                n += 1
                key = "R5m|%s|parent() of a loop-invariant value" % f.id
                src_defs_in_loop = any(d[1] in body for d in f.whole_defs(src) if d[0] != "arg")
                if src in carried or src_defs_in_loop or any(_root(f, ["cp", v]) == src for v in carried):
                    r.ok(sample={"loop_in": f.id.split("::")[-1], "steps_from": "the loop-carried directory"} if len(r.samples) < 4 else None)
                else:
                    r.violate(key, "%s overwrites `%s` in a loop with parent() of `%s`, which the loop never changes (at %s): every "
                                   "iteration yields the same directory" % (f.id, f.local_name(carried[0]) or "_", f.local_name(src) or "_",
                                                                           crate.span_str(t[1]["span"])))
    r.floor("upward steps inside loops", n, 2)
    return r
