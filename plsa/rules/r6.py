"""R6: visitor coverage over the Python AST (C03, C17)."""
import re
from collections import defaultdict

from ..check import Result
from ..core import place_local, place_projs, proj_fields, op_place, op_local
from ..reviewed import REVIEWED

AST = "rustpython_parser::rustpython_ast::"


def ast_adts(crate):
    return {p: a for p, a in crate.adts.items() if p.startswith(AST) or p.startswith("rustpython_ast::")}


def stmt_list_universe(crate):
    """(adt, field) for every field of an AST node that holds a list of statements"""
    out = []
    adts = ast_adts(crate)
    is_list = lambda ty: re.match(r"^std::vec::Vec<(rustpython_parser::)?rustpython_ast::Stmt(<.*>)?>$", ty)

    def holds_lists(tname, depth=0):
        """does AST node type `tname` (struct, or enum over payload structs) have a statement-list field?"""
        a = adts.get(tname)
        if a is None or depth > 2:
            return False
        for v in a["variants"]:
            for f in v["fields"]:
                if is_list(f["ty"]):
                    return True
                m = re.match(r"^((rustpython_parser::)?rustpython_ast::\w+)(<.*>)?$", f["ty"])
                if a["kind"] == "enum" and m and holds_lists(m.group(1), depth + 1):
                    return True
        return False
    for p, a in adts.items():
        if a["kind"] != "struct":
            continue
        for f in a["variants"][0]["fields"]:
            ty = f["ty"]
            if is_list(ty):
                out.append((p, f["name"]))
                continue
            # a list of sub-nodes that carry statement lists themselves (`Try.handlers`, `TryStar.handlers`, `Match.cases`):
            # the visitor must enter the container of each statement kind, reading `ExceptHandler.body` for `try` says
            # nothing about `try ... except*`
            m = re.match(r"^std::vec::Vec<((rustpython_parser::)?rustpython_ast::\w+)(<.*>)?>$", ty)
            if m and p.split("::")[-1].startswith("Stmt") and holds_lists(m.group(1)):
                out.append((p, f["name"]))
    return sorted(out)


SCOPE_NODES = ("StmtFunctionDef", "StmtAsyncFunctionDef", "StmtClassDef")
MODULE_NODES = ("ModModule", "ModInteractive", "ModExpression", "ModFunctionType")


def _scc_of(cg, fid):
    memo = getattr(cg, "_scc_index", None)
    if memo is None:
        memo = {}
        for comp in cg.sccs():
            for x in comp:
                memo[x] = comp
        cg._scc_index = memo
    return memo.get(fid, [fid])


def visitor_family(crate, f, cg=None, helpers=False):
    """the functions that together make up visitor `f`: closures defined in it, the members of its recursion cycle (a helper
    that calls back into it) and their closures; with helpers=True also the non-recursive local functions they call"""
    roots = {f.id}
    if cg is not None:
        roots |= set(_scc_of(cg, f.id))
    roots = {crate.fns[x].root if x in crate.fns else x for x in roots}
    fam = [g for g in crate.real_fns() if g.root in roots]
    if helpers and cg is not None:
        seen = {g.id for g in fam}
        frontier = list(fam)
        for _depth in range(3):
            nxt = []
            for g in frontier:
                for _bb, t, via in cg.callees(g.id):
                    tf = crate.fns.get(t)
                    if tf is None or t in seen or via == "spawn":
                        continue
                    if len(_scc_of(cg, t)) > 1 or t in {x for _b, x, _v in cg.callees(t)}:
                        continue        # another recursive visitor: its reads are its own
                    seen.add(t)
                    nxt.append(tf)
                    for h in crate.real_fns():
                        if h.root == t and h.id not in seen:
                            seen.add(h.id)
                            nxt.append(h)
            fam += nxt
            frontier = nxt
    return fam


def fields_touched(crate, f, include_closures=True, cg=None, helpers=False):
    """(owner adt, field) projections read anywhere in f (and closures defined in it; with a call graph, in its whole
    visitor family)"""
    out = set()
    fns = [f]
    if cg is not None:
        fns = visitor_family(crate, f, cg, helpers)
    elif include_closures:
        fns += [g for g in crate.real_fns() if g.root == f.id and g.id != f.id]
    for g in fns:
        for b in g.blocks:
            for s in b["s"]:
                if s[0] == "=":
                    _collect(s[1], out)
                    _collect_rv(s[2], out)
            t = b["t"]
            if t[0] == "call":
                for a in t[1]["args"]:
                    p = op_place(a)
                    if p is not None:
                        _collect(p, out)
            elif t[0] == "switch":
                p = op_place(t[1])
                if p is not None:
                    _collect(p, out)
    return out


def _collect(place, out):
    for o, n in proj_fields(place_projs(place)):
        out.add((o, n))


def _collect_rv(rv, out):
    k = rv[0]
    if k in ("use", "repeat"):
        p = op_place(rv[1])
        if p is not None:
            _collect(p, out)
    elif k == "ref":
        _collect(rv[2], out)
    elif k in ("rawptr", "discr"):
        _collect(rv[1], out)
    elif k == "cast":
        p = op_place(rv[2])
        if p is not None:
            _collect(p, out)
    elif k == "bin":
        for o in (rv[2], rv[3]):
            p = op_place(o)
            if p is not None:
                _collect(p, out)
    elif k == "un":
        p = op_place(rv[2])
        if p is not None:
            _collect(p, out)
    elif k == "agg":
        for o in rv[2]:
            p = op_place(o)
            if p is not None:
                _collect(p, out)


def variant_index(crate, adt, variant):
    a = crate.adts.get(adt)
    if not a:
        return None
    for v in a["variants"]:
        if v["name"] == variant:
            return v["index"]
    return None


def tests_yield(crate, f):
    """does f contain a switch over an Expr discriminant whose explicit arms are exactly Yield / YieldFrom?"""
    iy, iyf = variant_index(crate, AST + "Expr", "Yield"), variant_index(crate, AST + "Expr", "YieldFrom")
    if iy is None or iyf is None:
        return False
    for b in f.blocks:
        t = b["t"]
        if t[0] == "switch":
            vals = {v for v, _ in t[2]}
            if vals == {iy, iyf}:
                return True
    return False


def stmt_visitors(crate, cg):
    """self-recursive functions with a statement (list) parameter"""
    out = []
    for comp in cg.sccs():
        for fid in comp:
            f = crate.fns[fid]
            if f.kind not in ("method", "fn"):
                continue
            for i in range(1, f.argc + 1):
                ty = f.local_ty(i)
                if re.match(r"^&(\[)?(rustpython_parser::)?rustpython_ast::Stmt\]?$", ty):
                    out.append(f)
                    break
    return out


def _rep_order(f):
    """representative of a recursion cycle: the member taking a single statement, then by name"""
    single = any(re.match(r"^&(rustpython_parser::)?rustpython_ast::Stmt$", f.local_ty(i)) for i in range(1, f.argc + 1))
    return (0 if single else 1, f.id)


def yield_visitors(ctx):
    crate = ctx.bin
    cg = ctx.callgraph()
    res = []
    for f in stmt_visitors(crate, cg):
        fam = visitor_family(crate, f, cg)
        cands = list(fam)
        for g in fam:
            cands += [crate.fns[t] for _bb, t, via in cg.callees(g.id) if via == "direct" and t in crate.fns]
        if any(tests_yield(crate, g) for g in cands):
            res.append(f)
    # one visitor per recursion cycle (a helper that calls back into the visitor belongs to it)
    uniq = {}
    for f in sorted(res, key=_rep_order):
        uniq.setdefault(tuple(_scc_of(cg, f.id)), f)
    return list(uniq.values())


def descent(crate, f, universe, cg=None):
    touched = fields_touched(crate, f, cg=cg)
    return {u for u in universe if u in touched}


def _short(u):
    return "%s.%s" % (u[0].split("::")[-1], u[1])


def r6a_yield_siblings(ctx):
    r = Result("R6a", "the two visitors that look for `yield` (the one that records the yield line and the one that decides "
                      "generator status, hence the unwrapped return type) descend into the same statement-list fields")
    crate = ctx.bin
    uni = stmt_list_universe(crate)
    ys = yield_visitors(ctx)
    r.counts["yield_visitors"] = ",".join(f.id.split("::")[-1] for f in ys)
    if len(ys) != 2:
        r.anchor_missing("yield visitors", "expected 2 recursive statement visitors testing Expr::Yield|YieldFrom, found %d" % len(ys))
        return r
    a, b = sorted(ys, key=lambda f: f.id)
    da, db_ = descent(crate, a, uni, ctx.callgraph()), descent(crate, b, uni, ctx.callgraph())
    for u in sorted(da | db_):
        if u in da and u in db_:
            r.ok(sample={"both_descend": _short(u)})
        else:
            has, lacks = (a, b) if u in da else (b, a)
            r.violate("R6a|%s|lacks %s" % (lacks.id, _short(u)),
                      "%s descends into %s but its sibling %s does not: a yield there gets a %s" % (
                          has.id.split("::")[-1], _short(u), lacks.id.split("::")[-1],
                          "yield line but a non-unwrapped return type" if "contains" in lacks.id else "generator return type but no yield line"))
    r.floor("statement-list fields visited by a yield visitor", len(da | db_), 8)
    return r


def _visitor_by_role(ctx):
    """name -> Fn for the body visitors checked by R6b"""
    crate = ctx.bin
    cg = ctx.callgraph()
    out = {}
    for f in yield_visitors(ctx):
        out["yield:" + f.id.split("::")[-1]] = f
    # undeclared-fixture scan: statement visitors reachable from the function that records undeclared fixtures' caller
    from ..facts import DbInfo
    db = ctx.memo("dbinfo", lambda: DbInfo(ctx))
    um = db.maps_where(lambda k, v: "UndeclaredFixture" in v)
    writers = {op.fn.root for m_ in um for op in db.ops_by_map.get(m_, []) if op.method == "entry"}
    # the innermost statement visitor from which the code recording undeclared fixtures is reached
    svs = stmt_visitors(crate, cg)
    reach = {f.id: cg.reach([f.id]) for f in svs}
    reaching = [f for f in svs if reach[f.id] & writers]
    seen_scc = set()
    for f in sorted(reaching, key=_rep_order):
        scc = tuple(_scc_of(cg, f.id))
        if scc in seen_scc:
            continue
        inner = [g for g in reaching if g.id not in scc and g.id in reach[f.id]]
        if not inner:
            seen_scc.add(scc)
            out["undeclared-use:" + f.id.split("::")[-1]] = f
    # local-variable collector: statement visitor with a `&mut HashMap<String, usize>` parameter
    for f in stmt_visitors(crate, cg):
        if any(f.local_ty(i).startswith("&mut std::collections::HashMap<std::string::String, usize") for i in range(1, f.argc + 1)):
            out["locals:" + f.id.split("::")[-1]] = f
    return out


def r6b_yield(ctx):
    return r6b_exhaustive(ctx, roles=("yield:",), rule="R6b")


def r6b_body(ctx):
    return r6b_exhaustive(ctx, roles=("undeclared-use:", "locals:"), rule="R6b")


def r6b_exhaustive(ctx, roles=("yield:", "undeclared-use:", "locals:"), rule="R6b"):
    r = Result(rule, "each function-body visitor descends into every statement-list field of the AST (universe derived from "
                      "rustpython_ast's type definitions) except the bodies of scope-creating nodes (function / class definitions) "
                      "and module roots")
    crate = ctx.bin
    uni = [u for u in stmt_list_universe(crate)
           if u[0].split("::")[-1] not in SCOPE_NODES + MODULE_NODES]
    r.counts["universe"] = len(uni)
    vis = {k: v for k, v in _visitor_by_role(ctx).items() if k.startswith(tuple(roles))}
    r.counts["visitors"] = ",".join(sorted(vis))
    for role, f in sorted(vis.items()):
        d = descent(crate, f, uni, ctx.callgraph())
        for u in uni:
            key = "R6b|%s|lacks %s" % (f.id, _short(u))
            if u in d:
                r.ok(sample={"visitor": role, "descends": _short(u)} if len(r.samples) < 4 else None)
            elif key in REVIEWED:
                r.review(key, REVIEWED[key])
            else:
                r.violate(key, "%s never descends into %s: code nested there is invisible to it" % (f.id.split("::")[-1], _short(u)))
    # ... and does NOT descend into the bodies of nested function / class definitions: they are scopes of their own (a `yield`
    # there belongs to the nested generator; parameters and locals of a nested helper are not names of the enclosing function)
    scope = [u for u in stmt_list_universe(crate) if u[0].split("::")[-1] in SCOPE_NODES]
    for role, f in sorted(vis.items()):
        d = descent(crate, f, scope, ctx.callgraph())
        key = "R6b|%s|descends into a nested scope" % f.id
        if d:
            r.violate(key, "%s descends into %s: what it finds there belongs to the nested scope, not to the function it is "
                           "analysing" % (f.id.split("::")[-1], sorted(_short(u) for u in d)))
        else:
            r.ok()
    # ... and scans every statement list to its end: a `break` out of the loop over statements (after a `return` / `raise`, say)
    # hides the rest of the block.  Python decides "generator" / "local name" by what occurs in the body, reachable or not
    nl = 0
    for role, f in sorted(vis.items()):
        for g in [x for x in crate.real_fns() if x.root == f.root]:
            for why, where in _stmt_loops_left_early(crate, g):
                nl += 1
                key = "R6b|%s|statement loop left early" % f.id
                if why:
                    r.violate(key, "%s leaves its loop over a statement list before the end (%s at %s): statements after that "
                                   "point are not visited" % (f.id.split("::")[-1], why, where))
                else:
                    r.ok()
    r.counts["statement_list_loops"] = nl
    r.floor("statement-list universe", len(uni), 15)
    r.floor("body visitors", len(vis), 2)
    return r


def _stmt_loops_left_early(crate, g):
    """for every iterator loop over statements in g: (reason or None, where)"""
    from .r1e import natural_loops, _iterator_driven, _skip_goto
    from .r5 import _skip_trivial, _reach
    out = []
    for h, latches, body in natural_loops(g):
        if not _iterator_driven(g, h, body):
            continue
        hb = _skip_goto(g, h)
        ht = g.blocks[hb]["t"]
        if ht[0] != "call" or not (ht[1].get("res") or "").endswith("::next") or not ht[1]["args"]:
            continue
        it = op_local(ht[1]["args"][0])
        if it is None or not re.search(r"\bStmt\b", g.local_ty(it)):
            continue
        d = place_local(ht[1]["dest"])
        end = None
        others = []
        for b in sorted(body):
            t = g.blocks[b]["t"]
            for s2 in g.succs(b):
                if s2 in body:
                    continue
                is_end = False
                if t[0] == "switch" and op_local(t[1]) is not None:
                    for dd in g.whole_defs(op_local(t[1])):
                        if dd[0] == "assign" and dd[3][0] == "discr" and place_local(dd[3][1]) == d:
                            is_end = True
                if is_end and end is None:
                    end = s2
                else:
                    others.append((b, s2))
        if end is None:
            continue
        fall = _skip_empty(g, end)
        bad = None
        for b, s2 in others:
            if g.blocks[s2]["t"][0] in ("resume", "abort", "unreachable"):
                continue
            if g.blocks[fall]["t"][0] == "ret" and not any(st[0] == "=" and not _unit_const(st) for st in g.blocks[fall]["s"]):
                # nothing happens after the loop: a `return` from inside it is an early exit as well
                tgt = _skip_empty(g, s2)
                if tgt == fall:
                    bad = ("early return", crate.span_str(_blk_span(g, b)))
                continue
            if _skip_empty(g, s2) == fall or _reach(g, s2, fall, set(body)):
                bad = ("break", crate.span_str(_blk_span(g, b)))
        out.append((bad[0] if bad else None, bad[1] if bad else ""))
    return out


def _unit_const(st):
    rv = st[2]
    return rv[0] == "use" and isinstance(rv[1], list) and rv[1][0] == "c" and isinstance(rv[1][1], dict) and rv[1][1].get("t") == "()"


def _skip_empty(g, b, limit=16):
    """the first block after b that assigns, calls, branches or returns (storage markers, drops and gotos are skipped)"""
    while limit:
        blk = g.blocks[b]
        if any(st[0] == "=" and not _unit_const(st) for st in blk["s"]):
            break
        t = blk["t"]
        if t[0] == "goto":
            b = t[1]
        elif t[0] == "drop":
            b = g.succs(b)[0]
        else:
            break
        limit -= 1
    return b


def _blk_span(g, b):
    blk = g.blocks[b]
    for s in reversed(blk["s"]):
        if isinstance(s[-1], list) and len(s[-1]) == 5:
            return s[-1]
    t = blk["t"]
    if t[0] == "call":
        return t[1]["span"]
    return [0, 0, 0, 0, ""]


# name-binding fields (Python language reference, section 4.2.1 "Binding of names"), resolved against the AST types
BINDING_FIELDS = [
    ("StmtAssign", "targets"), ("StmtAnnAssign", "target"), ("StmtAugAssign", "target"),
    ("StmtFor", "target"), ("StmtAsyncFor", "target"), ("WithItem", "optional_vars"),
    ("StmtImport", "names"), ("StmtImportFrom", "names"),
    ("StmtFunctionDef", "name"), ("StmtAsyncFunctionDef", "name"), ("StmtClassDef", "name"),
    ("ExceptHandlerExceptHandler", "name"), ("ExprNamedExpr", "target"),
    # Comprehension.target is deliberately absent: comprehension variables live in the comprehension's own scope
    ("PatternMatchAs", "name"), ("PatternMatchStar", "name"), ("PatternMatchMapping", "rest"),
    ("StmtGlobal", "names"), ("StmtNonlocal", "names"),
]
ARG_FIELDS = ["posonlyargs", "args", "vararg", "kwonlyargs", "kwarg"]


def r6c_binding_forms(ctx):
    r = Result("R6c", "the local-variable collector (plus the module-level name collector for module scope) reads every "
                      "name-binding field of the AST, and the parameter enumerator reads all five name-carrying fields of "
                      "`Arguments`: a name bound by a form that is never read is treated as unbound and can be flagged")
    crate = ctx.bin
    vis = _visitor_by_role(ctx)
    loc = [f for role, f in vis.items() if role.startswith("locals:")]
    if len(loc) != 1:
        r.anchor_missing("local-variable collector", "found %d" % len(loc))
        return r
    loc = loc[0]
    touched = fields_touched(crate, loc, cg=ctx.callgraph(), helpers=True)
    tnames = {(o.split("::")[-1], n) for o, n in touched}
    present = [b for b in BINDING_FIELDS if (AST + b[0]) in crate.adts or True]
    for b in present:
        key = "R6c|%s|binding %s.%s" % (loc.id, b[0], b[1])
        if b in tnames:
            r.ok(sample={"binding_form": "%s.%s" % b} if len(r.samples) < 3 else None)
        elif key in REVIEWED:
            r.review(key, REVIEWED[key])
        else:
            r.violate(key, "names bound through %s.%s are not collected as local variables of a function body" % b)
    # parameter enumerator: the function returning an iterator over ArgWithDefault
    enum = [f for f in crate.real_fns() if f.kind in ("method", "fn") and "ArgWithDefault" in f.ret and f.argc == 1
            and "Arguments" in f.local_ty(1)]
    if len(enum) != 1:
        r.anchor_missing("parameter enumerator", "found %d" % len(enum))
    else:
        t = {n for o, n in fields_touched(crate, enum[0], cg=ctx.callgraph(), helpers=True) if o.endswith("::Arguments")}
        for a in ARG_FIELDS:
            key = "R6c|%s|Arguments.%s" % (enum[0].id, a)
            if a in t:
                r.ok()
            elif key in REVIEWED:
                r.review(key, REVIEWED[key])
            else:
                r.violate(key, "parameters in Arguments.%s are not enumerated (not treated as declared parameters)" % a)
    return r


def r6d_all_decorators(ctx):
    r = Result("R6d", "the extractors that turn a decorator / mark expression into fixture usages are applied to every decorator: "
                      "they are never the predicate or mapper of a first-match selection (find / find_map / next / first / any)")
    crate = ctx.bin
    extractors = [f for f in crate.real_fns() if f.kind == "fn" and "decorators::" in f.id
                  and f.ret.startswith("std::vec::Vec<(std::string::String,")]
    r.counts["extractors"] = ",".join(sorted(f.id.split("::")[-1] for f in extractors))
    ids = {f.id for f in extractors}
    n = 0
    for f in crate.real_fns():
        for bb, c in f.calls():
            used = [cid for cid, loc in c.get("clos", []) if cid in ids]
            # closures that call an extractor
            for cid, loc in c.get("clos", []):
                cf = crate.fns.get(cid)
                if cf is not None and cf.id not in ids and any((c2.get("res") or "") in ids for _b, c2 in cf.calls()):
                    used.append(cid)
            if not used:
                if (c.get("res") or "") in ids:
                    n += 1
                    r.ok(sample={"extractor_call": (c.get("res") or "").split("::")[-1], "in": f.id.split("::")[-1]} if len(r.samples) < 3 else None)
                continue
            n += 1
            m = (c.get("fn") or "").split("::")[-1]
            key = "R6d|%s|%s over %s" % (f.id, m, ",".join(sorted(x.split("::")[-1] for x in used)))
            if m in ("find", "find_map", "next", "first", "any", "position", "nth", "last", "take", "take_while", "skip_while"):
                r.violate(key, "%s at %s stops at the first decorator that yields usages: marks stacked after it are ignored" % (m, crate.span_str(c["span"])))
            else:
                r.ok()
    r.floor("usage extractors", len(extractors), 3)
    r.floor("extractor applications", n, 4)
    return r


# ------------------------------------------------------------------------------------------ R6e / R6f: order and early returns
def _field_reads(g):
    """[(bb, stmt index, owner adt, field)] of AST field projections read in g (statements only; terminator operands count at
    the end of their block)"""
    out = []
    for bb, b in enumerate(g.blocks):
        for si, s in enumerate(b["s"]):
            if s[0] != "=":
                continue
            acc = set()
            _collect(s[1], acc)
            _collect_rv(s[2], acc)
            for o, n in acc:
                out.append((bb, si, o, n))
        t = b["t"]
        if t[0] == "call":
            acc = set()
            for a in t[1]["args"]:
                p = op_place(a)
                if p is not None:
                    _collect(p, acc)
            for o, n in acc:
                out.append((bb, len(b["s"]), o, n))
    return out


def r6e_visit_order(ctx):
    r = Result("R6e", "the visitor that reports the FIRST yield (it returns a line, not a bool) visits the statement lists of one "
                      "node in source order -- the declaration order of the fields in the AST node (`body`, `handlers`, `orelse`, "
                      "`finalbody`): a list read earlier in the function than a list declared before it is searched first, and a "
                      "yield in it wins over an earlier yield in the source")
    crate = ctx.bin
    from .r3d import _closures_in
    uni = stmt_list_universe(crate)
    order = {}
    for p, a in ast_adts(crate).items():
        if a["kind"] == "struct":
            for i, f in enumerate(a["variants"][0]["fields"]):
                order[(p, f["name"])] = i
    ys = [f for f in yield_visitors(ctx) if "Option" in f.ret]
    if not ys:
        r.anchor_missing("first-yield visitor", "no yield visitor returning an Option")
        return r
    n = 0
    for v in ys:
        fam_roots = {crate.fns[x].root for x in _scc_of(ctx.callgraph(), v.id) if x in crate.fns}
        for root in sorted(fam_roots):
            F = crate.fns.get(root)
            if F is None:
                continue
            closures = _closures_in(crate, F)

            def lift(g, bb, si, depth=0):
                """position of a read in terms of F's own blocks (a closure's reads happen where the closure is built)"""
                if g is F:
                    return (bb, si)
                if g.id not in closures or depth > 5:
                    return None
                host, _ops = closures[g.id]
                for hb, hsi, pl, rv, sp in host.assigns():
                    if rv[0] == "agg" and rv[1][0] in ("closure", "coroutine") and rv[1][1] == g.id:
                        return lift(host, hb, hsi, depth + 1)
                return None
            reads = defaultdict(list)
            for g in [F] + [crate.fns[c] for c in closures]:
                for bb, si, o, fld in _field_reads(g):
                    if (o, fld) in uni:
                        pos = lift(g, bb, si)
                        if pos is not None:
                            reads[(o, fld)].append(pos)
            dom = F.dominators()

            def precedes(x, y):
                return (x[0] == y[0] and x[1] < y[1]) or (x[0] != y[0] and x[0] in dom.get(y[0], set()))
            by_node = defaultdict(list)
            for (o, fld) in reads:
                by_node[o].append(fld)
            for o, flds in sorted(by_node.items()):
                flds = sorted(flds, key=lambda x: order.get((o, x), 0))
                for i in range(len(flds)):
                    for j in range(i + 1, len(flds)):
                        a_, b_ = flds[i], flds[j]
                        n += 1
                        fa = min(reads[(o, a_)])
                        bad = [pb for pb in reads[(o, b_)] if any(precedes(pb, pa) for pa in reads[(o, a_)])
                               and not any(precedes(pa, pb) for pa in reads[(o, a_)])]
                        key = "R6e|%s|%s.%s before %s" % (root, o.split("::")[-1], b_, a_)
                        if bad:
                            r.violate(key, "%s reads %s.%s before %s.%s: a yield in the later block is reported although an earlier "
                                           "one exists" % (root.split("::")[-1], o.split("::")[-1], b_, o.split("::")[-1], a_))
                        else:
                            r.ok(sample={"node": o.split("::")[-1], "order": "%s then %s" % (a_, b_)} if len(r.samples) < 4 else None)
    r.floor("ordered pairs of statement lists", n, 5)
    return r


def r6f_any_visitor_returns_true_only(ctx):
    r = Result("R6f", "in the visitor that answers `does the body contain a yield` (it returns bool) every return from inside the "
                      "loop over the statements is the constant `true`: a `return <some other bool>` for one statement kind ends the "
                      "search before the remaining statements were looked at")
    crate = ctx.bin
    from .r1e import natural_loops
    ys = [f for f in yield_visitors(ctx) if f.ret == "bool"]
    if not ys:
        r.anchor_missing("contains-yield visitor", "no yield visitor returning bool")
        return r
    n = 0
    for v in ys:
        fam_roots = {crate.fns[x].root for x in _scc_of(ctx.callgraph(), v.id) if x in crate.fns}
        for root in sorted(fam_roots):
            F = crate.fns.get(root)
            if F is None or F.ret != "bool":
                continue
            from .r1e import NEXT_LIKE
            for h, latches, body in natural_loops(F):
                nxt = [b0 for b0 in body if F.blocks[b0]["t"][0] == "call" and NEXT_LIKE.search(F.blocks[b0]["t"][1].get("fn") or "")
                       and F.blocks[b0]["t"][1]["span"][4].startswith("desugar:ForLoop")]
                if not nxt:
                    continue
                # the exit taken when the iterator is exhausted
                done = set()
                tgt = F.blocks[nxt[0]]["t"][1]["target"]
                if tgt is not None and F.blocks[tgt]["t"][0] == "switch":
                    done = {x for x in F.succs(tgt) if x not in body}
                # blocks on the other ways out of the loop
                early = set()
                st = [s2 for b0 in body for s2 in F.succs(b0) if s2 not in body and s2 not in done]
                while st:
                    x = st.pop()
                    if x in early or x in body:
                        continue
                    early.add(x)
                    st.extend(F.succs(x))
                # after the regular end of the loop anything may be returned; remove what is reachable from there only
                after = set()
                st = list(done)
                while st:
                    x = st.pop()
                    if x in after or x in body:
                        continue
                    after.add(x)
                    st.extend(F.succs(x))
                region = set(body) | (early - after)
                key = "R6f|%s" % root
                for bb in sorted(region):
                    for s_ in F.blocks[bb]["s"]:
                        if s_[0] == "=" and place_local(s_[1]) == 0:
                            n += 1
                            rv = s_[2]
                            if rv[0] == "use" and isinstance(rv[1], list) and rv[1][0] == "c" and str(rv[1][1].get("v")).lower() in ("true", "1"):
                                r.ok()
                            else:
                                r.violate(key, "%s returns a non-constant result from inside its statement loop at %s: the search "
                                               "stops at the first statement of that kind" % (root.split("::")[-1], crate.span_str(s_[3])))
                    t = F.blocks[bb]["t"]
                    if t[0] == "call" and place_local(t[1]["dest"]) == 0:
                        n += 1
                        r.violate(key, "%s returns the result of a call from inside its statement loop at %s: the search stops at "
                                       "the first statement of that kind" % (root.split("::")[-1], crate.span_str(t[1]["span"])))
    r.counts["returns_inside_loops"] = n
    return r


def r6g_scope_seeds_after_collector(ctx):
    r = Result("R6g", "in the function that prepares the scope map of a body scan (it hands a `HashMap<String, usize>` to the "
                      "local-variable collector and also inserts names with the constant line 0 = `in scope everywhere`: imported "
                      "and module-level names) every such constant-0 insert comes after the collector ran (is dominated by the "
                      "collector call): inserted first, a later local rebinding overwrites the 0 with its own line and a use before "
                      "that line is reported as an undeclared fixture")
    crate = ctx.bin
    from .r7 import _root_local
    from ..core import op_const
    collectors = {f.id for k, f in _visitor_by_role(ctx).items() if k.startswith("locals:")}
    if not collectors:
        r.anchor_missing("local-variable collector", "not found by role")
        return r
    n = 0
    for f in crate.real_fns():
        calls = [(bb, c) for bb, c in f.calls() if c.get("res") in collectors and f.id not in collectors]
        if not calls:
            continue
        dom = f.dominators()
        for cb, cc in calls:
            maps = {_root_local(f, a) for a in cc["args"] if op_local(a) is not None and "HashMap<std::string::String, usize" in f.local_ty(op_local(a))}
            for m in maps:
                if any(d[0] == "arg" for d in f.defs().get(m, [])):
                    continue      # a helper of the collector that is handed the map: its caller is the one that prepares it
                n += 1
                key = "R6g|%s" % f.id
                # the map starts empty ...
                made = [d for d in f.whole_defs(m) if d[0] in ("call", "assign")]
                empty = all(d[0] == "call" and re.search(r"HashMap::<K, V(, S)?>::(new|default|with_capacity)$|Default>?::default$", d[2].get("res") or d[2].get("fn") or "")
                            for d in made) and made
                if not empty:
                    r.violate(key, "%s hands the local-variable collector a scope map that is not created empty: names already in it "
                                   "(always-in-scope seeds) are overwritten by later local rebindings" % f.id.split("::")[-1])
                    continue
                # ... and every other write into it comes after the collector ran
                early = []
                for bb, c in f.calls():
                    if bb == cb or not c["args"] or _root_local(f, c["args"][0]) != m:
                        continue
                    if not re.search(r"HashMap::<K, V, S(, A)?>::(insert|entry|extend|remove|retain|clear|get_mut)$|Extend<.*>>::extend$", c.get("res") or ""):
                        continue
                    if cb not in dom.get(bb, set()):
                        early.append(crate.span_str(c["span"]))
                if early:
                    r.violate(key, "%s writes into the scope map at %s before the local-variable collector runs: an always-in-scope "
                                   "name inserted there is overwritten by a later local rebinding" % (f.id.split("::")[-1], sorted(set(early))[:2]))
                else:
                    r.ok(sample={"in": f.id.split("::")[-1], "scope_map": "created empty, seeded after the collector"})
    r.floor("scope maps handed to the local-variable collector", n, 1)
    return r


def r6h_parameter_enumerators(ctx):
    r = Result("R6h", "a function that enumerates the parameters of a function definition (reads two or more of the five name-carrying "
                      "fields of `Arguments`) reads at least `posonlyargs`, `args` and `kwonlyargs`: keyword-only parameters after a "
                      "bare `*` are declared parameters; an enumerator that forgets them offers them again in completion or flags "
                      "them as undeclared")
    from .. import sel
    crate = ctx.bin
    reads = defaultdict(set)
    for f in crate.real_fns():
        for b in f.blocks:
            places = []
            for st in b["s"]:
                if st[0] == "=":
                    places += [pl for pl in sel._rv_places(st[2]) if pl is not None]
            if b["t"][0] == "call":
                places += [op_place(a) for a in b["t"][1]["args"] if op_place(a) is not None]
            for pl in places:
                for o, nm in proj_fields(place_projs(pl)):
                    if o.endswith("::Arguments") and nm in ARG_FIELDS:
                        reads[f.root].add(nm)
    n = 0
    for root, fs in sorted(reads.items()):
        if len(fs) < 2:
            continue
        n += 1
        missing = [x for x in ("posonlyargs", "args", "kwonlyargs") if x not in fs]
        key = "R6h|%s|lacks %s" % (root, "+".join(missing))
        if missing:
            r.violate(key, "%s enumerates parameters through %s but not %s" % (root.split("::")[-1], sorted(fs), missing))
        else:
            r.ok(sample={"enumerator": root.split("::")[-1], "fields": sorted(fs)})
    r.floor("parameter enumerators", n, 1)
    return r


def r6i_locals_grow_only(ctx):
    r = Result("R6i", "the local-variable collector (by role: the statement visitor that fills a `&mut HashMap<String, usize>`) only "
                      "adds names: no remove / retain / clear / drain on the map in it. The map is flow-insensitive (name -> "
                      "binding line, consulted for every use in the body), so a name taken out again (`del x`) un-shadows every "
                      "use of it, the ones before the `del` too, and a local called like a fixture is reported as undeclared")
    crate = ctx.bin
    loc = [f for role, f in _visitor_by_role(ctx).items() if role.startswith("locals:")]
    n = 0
    for f in loc:
        n += 1
        bad = []
        for g in [x for x in crate.real_fns() if x.root == f.root]:
            for bb, c in g.calls():
                res = c.get("res") or ""
                if re.search(r"HashMap::<K, V, S(, A)?>::(remove|remove_entry|retain|clear|drain|extract_if)$", res) and c["args"]:
                    a0 = op_local(c["args"][0])
                    if a0 is not None and "HashMap<std::string::String, usize" in g.local_ty(a0):
                        bad.append((res.split("::")[-1], crate.span_str(c["span"])))
        key = "R6i|%s|names leave the local-variable map" % f.id
        if bad:
            r.violate(key, "%s takes names out of the map of locals (%s at %s)" % (f.id.split("::")[-1], bad[0][0], bad[0][1]))
        else:
            r.ok(sample={"collector": f.id.split("::")[-1]})
    r.floor("local-variable collectors", n, 1)
    return r


def r6k_declared_names_are_parameters(ctx):
    r = Result("R6k", "the set of names the undeclared-fixture scan treats as declared (by role: the `&HashSet<String>` handed to a "
                      "function that leads to the writer of the undeclared-fixture map) is filled only with literals, the "
                      "function's own name and the names of its parameters: no function of this crate other than a parameter "
                      "enumerator (returns the AST's `ArgWithDefault`s) lies in the backward slice of an inserted value. Names "
                      "from marks (`usefixtures`) are requested by the test but are not names in its body: a body use of such a "
                      "fixture stays an undeclared use")
    from .r3 import _slice_calls
    from ..facts import DbInfo
    crate = ctx.bin
    db = ctx.memo("dbinfo", lambda: DbInfo(ctx))
    cg = ctx.callgraph()
    um = db.maps_where(lambda k, v: "UndeclaredFixture" in v)
    writers = {op.fn.root for m_ in um for op in db.ops_by_map.get(m_, []) if op.method in ("entry", "insert")}
    n = 0
    for f in crate.real_fns():
        if "_serde::" in f.id or f.id.startswith("<"):
            continue
        sets = set()
        for bb, c in f.calls():
            g = crate.fns.get(c.get("res")) if c.get("res_local") else None
            if g is None or g.root == f.root:
                continue
            for i, a in enumerate(c["args"]):
                if i + 1 <= g.argc and re.match(r"^&std::collections::HashSet<std::string::String", g.local_ty(i + 1)) and \
                        (cg.reach([g.id]) & writers):
                    s0 = _set_root(f, a)
                    if s0 is not None:
                        sets.add(s0)
        if not sets:
            continue
        for bb, c in f.calls():
            if not re.search(r"HashSet::<T, S(, A)?>::insert$", c.get("res") or "") or len(c["args"]) < 2:
                continue
            if _set_root(f, c["args"][0]) not in sets:
                continue
            n += 1
            calls = _slice_calls(crate, f, c["args"][1])
            foreign = sorted(x.split("::")[-1] for x in calls if x in crate.fns and "ArgWithDefault" not in (crate.fns[x].ret or "")
                             and not pure_destructurer(crate, crate.fns[x]))
            key = "R6k|%s|declared name computed by %s" % (f.root, ",".join(foreign))
            if foreign:
                r.violate(key, "%s adds to the declared names a value computed by %s (at %s): not a parameter of the function" % (
                    f.root.split("::")[-1], foreign, crate.span_str(c["span"])))
            else:
                r.ok(sample={"in": f.root.split("::")[-1], "inserted": "literal / own name / parameter"} if len(r.samples) < 4 else None)
    r.floor("insertions into the declared-names set", n, 2)
    return r


def _set_root(f, op, depth=0):
    l = op_local(op)
    if l is None or depth > 8:
        return l
    for d in f.whole_defs(l):
        if d[0] == "assign" and d[3][0] == "ref":
            return _set_root(f, ["cp", d[3][2]], depth + 1)
        if d[0] == "assign" and d[3][0] == "use" and op_local(d[3][1]) is not None and not place_projs(op_place(d[3][1])):
            return _set_root(f, d[3][1], depth + 1)
    return l


def pure_destructurer(crate, g):
    """a function that only takes a value apart: no closures, no loops, no call of another function of this crate (a constructor
    such as `FunctionParts::from_stmt(&Stmt) -> Option<Self>` that borrows the fields of one AST node)"""
    from .r1e import natural_loops
    if g.kind not in ("fn", "method"):
        return False
    if any(x.root == g.id and x.id != g.id for x in crate.real_fns()):
        return False
    if natural_loops(g):
        return False
    return not any(c.get("res_local") for _b, c in g.calls())
