"""R6: visitor coverage over the Python AST (C03, C17)."""
import re
from collections import defaultdict

from ..check import Result
from ..core import place_local, place_projs, proj_fields, op_place
from ..reviewed import REVIEWED

AST = "rustpython_parser::rustpython_ast::"


def ast_adts(crate):
    return {p: a for p, a in crate.adts.items() if p.startswith(AST) or p.startswith("rustpython_ast::")}


def stmt_list_universe(crate):
    """(adt, field) for every field of an AST node that holds a list of statements"""
    out = []
    adts = ast_adts(crate)
    is_list = lambda ty: re.match(r"^std::vec::Vec<(rustpython_parser::)?rustpython_ast::Stmt(<.*>)?>$", ty)

    def holds_lists(tname, depth=0):
        """does AST node type `tname` (struct, or enum over payload structs) have a statement-list field?"""
        a = adts.get(tname)
        if a is None or depth > 2:
            return False
        for v in a["variants"]:
            for f in v["fields"]:
                if is_list(f["ty"]):
                    return True
                m = re.match(r"^((rustpython_parser::)?rustpython_ast::\w+)(<.*>)?$", f["ty"])
                if a["kind"] == "enum" and m and holds_lists(m.group(1), depth + 1):
                    return True
        return False
    for p, a in adts.items():
        if a["kind"] != "struct":
            continue
        for f in a["variants"][0]["fields"]:
            ty = f["ty"]
            if is_list(ty):
                out.append((p, f["name"]))
                continue
            # a list of sub-nodes that carry statement lists themselves (`Try.handlers`, `TryStar.handlers`, `Match.cases`):
            # the visitor must enter the container of each statement kind, reading `ExceptHandler.body` for `try` says
            # nothing about `try ... except*`
            m = re.match(r"^std::vec::Vec<((rustpython_parser::)?rustpython_ast::\w+)(<.*>)?>$", ty)
            if m and p.split("::")[-1].startswith("Stmt") and holds_lists(m.group(1)):
                out.append((p, f["name"]))
    return sorted(out)


SCOPE_NODES = ("StmtFunctionDef", "StmtAsyncFunctionDef", "StmtClassDef")
MODULE_NODES = ("ModModule", "ModInteractive", "ModExpression", "ModFunctionType")


def _scc_of(cg, fid):
    memo = getattr(cg, "_scc_index", None)
    if memo is None:
        memo = {}
        for comp in cg.sccs():
            for x in comp:
                memo[x] = comp
        cg._scc_index = memo
    return memo.get(fid, [fid])


def visitor_family(crate, f, cg=None, helpers=False):
    """the functions that together make up visitor `f`: closures defined in it, the members of its recursion cycle (a helper
    that calls back into it) and their closures; with helpers=True also the non-recursive local functions they call"""
    roots = {f.id}
    if cg is not None:
        roots |= set(_scc_of(cg, f.id))
    roots = {crate.fns[x].root if x in crate.fns else x for x in roots}
    fam = [g for g in crate.real_fns() if g.root in roots]
    if helpers and cg is not None:
        seen = {g.id for g in fam}
        frontier = list(fam)
        for _depth in range(3):
            nxt = []
            for g in frontier:
                for _bb, t, via in cg.callees(g.id):
                    tf = crate.fns.get(t)
                    if tf is None or t in seen or via == "spawn":
                        continue
                    if len(_scc_of(cg, t)) > 1 or t in {x for _b, x, _v in cg.callees(t)}:
                        continue        # another recursive visitor: its reads are its own
                    seen.add(t)
                    nxt.append(tf)
                    for h in crate.real_fns():
                        if h.root == t and h.id not in seen:
                            seen.add(h.id)
                            nxt.append(h)
            fam += nxt
            frontier = nxt
    return fam


def fields_touched(crate, f, include_closures=True, cg=None, helpers=False):
    """(owner adt, field) projections read anywhere in f (and closures defined in it; with a call graph, in its whole
    visitor family)"""
    out = set()
    fns = [f]
    if cg is not None:
        fns = visitor_family(crate, f, cg, helpers)
    elif include_closures:
        fns += [g for g in crate.real_fns() if g.root == f.id and g.id != f.id]
    for g in fns:
        for b in g.blocks:
            for s in b["s"]:
                if s[0] == "=":
                    _collect(s[1], out)
                    _collect_rv(s[2], out)
            t = b["t"]
            if t[0] == "call":
                for a in t[1]["args"]:
                    p = op_place(a)
                    if p is not None:
                        _collect(p, out)
            elif t[0] == "switch":
                p = op_place(t[1])
                if p is not None:
                    _collect(p, out)
    return out


def _collect(place, out):
    for o, n in proj_fields(place_projs(place)):
        out.add((o, n))


def _collect_rv(rv, out):
    k = rv[0]
    if k in ("use", "repeat"):
        p = op_place(rv[1])
        if p is not None:
            _collect(p, out)
    elif k == "ref":
        _collect(rv[2], out)
    elif k in ("rawptr", "discr"):
        _collect(rv[1], out)
    elif k == "cast":
        p = op_place(rv[2])
        if p is not None:
            _collect(p, out)
    elif k == "bin":
        for o in (rv[2], rv[3]):
            p = op_place(o)
            if p is not None:
                _collect(p, out)
    elif k == "un":
        p = op_place(rv[2])
        if p is not None:
            _collect(p, out)
    elif k == "agg":
        for o in rv[2]:
            p = op_place(o)
            if p is not None:
                _collect(p, out)


def variant_index(crate, adt, variant):
    a = crate.adts.get(adt)
    if not a:
        return None
    for v in a["variants"]:
        if v["name"] == variant:
            return v["index"]
    return None


def tests_yield(crate, f):
    """does f contain a switch over an Expr discriminant whose explicit arms are exactly Yield / YieldFrom?"""
    iy, iyf = variant_index(crate, AST + "Expr", "Yield"), variant_index(crate, AST + "Expr", "YieldFrom")
    if iy is None or iyf is None:
        return False
    for b in f.blocks:
        t = b["t"]
        if t[0] == "switch":
            vals = {v for v, _ in t[2]}
            if vals == {iy, iyf}:
                return True
    return False


def stmt_visitors(crate, cg):
    """self-recursive functions with a statement (list) parameter"""
    out = []
    for comp in cg.sccs():
        for fid in comp:
            f = crate.fns[fid]
            if f.kind not in ("method", "fn"):
                continue
            for i in range(1, f.argc + 1):
                ty = f.local_ty(i)
                if re.match(r"^&(\[)?(rustpython_parser::)?rustpython_ast::Stmt\]?$", ty):
                    out.append(f)
                    break
    return out


def _rep_order(f):
    """representative of a recursion cycle: the member taking a single statement, then by name"""
    single = any(re.match(r"^&(rustpython_parser::)?rustpython_ast::Stmt$", f.local_ty(i)) for i in range(1, f.argc + 1))
    return (0 if single else 1, f.id)


def yield_visitors(ctx):
    crate = ctx.bin
    cg = ctx.callgraph()
    res = []
    for f in stmt_visitors(crate, cg):
        fam = visitor_family(crate, f, cg)
        cands = list(fam)
        for g in fam:
            cands += [crate.fns[t] for _bb, t, via in cg.callees(g.id) if via == "direct" and t in crate.fns]
        if any(tests_yield(crate, g) for g in cands):
            res.append(f)
    # one visitor per recursion cycle (a helper that calls back into the visitor belongs to it)
    uniq = {}
    for f in sorted(res, key=_rep_order):
        uniq.setdefault(tuple(_scc_of(cg, f.id)), f)
    return list(uniq.values())


def descent(crate, f, universe, cg=None):
    touched = fields_touched(crate, f, cg=cg)
    return {u for u in universe if u in touched}


def _short(u):
    return "%s.%s" % (u[0].split("::")[-1], u[1])


def r6a_yield_siblings(ctx):
    r = Result("R6a", "the two visitors that look for `yield` (the one that records the yield line and the one that decides "
                      "generator status, hence the unwrapped return type) descend into the same statement-list fields")
    crate = ctx.bin
    uni = stmt_list_universe(crate)
    ys = yield_visitors(ctx)
    r.counts["yield_visitors"] = ",".join(f.id.split("::")[-1] for f in ys)
    if len(ys) != 2:
        r.anchor_missing("yield visitors", "expected 2 recursive statement visitors testing Expr::Yield|YieldFrom, found %d" % len(ys))
        return r
    a, b = sorted(ys, key=lambda f: f.id)
    da, db_ = descent(crate, a, uni, ctx.callgraph()), descent(crate, b, uni, ctx.callgraph())
    for u in sorted(da | db_):
        if u in da and u in db_:
            r.ok(sample={"both_descend": _short(u)})
        else:
            has, lacks = (a, b) if u in da else (b, a)
            r.violate("R6a|%s|lacks %s" % (lacks.id, _short(u)),
                      "%s descends into %s but its sibling %s does not: a yield there gets a %s" % (
                          has.id.split("::")[-1], _short(u), lacks.id.split("::")[-1],
                          "yield line but a non-unwrapped return type" if "contains" in lacks.id else "generator return type but no yield line"))
    r.floor("statement-list fields visited by a yield visitor", len(da | db_), 8)
    return r


def _visitor_by_role(ctx):
    """name -> Fn for the body visitors checked by R6b"""
    crate = ctx.bin
    cg = ctx.callgraph()
    out = {}
    for f in yield_visitors(ctx):
        out["yield:" + f.id.split("::")[-1]] = f
    # undeclared-fixture scan: statement visitors reachable from the function that records undeclared fixtures' caller
    from ..facts import DbInfo
    db = ctx.memo("dbinfo", lambda: DbInfo(ctx))
    um = db.maps_where(lambda k, v: "UndeclaredFixture" in v)
    writers = {op.fn.root for m_ in um for op in db.ops_by_map.get(m_, []) if op.method == "entry"}
    # the innermost statement visitor from which the code recording undeclared fixtures is reached
    svs = stmt_visitors(crate, cg)
    reach = {f.id: cg.reach([f.id]) for f in svs}
    reaching = [f for f in svs if reach[f.id] & writers]
    seen_scc = set()
    for f in sorted(reaching, key=_rep_order):
        scc = tuple(_scc_of(cg, f.id))
        if scc in seen_scc:
            continue
        inner = [g for g in reaching if g.id not in scc and g.id in reach[f.id]]
        if not inner:
            seen_scc.add(scc)
            out["undeclared-use:" + f.id.split("::")[-1]] = f
    # local-variable collector: statement visitor with a `&mut HashMap<String, usize>` parameter
    for f in stmt_visitors(crate, cg):
        if any(f.local_ty(i).startswith("&mut std::collections::HashMap<std::string::String, usize") for i in range(1, f.argc + 1)):
            out["locals:" + f.id.split("::")[-1]] = f
    return out


def r6b_yield(ctx):
    return r6b_exhaustive(ctx, roles=("yield:",), rule="R6b")


def r6b_body(ctx):
    return r6b_exhaustive(ctx, roles=("undeclared-use:", "locals:"), rule="R6b")


def r6b_exhaustive(ctx, roles=("yield:", "undeclared-use:", "locals:"), rule="R6b"):
    r = Result(rule, "each function-body visitor descends into every statement-list field of the AST (universe derived from "
                      "rustpython_ast's type definitions) except the bodies of scope-creating nodes (function / class definitions) "
                      "and module roots")
    crate = ctx.bin
    uni = [u for u in stmt_list_universe(crate)
           if u[0].split("::")[-1] not in SCOPE_NODES + MODULE_NODES]
    r.counts["universe"] = len(uni)
    vis = {k: v for k, v in _visitor_by_role(ctx).items() if k.startswith(tuple(roles))}
    r.counts["visitors"] = ",".join(sorted(vis))
    for role, f in sorted(vis.items()):
        d = descent(crate, f, uni, ctx.callgraph())
        for u in uni:
            key = "R6b|%s|lacks %s" % (f.id, _short(u))
            if u in d:
                r.ok(sample={"visitor": role, "descends": _short(u)} if len(r.samples) < 4 else None)
            elif key in REVIEWED:
                r.review(key, REVIEWED[key])
            else:
                r.violate(key, "%s never descends into %s: code nested there is invisible to it" % (f.id.split("::")[-1], _short(u)))
    r.floor("statement-list universe", len(uni), 15)
    r.floor("body visitors", len(vis), 2)
    return r


# name-binding fields (Python language reference, section 4.2.1 "Binding of names"), resolved against the AST types
BINDING_FIELDS = [
    ("StmtAssign", "targets"), ("StmtAnnAssign", "target"), ("StmtAugAssign", "target"),
    ("StmtFor", "target"), ("StmtAsyncFor", "target"), ("WithItem", "optional_vars"),
    ("StmtImport", "names"), ("StmtImportFrom", "names"),
    ("StmtFunctionDef", "name"), ("StmtAsyncFunctionDef", "name"), ("StmtClassDef", "name"),
    ("ExceptHandlerExceptHandler", "name"), ("ExprNamedExpr", "target"),
    # Comprehension.target is deliberately absent: comprehension variables live in the comprehension's own scope
    ("PatternMatchAs", "name"), ("PatternMatchStar", "name"), ("PatternMatchMapping", "rest"),
    ("StmtGlobal", "names"), ("StmtNonlocal", "names"),
]
ARG_FIELDS = ["posonlyargs", "args", "vararg", "kwonlyargs", "kwarg"]


def r6c_binding_forms(ctx):
    r = Result("R6c", "the local-variable collector (plus the module-level name collector for module scope) reads every "
                      "name-binding field of the AST, and the parameter enumerator reads all five name-carrying fields of "
                      "`Arguments`: a name bound by a form that is never read is treated as unbound and can be flagged")
    crate = ctx.bin
    vis = _visitor_by_role(ctx)
    loc = [f for role, f in vis.items() if role.startswith("locals:")]
    if len(loc) != 1:
        r.anchor_missing("local-variable collector", "found %d" % len(loc))
        return r
    loc = loc[0]
    touched = fields_touched(crate, loc, cg=ctx.callgraph(), helpers=True)
    tnames = {(o.split("::")[-1], n) for o, n in touched}
    present = [b for b in BINDING_FIELDS if (AST + b[0]) in crate.adts or True]
    for b in present:
        key = "R6c|%s|binding %s.%s" % (loc.id, b[0], b[1])
        if b in tnames:
            r.ok(sample={"binding_form": "%s.%s" % b} if len(r.samples) < 3 else None)
        elif key in REVIEWED:
            r.review(key, REVIEWED[key])
        else:
            r.violate(key, "names bound through %s.%s are not collected as local variables of a function body" % b)
    # parameter enumerator: the function returning an iterator over ArgWithDefault
    enum = [f for f in crate.real_fns() if f.kind in ("method", "fn") and "ArgWithDefault" in f.ret and f.argc == 1
            and "Arguments" in f.local_ty(1)]
    if len(enum) != 1:
        r.anchor_missing("parameter enumerator", "found %d" % len(enum))
    else:
        t = {n for o, n in fields_touched(crate, enum[0], cg=ctx.callgraph(), helpers=True) if o.endswith("::Arguments")}
        for a in ARG_FIELDS:
            key = "R6c|%s|Arguments.%s" % (enum[0].id, a)
            if a in t:
                r.ok()
            elif key in REVIEWED:
                r.review(key, REVIEWED[key])
            else:
                r.violate(key, "parameters in Arguments.%s are not enumerated (not treated as declared parameters)" % a)
    return r


def r6d_all_decorators(ctx):
    r = Result("R6d", "the extractors that turn a decorator / mark expression into fixture usages are applied to every decorator: "
                      "they are never the predicate or mapper of a first-match selection (find / find_map / next / first / any)")
    crate = ctx.bin
    extractors = [f for f in crate.real_fns() if f.kind == "fn" and "decorators::" in f.id
                  and f.ret.startswith("std::vec::Vec<(std::string::String,")]
    r.counts["extractors"] = ",".join(sorted(f.id.split("::")[-1] for f in extractors))
    ids = {f.id for f in extractors}
    n = 0
    for f in crate.real_fns():
        for bb, c in f.calls():
            used = [cid for cid, loc in c.get("clos", []) if cid in ids]
            # closures that call an extractor
            for cid, loc in c.get("clos", []):
                cf = crate.fns.get(cid)
                if cf is not None and cf.id not in ids and any((c2.get("res") or "") in ids for _b, c2 in cf.calls()):
                    used.append(cid)
            if not used:
                if (c.get("res") or "") in ids:
                    n += 1
                    r.ok(sample={"extractor_call": (c.get("res") or "").split("::")[-1], "in": f.id.split("::")[-1]} if len(r.samples) < 3 else None)
                continue
            n += 1
            m = (c.get("fn") or "").split("::")[-1]
            key = "R6d|%s|%s over %s" % (f.id, m, ",".join(sorted(x.split("::")[-1] for x in used)))
            if m in ("find", "find_map", "next", "first", "any", "position", "nth", "last", "take", "take_while", "skip_while"):
                r.violate(key, "%s at %s stops at the first decorator that yields usages: marks stacked after it are ignored" % (m, crate.span_str(c["span"])))
            else:
                r.ok()
    r.floor("usage extractors", len(extractors), 3)
    r.floor("extractor applications", n, 4)
    return r
