"""R7: byte-offset discipline for `str` slicing, u32 arithmetic on request positions, unwrap/expect sites (C11)."""
import re
from collections import defaultdict

from ..check import Result
from ..core import op_local, op_place, op_const, op_str, place_local, place_projs, proj_fields, value_preserving
from ..reviewed import REVIEWED, settle

FIND_FAMILY = re.compile(r"core::str::<impl str>::(find|rfind)$|std::str::<impl str>::(find|rfind)$")
SUFFIX_FNS = re.compile(r"::<impl str>::(trim_start|trim_start_matches|trim_left|strip_prefix)$")
IDENT_FNS = re.compile(r"(Deref>::deref|String::as_str|AsRef<.*>>::as_ref|Borrow<.*>>::borrow|::as_str)$")


def is_str_index(c):
    res = c.get("res") or ""
    return bool(re.search(r"ops::Index<.*for str>::index|ops::Index<.*> for std::string::String>::index", res)) or \
        (c.get("fn") == "std::ops::Index::index" and c.get("targs") and c["targs"][0] in ("str", "std::string::String"))


class Site:
    def __init__(self, f, bb, c):
        self.f = f
        self.bb = bb
        self.c = c


class BndEval:
    def __init__(self, crate, f, site_bb):
        self.crate = crate
        self.f = f
        self.site_bb = site_bb
        self.dom = f.dominators()

    # ---- string identity
    def strid(self, op, depth=0):
        """canonical local of the string value an operand denotes (through refs, copies, deref, as_str)"""
        l = op_local(op)
        if l is None or depth > 20:
            return ("const", op_str(op)) if op_str(op) is not None else None
        f = self.f
        ds = f.whole_defs(l)
        if len(ds) == 1:
            d = ds[0]
            if d[0] == "assign":
                rv = d[3]
                if rv[0] == "use" and op_place(rv[1]) is not None and all(e == "*" for e in place_projs(op_place(rv[1]))):
                    return self.strid(rv[1], depth + 1)
                if rv[0] == "ref" and all(e == "*" for e in place_projs(rv[2])):
                    return self.strid(["cp", rv[2]], depth + 1)
            if d[0] == "call" and IDENT_FNS.search(d[2].get("res") or "") and d[2]["args"]:
                return self.strid(d[2]["args"][0], depth + 1)
            if d[0] == "call" and is_str_index(d[2]) and len(d[2]["args"]) > 1:
                # a prefix `&s[..k]` (itself a checked site) has the offsets of s: a boundary found in it is a boundary of s
                rng = self.range_of(d[2]["args"][1])
                if rng is not None and rng[0] in ("RangeTo", "RangeToInclusive"):
                    return self.strid(d[2]["args"][0], depth + 1)
        return ("local", l)

    # ---- expression keys for equality of index expressions
    def key(self, op, depth=0):
        k = op_const(op)
        if k is not None:
            return ("const", k.get("v", k.get("s")))
        l = op_local(op)
        if l is None or depth > 12:
            return ("?",)
        p = op_place(op)
        if place_projs(p):
            return ("place", l, str(place_projs(p)))
        ds = self.f.whole_defs(l)
        if len(ds) != 1:
            return ("local", l)
        d = ds[0]
        if d[0] == "assign":
            rv = d[3]
            if rv[0] == "use":
                pl = op_place(rv[1])
                if pl is not None and place_projs(pl):
                    # (AddWithOverflow tuple).0
                    base = place_local(pl)
                    bd = self.f.whole_defs(base)
                    if len(bd) == 1 and bd[0][0] == "assign" and bd[0][3][0] == "bin":
                        b = bd[0][3]
                        return (b[1].replace("WithOverflow", ""), self.key(b[2], depth + 1), self.key(b[3], depth + 1))
                    return ("place", base, str(place_projs(pl)))
                return self.key(rv[1], depth + 1)
            if rv[0] == "bin":
                return (rv[1].replace("WithOverflow", ""), self.key(rv[2], depth + 1), self.key(rv[3], depth + 1))
        if d[0] == "call":
            c = d[2]
            return ("call", c.get("res"), tuple(self.key(a, depth + 1) for a in c["args"]), d[1])
        return ("local", l)

    # ---- the abstract evaluation
    def bnd(self, op, S, depth=0, seen=None):
        """(True, why) if the operand is a char-boundary offset of string S on every reaching definition,
        else (False, offending atom)"""
        seen = seen or set()
        k = op_const(op)
        f = self.f
        if k is not None:
            v = k.get("v")
            if v == "0":
                return True, "0"
            if v is not None and v.isdigit():
                g = self.guarded_prefix(S, int(v))
                if g:
                    return True, "constant %s guarded by %s" % (v, g)
                return False, "constant %s without a starts_with guard" % v
            return False, "constant of unknown value"
        l = op_local(op)
        if l is None:
            return False, "?"
        p = op_place(op)
        if place_projs(p):
            return self.bnd_place(p, S, depth, seen)
        if (l, depth > 0) in seen or depth > 25:
            return True, "cycle"
        seen = seen | {(l, depth > 0)}
        ds = f.whole_defs(l)
        if not ds:
            return False, "no definition of _%d" % l
        whys = []
        for d in ds:
            ok, why = self.bnd_def(d, S, depth, seen)
            if not ok:
                return False, why
            whys.append(why)
        # is_char_boundary guard on this very operand
        return True, "; ".join(sorted(set(whys)))

    def bnd_place(self, p, S, depth, seen):
        f = self.f
        base = place_local(p)
        projs = place_projs(p)
        fs = proj_fields(projs)
        # `S.find(p)?`: the Continue payload of Try::branch over the find() result
        if any(isinstance(e, list) and e[0] == "d" and e[1] == "Continue" for e in projs):
            for d in f.whole_defs(base):
                if d[0] == "call" and (d[2].get("fn") or "").endswith("Try::branch") and d[2]["args"] and op_local(d[2]["args"][0]) is not None:
                    for d2 in f.whole_defs(op_local(d[2]["args"][0])):
                        if d2[0] == "call" and FIND_FAMILY.search(d2[2].get("res") or ""):
                            if self.strid(d2[2]["args"][0]) == S:
                                return True, "match start of %s(..)? on the same string" % d2[2]["res"].split("::")[-1]
                            return False, "match offset of another string (%s)" % (self.descr_str(d2[2]["args"][0]))
            return False, "payload of `?` not produced by find() on the sliced string"
        # Option::Some payload of find()
        if any(isinstance(e, list) and e[0] == "d" and e[1] == "Some" for e in projs):
            for d in f.whole_defs(base):
                if d[0] == "call" and FIND_FAMILY.search(d[2].get("res") or ""):
                    if self.strid(d[2]["args"][0]) == S:
                        return True, "match start of %s on the same string" % d[2]["res"].split("::")[-1]
                    return False, "match offset of another string (%s)" % (self.descr_str(d[2]["args"][0]))
                if d[0] == "call" and "CharIndices" in " ".join(d[2].get("targs", [])) and fs and fs[-1] == ("tuple", "0") \
                        and re.search(r"Iterator::(find|next|last|rfind|nth|min_by_key|max_by_key)$", d[2].get("fn") or ""):
                    if self.char_indices_src(d[2]["args"][0], S):
                        return True, "byte offset of a char_indices() item of the same string"
                if d[0] == "call":
                    return False, "payload of %s" % (d[2].get("res") or "?").split("::")[-1]
            # Some payload of an Option local assigned elsewhere
            return False, "payload of an Option not produced by find() on the sliced string"
        # tuple field
        if fs and fs[-1][0] == "tuple":
            idx = fs[-1][1]
            # (x op y) with overflow -> .0
            for d in f.whole_defs(base):
                if d[0] == "assign" and d[3][0] == "bin" and idx == "0":
                    return self.bnd_bin(d[3], S, depth, seen)
            if idx == "0" and self.is_char_indices_item(base, projs, S):
                return True, "byte offset from char_indices() of the same string"
            return False, "tuple field %s of _%d" % (idx, base)
        if fs:
            return False, "stored field %s.%s" % (fs[-1][0].split("::")[-1], fs[-1][1])
        if all(e == "*" for e in projs):
            return self.bnd(["cp", base], S, depth + 1, seen)
        return False, "projection %s" % projs

    def bnd_def(self, d, S, depth, seen):
        f = self.f
        if d[0] == "arg":
            return False, "parameter `%s`" % (f.local_name(d[1]) or d[1])
        if d[0] == "call":
            c = d[2]
            res = c.get("res") or ""
            if re.search(r"::<impl str>::len$|string::String::len$", res) and self.strid(c["args"][0]) == S:
                return True, "len() of the same string"
            if re.search(r"::<impl str>::len$|string::String::len$", res):
                return False, "len() of another string (%s)" % self.descr_str(c["args"][0])
            if re.search(r"cmp::Ord::min$|::min$", res) and len(c["args"]) == 2:
                a = self.bnd(c["args"][0], S, depth + 1, seen)
                b = self.bnd(c["args"][1], S, depth + 1, seen)
                if a[0] and b[0]:
                    return True, "min of two boundaries"
                return False, (a[1] if not a[0] else b[1])
            if re.search(r"Option::<T>::unwrap_or$", res) and len(c["args"]) == 2:
                a = self.bnd_optional(c["args"][0], S, depth, seen)
                b = self.bnd(c["args"][1], S, depth + 1, seen)
                if a[0] and b[0]:
                    return True, a[1]
                return False, (a[1] if not a[0] else b[1])
            if re.search(r"Option::<T>::map_or$", res) and len(c["args"]) == 3:
                # opt.map_or(default, |&(byte, _)| byte) with opt an element of a Vec collected from char_indices() of S
                dflt = self.bnd(c["args"][1], S, depth + 1, seen)
                if not dflt[0]:
                    return False, dflt[1]
                clos = [cid for cid, loc in c.get("clos", []) if loc and cid in self.crate.fns]
                item = False
                for d2 in f.whole_defs(op_local(c["args"][0])) if op_local(c["args"][0]) is not None else []:
                    if d2[0] == "call" and re.search(r"<impl \[T\]>::get$|Vec::<T, A>::get$|::first$|::last$", d2[2].get("res") or "") and d2[2]["args"]:
                        if self.vec_from_char_indices(op_local(d2[2]["args"][0]), S):
                            item = True
                if item and len(clos) == 1 and _closure_returns_field0(self.crate.fns[clos[0]]):
                    return True, "byte offset of a char_indices() element of the same string (or %s)" % dflt[1]
                # opt is an item yielded by an iterator over char_indices() of S, of a prefix S[..e] (same offsets), or of
                # a suffix S[b..] (offsets relative to b: the closure must add b back)
                rel = self.char_indices_item_rel(c["args"][0], S, depth, seen)
                if rel is not None and len(clos) == 1:
                    cf = self.crate.fns[clos[0]]
                    if rel[0] in ("same", "prefix") and _closure_returns_field0(cf):
                        return True, "byte offset of a char_indices() item of %s (or %s)" % ("the same string" if rel[0] == "same" else "a prefix of the same string", dflt[1])
                    if rel[0] == "suffix":
                        cap = _closure_returns_capture_plus_field0(cf)
                        if cap is not None and self.capture_key(c, clos[0], cap) == self.key(rel[1]):
                            return True, "suffix start + byte offset of a char_indices() item of that suffix (or %s)" % dflt[1]
                return False, "result of map_or"
            if (c.get("fn") == "std::iter::Iterator::count") and "TakeWhile<std::str::Chars" in " ".join(c.get("targs", [])):
                # number of leading chars satisfying an ASCII-only predicate == number of leading bytes
                if self.chars_src(c["args"][0], S) and self.ascii_only_predicate(c):
                    return True, "count of leading ASCII chars of the same string"
                return False, "count() of a char prefix that may contain multi-byte chars"
            if (c.get("fn") == "std::iter::Iterator::count") and "TakeWhile<std::str::Bytes" in " ".join(c.get("targs", [])):
                # number of leading bytes that all equal ASCII constants: each is a whole char, so the count is a boundary
                if self.bytes_src(c["args"][0], S) and self.ascii_only_predicate(c, byte=True):
                    return True, "count of leading ASCII bytes of the same string"
                return False, "count() of a byte prefix that may end inside a multi-byte char"
            if re.search(r"Iterator::position$|::position$", res):
                return False, "Iterator::position() (an element count, not a byte offset)"
            return False, "result of %s" % res.split("::")[-1]
        if d[0] == "assign":
            rv = d[3]
            if rv[0] == "use":
                return self.bnd(rv[1], S, depth + 1, seen)
            if rv[0] == "bin":
                return self.bnd_bin(rv, S, depth, seen)
            if rv[0] == "cast":
                return False, "cast of %s" % self.atom(rv[2])
            return False, rv[0]
        return False, d[0]

    def bnd_optional(self, op, S, depth, seen):
        l = op_local(op)
        for d in self.f.whole_defs(l) if l is not None else []:
            if d[0] == "call" and FIND_FAMILY.search(d[2].get("res") or "") and self.strid(d[2]["args"][0]) == S:
                return True, "match start of find()"
        return False, "optional value not from find() on the sliced string"

    def bnd_bin(self, rv, S, depth, seen):
        op = rv[1].replace("WithOverflow", "")
        a, b = rv[2], rv[3]
        if op == "Add":
            for x, y in ((a, b), (b, a)):
                okx, whyx = self.bnd(x, S, depth + 1, seen)
                if not okx:
                    continue
                # y = length of the pattern whose match starts at x
                pat = self.find_pattern(x, S)
                ky = op_const(y)
                if pat is not None:
                    if ky is not None and ky.get("v") is not None and pat[0] == "lit" and int(ky["v"]) == len(pat[1].encode()):
                        return True, "match start + literal pattern length"
                    yl = op_local(y)
                    if yl is not None:
                        for d in self.f.whole_defs(yl):
                            if d[0] == "call" and re.search(r"::len$", d[2].get("res") or "") and pat[0] == "local" and self.strid(d[2]["args"][0]) == pat[1]:
                                return True, "match start + pattern.len()"
                            if d[0] == "call" and re.search(r"::len$", d[2].get("res") or "") and pat[0] == "lit" and self.strid(d[2]["args"][0]) == ("const", pat[1]):
                                return True, "match start + pattern.len()"
                # y = c.len_utf8() where (x, c) is one char_indices() item: the offset just behind that char
                yl = op_local(y)
                for d in self.f.whole_defs(yl) if yl is not None else []:
                    if d[0] == "call" and (d[2].get("res") or "").endswith("char::methods::<impl char>::len_utf8") and d[2]["args"]:
                        bx, bc = self.tuple_field_base(x, "0"), self.tuple_field_base(d[2]["args"][0], "1")
                        if bx is not None and bx == bc:
                            return True, "char_indices() offset + len_utf8() of the same item"
                # y is a boundary of the suffix S[x..]
                suff = self.offset_in_suffix(y, S, x)
                if suff:
                    return True, "boundary + boundary of the suffix starting there (%s)" % suff
                # y = length of a string that is a known piece: x + T.len() where T found at x
            oka, whya = self.bnd(a, S, depth + 1, seen)
            okb, whyb = self.bnd(b, S, depth + 1, seen)
            return False, "sum %s + %s" % (whya if not oka else self.atom(a), whyb if not okb else self.atom(b))
        if op == "Sub":
            # S.len() - T.len() with T a suffix of S
            la, lb = op_local(a), op_local(b)
            if la is not None and lb is not None:
                da = [d for d in self.f.whole_defs(la) if d[0] == "call" and re.search(r"::len$", d[2].get("res") or "")]
                db_ = [d for d in self.f.whole_defs(lb) if d[0] == "call" and re.search(r"::len$", d[2].get("res") or "")]
                if da and db_ and self.strid(da[0][2]["args"][0]) == S and self.is_suffix_of(db_[0][2]["args"][0], S):
                    return True, "len() - len(suffix)"
            return False, "difference %s - %s" % (self.atom(a), self.atom(b))
        return False, "arithmetic %s" % op

    def tuple_field_base(self, op, idx, depth=0):
        """the tuple local whose field `idx` the operand is (a copy of)"""
        p = op_place(op)
        if p is None or depth > 6:
            return None
        fs = proj_fields(place_projs(p))
        if fs and fs[-1] == ("tuple", idx) and len(fs) == 1:
            return self._copy_root(place_local(p))
        if not place_projs(p):
            ds = self.f.whole_defs(place_local(p))
            if len(ds) == 1 and ds[0][0] == "assign" and ds[0][3][0] == "use":
                return self.tuple_field_base(ds[0][3][1], idx, depth + 1)
        return None

    def _copy_root(self, l, depth=0):
        ds = self.f.whole_defs(l)
        if depth < 6 and len(ds) == 1 and ds[0][0] == "assign" and ds[0][3][0] == "use" and op_place(ds[0][3][1]) is not None \
                and not place_projs(op_place(ds[0][3][1])):
            return self._copy_root(op_local(ds[0][3][1]), depth + 1)
        return l

    def atom(self, op):
        k = op_const(op)
        if k is not None:
            return "const %s" % k.get("v")
        l = op_local(op)
        return "`%s`" % (self.f.local_name(l) or "_%s" % l)

    def descr_str(self, op):
        s = self.strid(op)
        if s and s[0] == "local":
            return "`%s`" % (self.f.local_name(s[1]) or "_%d" % s[1])
        return str(s)

    def descr_val(self, op):
        """a stable, readable name of an integer operand: variable name, `x.len()`, constant"""
        k = op_const(op)
        if k is not None:
            return str(k.get("v"))
        l0 = op_local(op)
        # a named variable (through plain copies) reads best and is stable
        seen = set()
        while l0 is not None and l0 not in seen:
            seen.add(l0)
            nm = self.f.local_name(l0)
            if nm:
                return "`%s`" % nm
            ds = self.f.whole_defs(l0)
            if len(ds) == 1 and ds[0][0] == "assign" and ds[0][3][0] == "use" and op_place(ds[0][3][1]) is not None \
                    and not place_projs(op_place(ds[0][3][1])):
                l0 = op_local(ds[0][3][1])
            else:
                break
        key = self.key(op)

        def show(kk):
            if kk[0] == "const":
                return str(kk[1])
            if kk[0] == "local":
                return "`%s`" % (self.f.local_name(kk[1]) or "_")
            if kk[0] == "call":
                return "%s()" % (kk[1] or "?").split("::")[-1]
            if kk[0] in ("Add", "Sub", "Mul"):
                return "(%s %s %s)" % (show(kk[1]), {"Add": "+", "Sub": "-", "Mul": "*"}[kk[0]], show(kk[2]))
            if kk[0] == "place":
                return "`%s`.." % (self.f.local_name(kk[1]) or "_")
            return "?"
        return show(key)

    def find_pattern(self, x, S):
        """if x is (a copy of) the match start of S.find(P): ('lit', text) / ('local', strid)"""
        f = self.f
        l = op_local(x)
        seen = set()
        while l is not None and l not in seen:
            seen.add(l)
            ds = f.whole_defs(l)
            if len(ds) != 1 or ds[0][0] != "assign" or ds[0][3][0] != "use":
                return None
            p = op_place(ds[0][3][1])
            if p is None:
                return None
            if place_projs(p):
                base = place_local(p)
                cands = list(f.whole_defs(base))
                for d in list(cands):
                    # `s.find(p)?`: the payload of the Continue arm of Try::branch(find result)
                    if d[0] == "call" and re.search(r"Try>?::branch$", d[2].get("res") or "") and d[2]["args"] and op_local(d[2]["args"][0]) is not None:
                        cands += f.whole_defs(op_local(d[2]["args"][0]))
                for d in cands:
                    if d[0] == "call" and FIND_FAMILY.search(d[2].get("res") or "") and self.strid(d[2]["args"][0]) == S:
                        pa = d[2]["args"][1]
                        k = op_const(pa)
                        if k is not None:
                            if "s" in k:
                                return ("lit", k["s"])
                            if k.get("t") == "char" and k.get("v") is not None:
                                return ("lit", chr(int(k["v"])))
                        sid = self.strid(pa)
                        if sid and sid[0] == "const":
                            return ("lit", sid[1])
                        if sid:
                            return ("local", sid)
                return None
            l = place_local(p)
        return None

    def offset_in_suffix(self, y, S, x):
        """y is a boundary of T where T = S[x..] (same start expression)"""
        f = self.f
        yl = op_local(y)
        if yl is None:
            return None
        # find T candidates: str index calls on S with RangeFrom{start: x'} where key(x') == key(x)
        kx = self.key(x)
        for bb, c in f.calls():
            if not is_str_index(c) or self.strid(c["args"][0]) != S:
                continue
            rng = self.range_of(c["args"][1])
            if rng is None or rng[0] != "RangeFrom":
                continue
            if self.key(rng[1]) != kx:
                continue
            T = ("local", place_local(c["dest"]))
            ok, why = BndEval(self.crate, f, self.site_bb).bnd_with_alias(y, T, c)
            if ok:
                return why
        return None

    def bnd_with_alias(self, y, T, index_call):
        # the suffix string value: dest of the index call (a &str)
        return self.bnd(y, self.strid(["cp", place_local(index_call["dest"])]))

    def range_of(self, op):
        l = op_local(op)
        for d in self.f.whole_defs(l) if l is not None else []:
            if d[0] == "assign" and d[3][0] == "agg" and d[3][1][0] == "adt":
                kind = d[3][1][1].split("::")[-1]
                ops = d[3][2]
                if kind == "Range":
                    return ("Range", ops[0], ops[1])
                if kind == "RangeFrom":
                    return ("RangeFrom", ops[0])
                if kind == "RangeTo":
                    return ("RangeTo", ops[0])
                if kind == "RangeInclusive":
                    return ("RangeInclusive", ops[0], ops[1])
            if d[0] == "call" and (d[2].get("res") or "").endswith("RangeInclusive::<Idx>::new") and len(d[2]["args"]) == 2:
                return ("RangeInclusive", d[2]["args"][0], d[2]["args"][1])
        return None

    def is_suffix_of(self, op, S, depth=0):
        l = op_local(op)
        if l is None or depth > 8:
            return False
        if self.strid(op) == S:
            return True
        sid = self.strid(op)
        if sid is None or sid[0] != "local":
            return False
        for d in self.f.whole_defs(sid[1]):
            if d[0] == "call" and SUFFIX_FNS.search(d[2].get("res") or "") and d[2]["args"]:
                return self.is_suffix_of(d[2]["args"][0], S, depth + 1)
        return False

    def is_char_indices_item(self, base, projs, S, _depth=0):
        """base local is an item `(usize, char)` produced by char_indices() of S (directly or via a collected Vec)"""
        f = self.f
        # element reference returned by <Vec as Index>::index / slice get on a Vec collected from char_indices()
        for d in f.whole_defs(base):
            if d[0] == "call" and re.search(r"ops::Index<I>>::index$|::get_unchecked$", d[2].get("res") or "") and d[2]["args"]:
                if self.vec_from_char_indices(op_local(d[2]["args"][0]), S):
                    return True
        # direct tuple local defined from iterator next / vec index
        for d in f.whole_defs(base):
            if d[0] == "assign" and d[3][0] == "use":
                p = op_place(d[3][1])
                if p is None:
                    continue
                bl = place_local(p)
                if not place_projs(p) and bl != base and _depth < 6 and self.is_char_indices_item(bl, [], S, _depth + 1):
                    return True  # plain copy of an item
                # (*vec)[i] : index projection on a Vec/slice of (usize, char)
                if any(isinstance(e, list) and e[0] == "i" for e in place_projs(p)):
                    if self.vec_from_char_indices(bl, S):
                        return True
                # Some payload of next() over CharIndices (possibly unwrapped by `?`)
                for d2 in f.whole_defs(bl):
                    if d2[0] == "call" and (d2[2].get("fn") or "").endswith("Try::branch") and d2[2]["args"] and op_local(d2[2]["args"][0]) is not None:
                        for d3 in f.whole_defs(op_local(d2[2]["args"][0])):
                            if d3[0] == "call" and "CharIndices" in " ".join(d3[2].get("targs", [])) and self.char_indices_src(d3[2]["args"][0], S):
                                return True
                    if d2[0] == "call" and "CharIndices" in " ".join(d2[2].get("targs", [])) and self.char_indices_src(d2[2]["args"][0], S):
                        return True
        # projection directly on an indexed vec element: ((*vec)[i]).0
        if any(isinstance(e, list) and e[0] == "i" for e in projs) and self.vec_from_char_indices(base, S):
            return True
        # closure parameter that is the item of a char_indices() adaptor
        if f.kind == "closure" and base >= 2:
            site = self.crate.closure_sites().get(f.id)
            if site is not None:
                pf = site[0]
                for bb, c in pf.calls():
                    if any(cid == f.id for cid, _ in c.get("clos", [])) and "CharIndices" in " ".join(c.get("targs", [])):
                        return True
        return False

    def char_indices_item_rel(self, op, S, depth, seen):
        """op: an Option<(usize, char)> produced by an Iterator method over char_indices() of T; returns ('same',),
        ('prefix',) or ('suffix', start operand) describing T relative to S, else None"""
        l = op_local(op)
        for d in self.f.whole_defs(l) if l is not None else []:
            if d[0] != "call":
                return None
            c = d[2]
            if "CharIndices" not in " ".join(c.get("targs", [])) or \
                    not re.search(r"Iterator::(find|next|last|rfind|nth|next_back|nth_back)$", c.get("fn") or ""):
                return None
            T = self.char_indices_operand(c["args"][0])
            if T is None:
                return None
            sid = self.strid(T)
            if sid == S:
                return ("same",)
            if sid is None or sid[0] != "local":
                return None
            for d2 in self.f.whole_defs(sid[1]):
                if d2[0] == "call" and is_str_index(d2[2]) and self.strid(d2[2]["args"][0]) == S:
                    rng = self.range_of(d2[2]["args"][1])
                    if rng is not None and rng[0] == "RangeTo":
                        return ("prefix",)
                    if rng is not None and rng[0] == "RangeFrom" and self.bnd(rng[1], S, depth + 1, seen)[0]:
                        return ("suffix", rng[1])
            return None
        return None

    def char_indices_operand(self, op, depth=0):
        """the string operand of the char_indices() call an iterator value is built on (through adaptors)"""
        l = op_local(op)
        if l is None or depth > 8:
            return None
        for d in self.f.whole_defs(l):
            if d[0] == "call":
                c = d[2]
                if (c.get("res") or "").endswith("<impl str>::char_indices"):
                    return c["args"][0]
                if c["args"]:
                    r = self.char_indices_operand(c["args"][0], depth + 1)
                    if r is not None:
                        return r
            if d[0] == "assign" and d[3][0] == "use":
                r = self.char_indices_operand(d[3][1], depth + 1)
                if r is not None:
                    return r
            if d[0] == "assign" and d[3][0] == "ref":
                r = self.char_indices_operand(["cp", d[3][2]], depth + 1)
                if r is not None:
                    return r
        return None

    def capture_key(self, call, cid, cap):
        """key of the value captured (by copy or by reference) in slot `cap` of closure cid built in this function"""
        for _bb, _si, pl, rv, _sp in self.f.assigns():
            if rv[0] == "agg" and rv[1][0] == "closure" and rv[1][1] == cid and cap < len(rv[2]):
                o = rv[2][cap]
                l = op_local(o)
                for d in self.f.whole_defs(l) if l is not None else []:
                    if d[0] == "assign" and d[3][0] == "ref" and not place_projs(d[3][2]):
                        return self.key(["cp", d[3][2]])
                return self.key(o)
        return None

    def vec_from_char_indices(self, l, S, depth=0):
        f = self.f
        if depth > 8:
            return False
        for d in f.whole_defs(l):
            if d[0] == "call":
                c = d[2]
                res = c.get("res") or ""
                if res.endswith("Iterator::collect") or c.get("fn") == "std::iter::Iterator::collect":
                    if "CharIndices" in " ".join(c.get("targs", [])) and self.char_indices_src(c["args"][0], S):
                        return True
                if (value_preserving(c) or re.search(r"Index<.*>>::index$|Deref>::deref$", res)) and c["args"]:
                    if self.vec_from_char_indices(op_local(c["args"][0]), S, depth + 1):
                        return True
            if d[0] == "assign" and d[3][0] in ("use",) and op_local(d[3][1]) is not None:
                if self.vec_from_char_indices(op_local(d[3][1]), S, depth + 1):
                    return True
            if d[0] == "assign" and d[3][0] == "ref":
                if self.vec_from_char_indices(place_local(d[3][2]), S, depth + 1):
                    return True
        return False

    def char_indices_src(self, op, S, depth=0):
        l = op_local(op)
        if l is None or depth > 8:
            return False
        for d in self.f.whole_defs(l):
            if d[0] == "call":
                c = d[2]
                if (c.get("res") or "").endswith("<impl str>::char_indices"):
                    return self.strid(c["args"][0]) == S
                if c["args"]:
                    if self.char_indices_src(c["args"][0], S, depth + 1):
                        return True
            if d[0] == "assign" and d[3][0] == "use" and self.char_indices_src(d[3][1], S, depth + 1):
                return True
            if d[0] == "assign" and d[3][0] == "ref" and self.char_indices_src(["cp", d[3][2]], S, depth + 1):
                return True
        return False

    def chars_src(self, op, S, depth=0):
        l = op_local(op)
        if l is None or depth > 8:
            return False
        for d in self.f.whole_defs(l):
            if d[0] == "call":
                c = d[2]
                if (c.get("res") or "").endswith("<impl str>::chars"):
                    return self.strid(c["args"][0]) == S
                if c["args"] and self.chars_src(c["args"][0], S, depth + 1):
                    return True
            if d[0] == "assign" and d[3][0] == "use" and self.chars_src(d[3][1], S, depth + 1):
                return True
        return False

    def bytes_src(self, op, S, depth=0):
        l = op_local(op)
        if l is None or depth > 8:
            return False
        for d in self.f.whole_defs(l):
            if d[0] == "call":
                c = d[2]
                if (c.get("res") or "").endswith("<impl str>::bytes"):
                    return self.strid(c["args"][0]) == S
                if c["args"] and self.bytes_src(c["args"][0], S, depth + 1):
                    return True
            if d[0] == "assign" and d[3][0] == "use" and self.bytes_src(d[3][1], S, depth + 1):
                return True
        return False

    def ascii_only_predicate(self, call, byte=False):
        """every closure in the adaptor chain only compares its char parameter with ASCII char constants"""
        ok_any = False
        for cid, loc in call.get("clos", []):
            cf = self.crate.fns.get(cid)
            if cf is None:
                return False
            if [1 for _b, c2 in cf.calls() if not c2["span"][4].startswith("macro:")]:
                return False
            cmps = [(rv[2], rv[3]) for _b, _s, _p, rv, _sp in cf.assigns() if rv[0] == "bin" and rv[1] in ("Eq", "Ne")]
            if not cmps:
                return False
            for a, b in cmps:
                ks = [op_const(x) for x in (a, b)]
                ks = [k for k in ks if k is not None]
                if len(ks) != 1 or ks[0].get("t") != ("u8" if byte else "char") or int(ks[0].get("v", "999")) >= 128:
                    return False
            ok_any = True
        return ok_any

    def guarded_prefix(self, S, k):
        """a dominating `S.starts_with(<ASCII literal/char of >= k bytes>)` true edge"""
        f = self.f
        from .r8 import _switch_after_call
        for bb, c in f.calls():
            if (c.get("res") or "").endswith("<impl str>::starts_with") and self.strid(c["args"][0]) == S:
                kk = op_const(c["args"][1])
                lit = None
                if kk is not None:
                    lit = kk.get("s") if "s" in kk else (chr(int(kk["v"])) if kk.get("t") == "char" and kk.get("v") else None)
                if lit is None or not lit.isascii() or len(lit) < k:
                    continue
                sw = _switch_after_call(f, bb)
                if sw and sw[1] in self.dom.get(self.site_bb, set()):
                    return "starts_with(%r)" % lit
        return None

    def char_boundary_guard(self, op, S):
        f = self.f
        from .r8 import _switch_after_call
        for bb, c in f.calls():
            if (c.get("res") or "").endswith("<impl str>::is_char_boundary") and self.strid(c["args"][0]) == S:
                if self.key(c["args"][1]) == self.key(op):
                    sw = _switch_after_call(f, bb)
                    if sw and sw[1] in self.dom.get(self.site_bb, set()):
                        return True
        return False


def _closure_returns_field0(cf):
    """the closure's result is field 0 of its (tuple) parameter"""
    def src_ok(op, depth=0):
        p = op_place(op)
        if p is None or depth > 4:
            return False
        fs = proj_fields(place_projs(p))
        base = place_local(p)
        if fs and fs[-1] == ("tuple", "0") and len(fs) == 1:
            if base == 2:
                return True
            return all(d[0] == "assign" and d[3][0] in ("use", "ref") and
                       place_local(op_place(d[3][1]) if d[3][0] == "use" else d[3][2]) == 2 for d in cf.whole_defs(base)) and bool(cf.whole_defs(base))
        if not fs:
            ds = cf.whole_defs(base)
            return bool(ds) and all(d[0] == "assign" and d[3][0] == "use" and src_ok(d[3][1], depth + 1) for d in ds)
        return False
    rets = [rv for _bb, _si, pl, rv, _sp in cf.assigns() if place_local(pl) == 0]
    return bool(rets) and all(rv[0] == "use" and src_ok(rv[1]) for rv in rets) and not any(place_local(c["dest"]) == 0 for _b, c in cf.calls())


def _closure_returns_capture_plus_field0(cf):
    """the closure's result is `<captured value> + <field 0 of its tuple parameter>`; returns the capture slot"""
    for _bb, _si, pl, rv, _sp in cf.assigns():
        if rv[0] == "bin" and rv[1] in ("Add", "AddWithOverflow"):
            cap = None
            fld = False
            for o in (rv[2], rv[3]):
                pth = _closure_operand_path(cf, o)
                if pth and pth[0] == "cap":
                    cap = pth[1]
                elif pth and pth[0] == "param0":
                    fld = True
            if cap is not None and fld:
                # the sum is what is returned
                dst = place_local(pl)
                if dst == 0 or any(place_local(pl2) == 0 and rv2[0] == "use" and place_local(op_place(rv2[1]) or [None]) == dst
                                   for _b, _s, pl2, rv2, _sp2 in cf.assigns() if op_place(rv2[1]) is not None if rv2[0] == "use"):
                    return cap
    return None


def _closure_operand_path(cf, o, depth=0):
    p = op_place(o)
    if p is None or depth > 5:
        return None
    base = place_local(p)
    fs = proj_fields(place_projs(p))
    if base == 1 and fs and fs[0][0].startswith("closure"):
        idx = [e[1] for e in place_projs(p) if isinstance(e, list) and e[0] == "f"]
        return ("cap", idx[0]) if idx else None
    if base == 2 and fs and fs[-1] == ("tuple", "0"):
        return ("param0",)
    if not fs:
        ds = cf.whole_defs(base)
        if len(ds) == 1 and ds[0][0] == "assign" and ds[0][3][0] == "use":
            return _closure_operand_path(cf, ds[0][3][1], depth + 1)
        if len(ds) == 1 and ds[0][0] == "assign" and ds[0][3][0] == "ref":
            return _closure_operand_path(cf, ["cp", ds[0][3][2]], depth + 1)
    elif base not in (1, 2):
        ds = cf.whole_defs(base)
        if len(ds) == 1 and ds[0][0] == "assign" and ds[0][3][0] in ("use", "ref"):
            src = ds[0][3][1] if ds[0][3][0] == "use" else ["cp", ds[0][3][2]]
            inner = _closure_operand_path(cf, src, depth + 1)
            if inner == ("param",) and fs[-1] == ("tuple", "0"):
                return ("param0",)
    if base == 2 and not fs:
        return ("param",)
    return None


def slicing_sites(crate):
    out = []
    for f in crate.real_fns():
        for bb, c in f.calls():
            if is_str_index(c) and not c["span"][4].startswith("macro:"):
                out.append(Site(f, bb, c))
    return out


def r7_slicing(ctx):
    r = Result("R7a", "every `str` range-indexing site slices at offsets that are proven char boundaries of that very string: 0, "
                      "len(), a find()/rfind() match start (+ the literal pattern's length), a char_indices() offset, a boundary "
                      "plus a boundary of the suffix starting there, len() - len(trimmed suffix), a constant guarded by "
                      "starts_with(ASCII literal), or anything guarded by is_char_boundary(); sites proven by reading are in the "
                      "reviewed table; everything else can panic on multi-byte input")
    crate = ctx.bin
    sites = slicing_sites(crate)
    cnt = defaultdict(int)
    pending = []
    for s in sites:
        f = s.f
        ev = BndEval(crate, f, s.bb)
        S = ev.strid(s.c["args"][0])
        rng = ev.range_of(s.c["args"][1])
        cnt[f.id] += 1
        base = "R7a|%s|%s" % (f.id, rng[0] if rng else "?")
        if rng is None:
            r.violate(base + "|range-shape", "cannot see the range expression at %s" % crate.span_str(s.c["span"]))
            continue
        bad = []
        descr = []
        for part, op in zip(("start", "end"), rng[1:] if rng[0] in ("Range", "RangeInclusive") else
                            ([rng[1]] if rng[0] == "RangeFrom" else [None, rng[1]])):
            if op is None:
                continue
            ok, why = ev.bnd(op, S)
            if not ok and ev.char_boundary_guard(op, S):
                ok, why = True, "is_char_boundary() guard"
            descr.append("%s: %s" % (part, why))
            if not ok:
                bad.append((part, why))
        sname = ev.descr_str(s.c["args"][0])
        key = re.sub(r"_\d+", "_", "%s|%s[%s]" % (base, sname, "; ".join("%s=%s" % b for b in bad))) if bad else base
        if not bad:
            r.ok(sample={"site": crate.span_str(s.c["span"]), "string": sname, "proof": descr} if len(r.samples) < 6 else None)
        else:
            pending.append((key, "slice of %s at %s is not a proven char boundary (%s): non-ASCII text can make it panic" % (
                sname, crate.span_str(s.c["span"]), "; ".join("%s: %s" % b for b in bad)), (s.f, s.bb)))
    settle(r, pending)
    r.counts["sites"] = len(sites)
    r.floor("str slicing sites", len(sites), 12)
    return r


def _cmp_guards(f):
    """[(op, key_a_operand, key_b_operand, true_target, false_target)] for integer comparisons that control a switch"""
    out = []
    for bb, b in enumerate(f.blocks):
        t = b["t"]
        if t[0] != "switch":
            continue
        for st in b["s"]:
            if st[0] == "=" and st[2][0] == "bin" and st[2][1] in ("Lt", "Le", "Gt", "Ge") and op_local(t[1]) == place_local(st[1]):
                false_t = [tg for v, tg in t[2] if v == 0]
                if false_t:
                    out.append((st[2][1], st[2][2], st[2][3], t[3], false_t[0]))
    return out


def r7_range_order(ctx):
    r = Result("R7d", "every two-sided `str` range `s[a..b]` is proven to have a <= b: a is 0, b is `a + x` (unsigned), or a comparison "
                      "`x < b` / `x <= b` (a = x or x + 1) dominates the site on its true edge (or the negation on its false edge); "
                      "sites proven by reading are in the reviewed table; a range with a > b panics whatever the text is")
    crate = ctx.bin
    sites = slicing_sites(crate)
    n = 0
    pending = []
    for s in sites:
        f = s.f
        ev = BndEval(crate, f, s.bb)
        rng = ev.range_of(s.c["args"][1])
        if rng is None or rng[0] not in ("Range", "RangeInclusive"):
            continue
        n += 1
        ks, ke = ev.key(rng[1]), ev.key(rng[2])
        sname = ev.descr_str(s.c["args"][0])
        key = re.sub(r"_\d+", "_", "R7d|%s|%s" % (f.id, sname))
        why = None
        one = ("const", "1")
        if ks == ("const", "0"):
            why = "start is 0"
        elif ke and ke[0] == "Add" and ks in (ke[1], ke[2]):
            why = "end = start + x"
        else:
            dom = ev.dom
            for op, a, b, t_true, t_false in _cmp_guards(f):
                ka, kb = ev.key(a), ev.key(b)
                # facts established on each edge:  (lo, hi, strict)
                facts = []
                if op == "Lt":
                    facts = [(t_true, ka, kb, True), (t_false, kb, ka, False)]
                elif op == "Le":
                    facts = [(t_true, ka, kb, False), (t_false, kb, ka, True)]
                elif op == "Gt":
                    facts = [(t_true, kb, ka, True), (t_false, ka, kb, False)]
                elif op == "Ge":
                    facts = [(t_true, kb, ka, False), (t_false, ka, kb, True)]
                for tgt, lo, hi, strict in facts:
                    if tgt not in dom.get(s.bb, set()) or hi != ke:
                        continue
                    if ks == lo or (strict and ks in (("Add", lo, one), ("Add", one, lo))):
                        why = "guarded by a dominating comparison of start and end"
        if why:
            r.ok(sample={"site": crate.span_str(s.c["span"]), "string": sname, "start<=end": why})
        else:
            pending.append((key, "range `%s[a..b]` at %s: a <= b is not established (no `a + x` end, no dominating comparison): the slice "
                                 "panics when the start lies behind the end" % (sname, crate.span_str(s.c["span"])), (f, s.bb)))
    settle(r, pending)
    r.floor("two-sided str ranges", n, 2)
    return r


UNSIGNED = ("usize", "u32", "u64", "u16", "u8", "u128")


def _cmp_facts(f):
    """facts established on the edges of integer comparisons: [(target_block, lo_operand, hi_operand, strict)] meaning
    lo < hi (strict) / lo <= hi on every path through target_block; plus (target, x, None, 'nonzero') for x != 0"""
    out = []
    for bb, b in enumerate(f.blocks):
        t = b["t"]
        if t[0] != "switch":
            continue
        for st in b["s"]:
            if st[0] != "=" or st[2][0] != "bin" or op_local(t[1]) != place_local(st[1]):
                continue
            op, a, c = st[2][1], st[2][2], st[2][3]
            false_t = [tg for v, tg in t[2] if v == 0]
            if not false_t:
                continue
            t_true, t_false = t[3], false_t[0]
            if op == "Lt":
                out += [(t_true, a, c, True), (t_false, c, a, False)]
            elif op == "Le":
                out += [(t_true, a, c, False), (t_false, c, a, True)]
            elif op == "Gt":
                out += [(t_true, c, a, True), (t_false, a, c, False)]
            elif op == "Ge":
                out += [(t_true, c, a, False), (t_false, a, c, True)]
            elif op == "Eq":
                out += [(t_false, a, c, "ne")]
            elif op == "Ne":
                out += [(t_true, a, c, "ne")]
    # switchInt directly on an integer: `match x { 0 => .., _ => .. }` / `if x == 0` lowered to a switch on x
    for bb, b in enumerate(f.blocks):
        t = b["t"]
        if t[0] == "switch" and op_local(t[1]) is not None and f.local_ty(op_local(t[1])) in UNSIGNED:
            zero = [tg for v, tg in t[2] if v == 0]
            if zero and t[3] is not None and t[3] != zero[0]:
                out.append((t[3], t[1], ["c", {"v": "0"}], "ne"))
    return out


def _unmodified_between(f, var, start, site, dom):
    """no assignment to local `var` on a path from block `start` to block `site` (exclusive of the site's own statement)"""
    if var is None:
        return True
    # blocks on some path start ->* site
    fwd, st = {start}, [start]
    while st:
        x = st.pop()
        if x == site:
            continue
        for s2 in f.succs(x):
            if s2 not in fwd:
                fwd.add(s2)
                st.append(s2)
    preds = f.preds()
    bwd, st = {site}, [site]
    while st:
        x = st.pop()
        for p2 in preds.get(x, []):
            if p2 not in bwd and p2 in fwd:
                bwd.add(p2)
                st.append(p2)
    between = (fwd & bwd) - {site}
    for bb in between:
        for s_ in f.blocks[bb]["s"]:
            if s_[0] == "=" and place_local(s_[1]) == var:
                return False
        t = f.blocks[bb]["t"]
        if t[0] == "call" and place_local(t[1]["dest"]) == var:
            return False
    return True


def r7_sub_underflow(ctx):
    r = Result("R7e", "every overflow-checked subtraction on an unsigned value (`a - b`, `a -= b`) is proven not to underflow: a "
                      "comparison establishing b <= a (or a != 0 / a > 0 for `a - 1`) dominates it with `a` unmodified in between; "
                      "`s.len() - t.len()` with t a trimmed / stripped part of s; `v.len() - 1` inside a loop over v; sites proven "
                      "by reading are in the reviewed table. An underflow panics (debug) or wraps to a huge index (release)")
    crate = ctx.bin
    n = 0
    pending = []
    for f in crate.real_fns():
        facts = None
        ev = None
        for bb, b in enumerate(f.blocks):
            t = b["t"]
            if t[0] != "assert" or not t[3].startswith("Overflow:Sub") or t[7][4].startswith("macro:"):
                continue
            a, c = t[4][0], t[4][1]
            tys = [f.local_ty(op_local(o)) if op_local(o) is not None else (op_const(o) or {}).get("t") for o in (a, c)]
            if not any(x in UNSIGNED for x in tys if x):
                continue
            n += 1
            ev = BndEval(crate, f, bb)
            facts = facts if facts is not None else _cmp_facts(f)
            ka, kc = ev.key(a), ev.key(c)
            var_a = ka[1] if ka[0] == "local" else None
            why = None
            is_one = kc[0] == "const" and str(kc[1]).isdigit()
            for tgt, lo, hi, strict in facts:
                if tgt not in ev.dom.get(bb, set()):
                    continue
                klo, khi = ev.key(lo), ev.key(hi) if hi is not None else None
                ok = False
                if strict == "ne":
                    # a != 0  ->  a - 1 is fine
                    if is_one and str(kc[1]) == "1" and ((klo == ka and khi == ("const", "0")) or (khi == ka and klo == ("const", "0"))):
                        ok = True
                elif khi == ka and klo == kc:
                    ok = True                      # b <= a / b < a
                elif strict is True and khi == ka and is_one and str(kc[1]) == "1":
                    ok = True                      # x < a with x unsigned  ->  a >= 1
                elif khi == ka and is_one and klo[0] == "const" and str(klo[1]).isdigit():
                    k0 = int(klo[1]) + (1 if strict else 0)
                    if k0 >= int(kc[1]):
                        ok = True                  # k < a  (or k <= a)  ->  a - b for b <= k(+1)
                if ok and _unmodified_between(f, var_a, tgt, bb, ev.dom):
                    why = "dominating comparison"
                    break
            if why is None:
                why = _len_idioms(ev, f, bb, a, c, ka, kc)
            if why is None:
                why = _checked_sub_before(ev, f, bb, ka, kc)
            fn_short = f.id
            key = re.sub(r"_\d+", "_", "R7e|%s|%s - %s" % (fn_short, ev.descr_val(a), ev.descr_val(c)))
            if why is None and is_one and op_local(a) is not None and not place_projs(op_place(a)):
                # a reviewed CONTRACT of a function of this crate: `<result of G> - k` wherever it is written
                src = op_local(a)
                for _hop in range(4):
                    ds = f.whole_defs(src)
                    if len(ds) == 1 and ds[0][0] == "assign" and ds[0][3][0] == "use" and op_local(ds[0][3][1]) is not None \
                            and not place_projs(op_place(ds[0][3][1])):
                        src = op_local(ds[0][3][1])
                    else:
                        break
                ds = f.whole_defs(src)
                gs = {d[2].get("res") for d in ds if d[0] == "call" and d[2].get("res_local")}
                if ds and len(gs) == 1 and all(d[0] == "call" for d in ds):
                    okey = "R7e|%s|its result - %s" % (next(iter(gs)), kc[1])
                    if okey in REVIEWED:
                        r.review(okey, REVIEWED[okey])
                        continue
            if why:
                r.ok(sample={"site": crate.span_str(t[7]), "proof": why} if len(r.samples) < 6 else None)
            else:
                pending.append((key, "unsigned subtraction at %s is not proven free of underflow" % crate.span_str(t[7])))
    settle(r, pending)
    r.counts["unsigned_checked_subtractions"] = n
    r.floor("unsigned checked subtractions", n, 10)
    return r


def _checked_sub_before(ev, f, bb, ka, kc):
    """`a.checked_sub(k)` with the same operands succeeded on every path to the site (its Some / `?`-Continue edge dominates)"""
    dom = ev.dom.get(bb, set())
    for cb, c in f.calls():
        if cb not in dom or not re.search(r"::checked_sub$", c.get("res") or "") or len(c["args"]) != 2:
            continue
        if ev.key(c["args"][0]) != ka:
            continue
        k2 = ev.key(c["args"][1])
        if not (k2 == kc or (k2[0] == "const" and kc[0] == "const" and str(k2[1]).isdigit() and str(kc[1]).isdigit() and int(k2[1]) >= int(kc[1]))):
            continue
        if ka[0] == "local" and not _unmodified_between(f, ka[1], cb, bb, ev.dom):
            continue
        d = place_local(c["dest"])
        carriers = {d: 1}          # local -> discriminant value of the success variant
        for _b2, c2 in f.calls():
            if (c2.get("fn") or "").endswith("Try::branch") and c2["args"] and op_local(c2["args"][0]) == d:
                carriers[place_local(c2["dest"])] = 0      # ControlFlow::Continue
        for b3, si, pl, rv, sp in f.assigns():
            if rv[0] == "discr" and place_local(rv[1]) in carriers and isinstance(pl, int):
                want = carriers[place_local(rv[1])]
                for b4, blk in enumerate(f.blocks):
                    t4 = blk["t"]
                    if t4[0] == "switch" and op_local(t4[1]) == pl:
                        ok_t = [tg for v, tg in t4[2] if v == want] or ([t4[3]] if t4[3] is not None and want == 1 else [])
                        if ok_t and (ok_t[0] == bb or ok_t[0] in dom):
                            return "a dominating checked_sub on the same operands succeeded"
    return None


TRIM_FNS = re.compile(r"<impl str>::(trim|trim_start|trim_end|trim_matches|trim_start_matches|trim_end_matches|strip_prefix|strip_suffix|trim_left|trim_right)$")


def _len_idioms(ev, f, bb, a, c, ka, kc):
    # s.len() - t.len(), t = s.trim*()
    if ka[0] == "call" and kc[0] == "call" and re.search(r"::len$", ka[1] or "") and re.search(r"::len$", kc[1] or ""):
        da = [d for d in f.whole_defs(op_local(a)) if d[0] == "call"] if op_local(a) is not None else []
        dc = [d for d in f.whole_defs(op_local(c)) if d[0] == "call"] if op_local(c) is not None else []
        if not da:
            da = _call_def_through(f, a)
        if not dc:
            dc = _call_def_through(f, c)
        if da and dc:
            S = ev.strid(da[0][2]["args"][0])
            tl = op_local(dc[0][2]["args"][0])
            sid = ev.strid(dc[0][2]["args"][0])
            if sid and sid[0] == "local":
                for d in f.whole_defs(sid[1]):
                    if d[0] == "call" and TRIM_FNS.search(d[2].get("res") or "") and ev.strid(d[2]["args"][0]) == S:
                        return "len() of a string minus len() of a trimmed part of it"
    # v.len() - <count of an iterator over v narrowed by filter / take / skip adaptors>
    if ka[0] == "call" and re.search(r"::len$", ka[1] or "") and op_local(c) is not None:
        da = _call_def_through(f, a)
        dc = [d for d in f.whole_defs(op_local(c)) if d[0] == "call"] or _call_def_through(f, c)
        if da and dc and (dc[0][2].get("fn") or "").endswith("Iterator::count"):
            coll = _coll_id(f, da[0][2]["args"][0])
            ta = " ".join(dc[0][2].get("targs", []))
            widening = re.search(r"\b(Chain|FlatMap|Flatten|Cycle|Repeat|Zip|Interleave|Intersperse)<", ta)
            srcs = {_coll_id(f, ["cp", x]) for x in _iter_sources(f, dc[0][2]["args"][0])}
            if coll is not None and not widening and coll in srcs and not _mutated(f, coll):
                return "len() minus the count of a narrowed iterator over the same collection"
    # v.len() - K behind `v.len() > K` / `>= K`: two len() calls on a collection this function never mutates are equal
    if ka[0] == "call" and re.search(r"::len$", ka[1] or "") and kc[0] == "const" and str(kc[1]).isdigit():
        da = _call_def_through(f, a)
        coll = _coll_id(f, da[0][2]["args"][0]) if da else None
        if coll is not None and not _mutated(f, coll):
            for tgt, lo, hi, strict in _cmp_facts(f):
                if tgt not in ev.dom.get(bb, set()) or hi is None:
                    continue
                dh = _call_def_through(f, hi)
                klo = ev.key(lo)
                if dh and re.search(r"::len$", dh[0][2].get("res") or "") and _coll_id(f, dh[0][2]["args"][0]) == coll \
                        and klo[0] == "const" and str(klo[1]).isdigit() and strict in (True, False):
                    if int(klo[1]) + (1 if strict is True else 0) >= int(kc[1]):
                        return "len() - K behind a dominating len() > K on the same, unmutated collection"
    # v.len() - 1 inside a loop over v / after a push into v
    if kc == ("const", "1") and ka[0] == "call" and re.search(r"::len$", ka[1] or ""):
        da = _call_def_through(f, a)
        if da:
            coll = _root_local(f, da[0][2]["args"][0])
            if coll is not None:
                shrinks = any(re.search(r"Vec::<T, A>::(pop|clear|truncate|drain|remove|retain|swap_remove|split_off|dedup\w*)$", c2.get("res") or "")
                              and c2["args"] and _root_local(f, c2["args"][0]) == coll for _b, c2 in f.calls())
                for b2, c2 in f.calls():
                    if re.search(r"Vec::<T, A>::push$", c2.get("res") or "") and c2["args"] and _root_local(f, c2["args"][0]) == coll \
                            and b2 in ev.dom.get(bb, set()) and not shrinks:
                        return "len() - 1 after a dominating push into the same vector (never shrunk in this function)"
            from .r1e import natural_loops, NEXT_LIKE
            for h, latches, body in natural_loops(f):
                if bb not in body:
                    continue
                for b2 in body:
                    t2 = f.blocks[b2]["t"]
                    if t2[0] == "call" and NEXT_LIKE.search(t2[1].get("fn") or "") and t2[1]["span"][4].startswith("desugar:ForLoop"):
                        if coll is not None and coll in _iter_sources(f, t2[1]["args"][0]):
                            return "len() - 1 inside a for loop over the same collection (non-empty while the body runs)"
    return None


LEN_PRESERVING = re.compile(r"::(sort\w*|reverse|iter_mut|as_mut_slice|as_mut|swap|fill\w*|rotate_\w+|select_nth_unstable\w*|get_mut|first_mut|last_mut|deref_mut|index_mut)$")


def _coll_id(f, op, depth=0):
    """identity of the collection an operand views: a local, or a field path of a local (`self.skipped`)"""
    l = op_local(op)
    if l is None or depth > 12:
        return None
    p = op_place(op)
    pj = [e for e in place_projs(p) if e != "*"] if p is not None else []
    if pj:
        return (_coll_id(f, ["cp", place_local(p)], depth + 1) or ("local", place_local(p)), str(pj))
    ds = f.whole_defs(l)
    if len(ds) == 1 and ds[0][0] == "assign":
        rv = ds[0][3]
        if rv[0] == "use" and op_place(rv[1]) is not None:
            return _coll_id(f, rv[1], depth + 1)
        if rv[0] == "ref":
            return _coll_id(f, ["cp", rv[2]], depth + 1)
    if len(ds) == 1 and ds[0][0] == "call" and ds[0][2]["args"] and re.search(r"Deref(Mut)?>?::deref(_mut)?$|::as_slice$|::as_ref$", ds[0][2].get("res") or ""):
        return _coll_id(f, ds[0][2]["args"][0], depth + 1)
    return ("local", l)


def _mutated(f, cid):
    """is the collection handed out mutably to anything that can change its length?"""
    muts = set()
    for _b, _si, pl, rv, _sp in f.assigns():
        if rv[0] == "ref" and rv[1] == "mut" and _coll_id(f, ["cp", rv[2]]) == cid and isinstance(pl, int):
            muts.add(pl)
    if not muts:
        return False
    changed = True
    while changed:
        changed = False
        for _b, _si, pl, rv, _sp in f.assigns():
            if isinstance(pl, int) and pl not in muts and rv[0] in ("use", "ref") and \
                    (op_local(rv[1]) if rv[0] == "use" else place_local(rv[2])) in muts:
                muts.add(pl)
                changed = True
        for _b, c in f.calls():
            if re.search(r"DerefMut>?::deref_mut$", c.get("res") or "") and c["args"] and op_local(c["args"][0]) in muts \
                    and place_local(c["dest"]) not in muts:
                muts.add(place_local(c["dest"]))
                changed = True
    for _b, c in f.calls():
        if any(op_local(a) in muts for a in c["args"]) and not LEN_PRESERVING.search(c.get("res") or c.get("fn") or ""):
            return True
    return False


def _call_def_through(f, op, depth=0):
    l = op_local(op)
    if l is None or depth > 6:
        return []
    ds = f.whole_defs(l)
    if len(ds) == 1 and ds[0][0] == "call":
        return ds
    if len(ds) == 1 and ds[0][0] == "assign" and ds[0][3][0] == "use":
        return _call_def_through(f, ds[0][3][1], depth + 1)
    return []


def _root_local(f, op, depth=0):
    l = op_local(op)
    if l is None or depth > 12:
        return None
    ds = f.whole_defs(l)
    if len(ds) == 1 and ds[0][0] == "assign":
        rv = ds[0][3]
        if rv[0] == "use" and op_place(rv[1]) is not None and all(e == "*" for e in place_projs(op_place(rv[1]))):
            return _root_local(f, rv[1], depth + 1)
        if rv[0] == "ref" and all(e == "*" for e in place_projs(rv[2])):
            return _root_local(f, ["cp", rv[2]], depth + 1)
    if len(ds) == 1 and ds[0][0] == "call" and ds[0][2]["args"] and re.search(r"Deref(Mut)?>?::deref(_mut)?$|::as_slice$|::as_ref$", ds[0][2].get("res") or ""):
        return _root_local(f, ds[0][2]["args"][0], depth + 1)
    return l


def _iter_sources(f, op, depth=0, seen=None):
    """root locals of the collections an iterator operand was built from (through adaptors)"""
    seen = seen if seen is not None else set()
    l = op_local(op)
    if l is None or l in seen or depth > 14:
        return set()
    seen.add(l)
    out = {_root_local(f, op)}
    for d in f.whole_defs(l):
        if d[0] == "call" and d[2]["args"]:
            out |= _iter_sources(f, d[2]["args"][0], depth + 1, seen)
        elif d[0] == "assign" and d[3][0] in ("use", "ref"):
            o = d[3][1] if d[3][0] == "use" else ["cp", d[3][2]]
            out |= _iter_sources(f, o, depth + 1, seen)
    return {x for x in out if x is not None}


INDEX_RES = re.compile(r"ops::Index<.*>>::index$|ops::IndexMut<.*>>::index_mut$")


def _len_of(ev, f, op, coll):
    """is the integer operand `len()` of the collection rooted at local `coll` (possibly through min(.., ..))?"""
    ds = _call_def_through(f, op)
    if not ds:
        return False
    c = ds[0][2]
    res = c.get("res") or ""
    if re.search(r"::len$", res) and c["args"] and _root_local(f, c["args"][0]) == coll:
        return True
    if re.search(r"cmp::Ord::min$|cmp::min$|::min$", res) and len(c["args"]) == 2:
        return any(_len_of(ev, f, a, coll) for a in c["args"])
    return False


def r7_index_bounds(ctx):
    r = Result("R7f", "every `v[i]` / `v[a..b]` on a Vec or slice (Index::index calls and built-in bounds checks outside expansions) is "
                      "proven in bounds -- a comparison `i < v.len()` dominates it with `i` unmodified in between, or `i` is the "
                      "variable of a `for i in a..v.len()` (or `.min(v.len())`) range loop -- or is in the reviewed table under a key "
                      "that names the collection and the index expression (so a changed index expression is a new, unreviewed "
                      "site). An index out of bounds panics in every build")
    crate = ctx.bin
    n = 0
    pending = []
    for f in crate.real_fns():
        facts = None
        for bb, c in f.calls():
            res = c.get("res") or ""
            if not INDEX_RES.search(res) or c["span"][4].startswith("macro:") or len(c["args"]) < 2:
                continue
            ta = c.get("targs", [])
            if not ta or not (ta[0].startswith(("std::vec::Vec<", "[")) or ta[0].startswith("&[")):
                continue
            n += 1
            ev = BndEval(crate, f, bb)
            facts = facts if facts is not None else _cmp_facts(f)
            coll = _root_local(f, c["args"][0])
            cname = "`%s`" % (f.local_name(coll) or "_") if coll is not None else "?"
            idx = c["args"][1]
            rng = ev.range_of(idx)
            if rng is not None:
                parts = [ev.descr_val(o) for o in rng[1:]]
                idescr = {"Range": "%s..%s", "RangeInclusive": "%s..=%s", "RangeFrom": "%s..", "RangeTo": "..%s"}.get(rng[0], "%s") % tuple(parts)
            else:
                idescr = ev.descr_val(idx)
            key = re.sub(r"_\d+", "_", "R7f|%s|%s[%s]" % (f.id, cname, idescr))
            why = None
            if rng is None and coll is not None:
                ki = ev.key(idx)
                var_i = ki[1] if ki[0] == "local" else None
                for tgt, lo, hi, strict in facts:
                    if strict is not True or tgt not in ev.dom.get(bb, set()):
                        continue
                    if ev.key(lo) == ki and _len_of(ev, f, hi, coll) and _unmodified_between(f, var_i, tgt, bb, ev.dom):
                        why = "dominating `i < len()` of the same collection"
                        break
                if why is None:
                    why = _range_loop_var(ev, f, bb, idx, coll)
                if why is None and ki == ("const", "0"):
                    why = _nonempty_dominating(ev, f, bb, c["args"][0])
                if why is None:
                    why = _below_len(ev, f, bb, idx, c["args"][0], coll, facts)
            elif rng is not None and coll is not None and rng[0] == "RangeFrom":
                w = _len_of(ev, f, rng[1], coll) or ev.key(rng[1]) == ("const", "0") or _below_len(ev, f, bb, rng[1], c["args"][0], coll, facts)
                if w:
                    why = "range start within the collection (%s)" % (w if isinstance(w, str) else "0 / len()")
            elif rng is not None and coll is not None and rng[0] == "Range":
                a_, b_ = rng[1], rng[2]
                end_ok = _len_of(ev, f, b_, coll) or _below_len(ev, f, bb, b_, c["args"][0], coll, facts)
                if end_ok and _le(ev, f, bb, a_, b_, facts):
                    why = "range end within the collection (%s) and start <= end" % (end_ok if isinstance(end_ok, str) else "len()")
            if why:
                r.ok(sample={"site": crate.span_str(c["span"]), "index": "%s[%s]" % (cname, idescr), "proof": why} if len(r.samples) < 6 else None)
            else:
                pending.append((key, "index %s[%s] at %s is not proven in bounds" % (cname, idescr, crate.span_str(c["span"])), (f, bb)))
    settle(r, pending)
    r.counts["vec_index_sites"] = n
    r.floor("Vec / slice index sites", n, 8)
    return r


def _below_len(ev, f, bb, op, coll_op, coll, facts, depth=0):
    """op < len(coll) at the site: a dominating comparison, the Some edge of `coll.get(op)`, or a variable that starts from
    such a value and is only ever decreased"""
    k = ev.key(op)
    var = k[1] if k[0] == "local" else None
    dom = ev.dom.get(bb, set())
    for tgt, lo, hi, strict in facts:
        if strict is True and tgt in dom and ev.key(lo) == k and _len_of(ev, f, hi, coll) and _unmodified_between(f, var, tgt, bb, ev.dom):
            return "dominating `i < len()`"
    cid = _coll_id(f, coll_op)
    for cb, c in f.calls():
        if cb in dom and re.search(r"(<impl \[T\]>|Vec::<T, A>)::get$", c.get("res") or "") and len(c["args"]) == 2 \
                and ev.key(c["args"][1]) == k and _coll_id(f, c["args"][0]) == cid and not _mutated(f, cid):
            d = place_local(c["dest"])
            for b3, si, pl, rv, sp in f.assigns():
                if rv[0] == "discr" and place_local(rv[1]) == d and isinstance(pl, int):
                    for b4, blk in enumerate(f.blocks):
                        t4 = blk["t"]
                        if t4[0] == "switch" and op_local(t4[1]) == pl:
                            ok_t = [tg for v, tg in t4[2] if v == 1] or ([t4[3]] if t4[3] is not None else [])
                            if ok_t and (ok_t[0] == bb or ok_t[0] in dom) and _unmodified_between(f, var, cb, bb, ev.dom):
                                return "behind the Some edge of get() with the same index"
    # the Some payload of `coll.iter().position(..)` / `rposition(..)` is an index of an existing element
    l0 = op_local(op)
    seenp = set()
    while l0 is not None and l0 not in seenp:
        seenp.add(l0)
        ds0 = f.whole_defs(l0)
        if len(ds0) != 1 or ds0[0][0] != "assign" or ds0[0][3][0] != "use":
            break
        p0 = op_place(ds0[0][3][1])
        if p0 is None:
            break
        if any(isinstance(e, list) and e[0] == "d" and e[1] in ("Some", "Continue") for e in place_projs(p0)):
            for d1 in f.whole_defs(place_local(p0)):
                c1 = d1[2] if d1[0] == "call" else None
                if c1 is not None and (c1.get("fn") or "").endswith("Try::branch") and c1["args"]:
                    for d2 in f.whole_defs(op_local(c1["args"][0])) if op_local(c1["args"][0]) is not None else []:
                        if d2[0] == "call":
                            c1 = d2[2]
                if c1 is not None and re.search(r"::(position|rposition)$", (c1.get("fn") or "") + " " + (c1.get("res") or "")) and c1["args"]:
                    srcs = {_coll_id(f, ["cp", x]) for x in _iter_sources(f, c1["args"][0])}
                    pos_bb = d1[1] if d1[0] == "call" and d1[2] is c1 else next((b for b, cc in f.calls() if cc is c1), None)
                    if cid in srcs and pos_bb is not None and pos_bb in dom and not _mut_ref_between(f, cid, pos_bb, bb) \
                            and not re.search(r"\b(Skip|SkipWhile|StepBy|Rev|Chain|Filter|FilterMap)<", " ".join(c1.get("targs", []))):
                        return "index returned by position() over the same collection (not mutated in between)"
            break
        l0 = place_local(p0)
    # a variable initialised from a bounded value and otherwise only decreased
    if var is not None and depth < 2:
        ds = f.whole_defs(var)
        inits, decs, other = [], 0, 0
        for d in ds:
            if d[0] == "assign" and d[3][0] == "use":
                src = d[3][1]
                pl_ = op_place(src)
                if pl_ is not None and place_projs(pl_):
                    # (SubWithOverflow(var, k)).0
                    bd = f.whole_defs(place_local(pl_))
                    if len(bd) == 1 and bd[0][0] == "assign" and bd[0][3][0] == "bin" and bd[0][3][1].startswith("Sub") \
                            and op_local(bd[0][3][2]) == var:
                        decs += 1
                        continue
                    other += 1
                else:
                    inits.append((d[1], src))
            elif d[0] == "assign" and d[3][0] == "bin" and d[3][1].startswith("Sub") and op_local(d[3][2]) == var:
                decs += 1
            elif d[0] == "call" and re.search(r"::saturating_sub$|::wrapping_sub$", d[2].get("res") or "") and d[2]["args"] and op_local(d[2]["args"][0]) == var:
                decs += 1
            else:
                other += 1
        if inits and not other and (decs or len(inits) == 1):
            if all(_below_len(BndEval(ev.crate, f, ib), f, ib, src, coll_op, coll, facts, depth + 1) for ib, src in inits):
                return "starts below len() and is only decreased"
    return None


def _mut_ref_between(f, cid, start, site):
    """is a mutable borrow of the collection taken on some path from block `start` to block `site` that does not pass through
    `start` again (the value computed at `start` is recomputed on every such passage)?"""
    preds = f.preds()
    bwd, st = {site}, [site]
    while st:
        x = st.pop()
        if x == start:
            continue
        for p2 in preds.get(x, []):
            if p2 not in bwd:
                bwd.add(p2)
                st.append(p2)
    fwd, st = {start}, [start]
    while st:
        x = st.pop()
        if x == site:
            continue
        for s2 in f.succs(x):
            if s2 not in fwd and s2 in bwd:
                fwd.add(s2)
                st.append(s2)
    between = (fwd & bwd) - {start}
    for b, si, pl, rv, sp in f.assigns():
        if b in between and rv[0] == "ref" and rv[1] == "mut" and _coll_id(f, ["cp", rv[2]]) == cid:
            return True
    return False


def _le(ev, f, bb, a, b, facts):
    """a <= b at the site"""
    ka, kb = ev.key(a), ev.key(b)
    if ka == ("const", "0") or ka == kb:
        return True
    dom = ev.dom.get(bb, set())
    va = ka[1] if ka[0] == "local" else None
    vb = kb[1] if kb[0] == "local" else None
    for tgt, lo, hi, strict in facts:
        if tgt not in dom or hi is None or strict == "ne":
            continue
        klo, khi = ev.key(lo), ev.key(hi)
        if khi != kb:
            continue
        if klo == ka or (strict is True and ka[0] == "Add" and ((ka[1] == klo and ka[2] == ("const", "1")) or (ka[2] == klo and ka[1] == ("const", "1")))):
            inner = klo[1] if klo[0] == "local" else None
            if _unmodified_between(f, inner, tgt, bb, ev.dom) and _unmodified_between(f, vb, tgt, bb, ev.dom) and _unmodified_between(f, va, tgt, bb, ev.dom):
                return True
    return False


def _nonempty_dominating(ev, f, bb, coll_op):
    """the collection is known to be non-empty at the site: the false edge of `is_empty()` or the Some edge of an
    element-producing call (first / last / min / max / next of an iterator over it) dominates, and nothing shrinks it"""
    cid = _coll_id(f, coll_op)
    if cid is None or _mutated(f, cid):
        return None
    dom = ev.dom.get(bb, set())
    from .r8 import _switch_after_call
    for cb, c in f.calls():
        if cb not in dom or not c["args"]:
            continue
        res = c.get("res") or ""
        fnn = c.get("fn") or ""
        if re.search(r"::is_empty$", res) and _coll_id(f, c["args"][0]) == cid:
            sw = _switch_after_call(f, cb)
            if sw and (sw[2] == bb or sw[2] in dom):
                return "behind the false edge of is_empty() on the same collection"
        if re.search(r"::(first|last|min|max|min_by|max_by|min_by_key|max_by_key|next|next_back|peek)$", res + " " + fnn):
            srcs = {_coll_id(f, ["cp", x]) for x in _iter_sources(f, c["args"][0])} | {_coll_id(f, c["args"][0])}
            if cid not in srcs:
                continue
            if re.search(r"\b(Filter|FilterMap|Skip|SkipWhile|TakeWhile|StepBy)<", " ".join(c.get("targs", []))):
                pass  # an element of a narrowed iterator is still an element of the collection
            d = place_local(c["dest"])
            for b3, si, pl, rv, sp in f.assigns():
                if rv[0] == "discr" and place_local(rv[1]) == d and isinstance(pl, int):
                    for b4, blk in enumerate(f.blocks):
                        t4 = blk["t"]
                        if t4[0] == "switch" and op_local(t4[1]) == pl:
                            ok_t = [tg for v, tg in t4[2] if v == 1] or ([t4[3]] if t4[3] is not None else [])
                            if ok_t and (ok_t[0] == bb or ok_t[0] in dom):
                                return "behind the Some edge of an element of the same collection"
    return None


def _range_loop_var(ev, f, bb, idx, coll):
    """idx is the payload of `Range<usize>::next()` of a range whose end is len() of coll (or a min with it)"""
    from .r1e import NEXT_LIKE
    l = op_local(idx)
    seen = set()
    while l is not None and l not in seen:
        seen.add(l)
        ds = f.whole_defs(l)
        if len(ds) != 1 or ds[0][0] != "assign" or ds[0][3][0] != "use":
            return None
        p = op_place(ds[0][3][1])
        if p is None:
            return None
        if any(isinstance(e, list) and e[0] == "d" and e[1] == "Some" for e in place_projs(p)):
            base = place_local(p)
            for d in f.whole_defs(base):
                if d[0] == "call" and NEXT_LIKE.search(d[2].get("fn") or "") and "Range<usize>" in " ".join(d[2].get("targs", [])):
                    # the iterator local: find the Range aggregate it was built from
                    it = _root_local(f, d[2]["args"][0])
                    for bb2, si, pl, rv, sp in f.assigns():
                        if rv[0] == "agg" and rv[1][0] == "adt" and rv[1][1].endswith("::Range") and len(rv[2]) == 2:
                            tgt = place_local(pl)
                            if tgt == it or _flows_local(f, tgt, it):
                                if _len_of(ev, f, rv[2][1], coll):
                                    return "loop variable of a range ending at len() of the same collection"
            return None
        l = place_local(p)
    return None


def _flows_local(f, a, b, depth=0):
    """does local a flow into local b through moves / into_iter?"""
    if a == b:
        return True
    if depth > 6:
        return False
    for bb, si, pl, rv, sp in f.assigns():
        if rv[0] == "use" and op_local(rv[1]) == a and isinstance(pl, int):
            if _flows_local(f, pl, b, depth + 1):
                return True
    for bb, c in f.calls():
        if c["args"] and op_local(c["args"][0]) == a and re.search(r"IntoIterator>?::into_iter$", c.get("fn") or ""):
            if _flows_local(f, place_local(c["dest"]), b, depth + 1):
                return True
    return False


def r7_u32_overflow(ctx):
    r = Result("R7b", "no overflow-checked arithmetic on u32 values that come from a request position (line / character parameters): "
                      "`line + 1` on u32::MAX panics in builds with overflow checks and wraps to line 0 otherwise")
    crate = ctx.bin
    n = 0
    for f in crate.real_fns():
        for bb, b in enumerate(f.blocks):
            t = b["t"]
            if t[0] != "assert" or not t[3].startswith("Overflow"):
                continue
            tys = [f.local_ty(op_local(o)) if op_local(o) is not None else (op_const(o) or {}).get("t") for o in t[4]]
            if "u32" not in tys:
                continue
            n += 1
            params = [op_local(o) for o in t[4] if op_local(o) is not None and _is_param_copy(f, op_local(o))]
            key = "R7b|%s|%s on u32 parameter" % (f.id, t[3])
            if params:
                r.violate(key, "%s at %s operates on a u32 request value (`%s`) with overflow checking" % (
                    t[3], crate.span_str(t[7]), f.local_name(_is_param_copy(f, params[0])) or "?"))
            else:
                r.ok()
    r.counts["u32_overflow_asserts"] = n
    return r


def _is_param_copy(f, l, depth=0):
    if 1 <= l <= f.argc:
        return l
    if depth > 6:
        return None
    ds = f.whole_defs(l)
    if len(ds) == 1 and ds[0][0] == "assign" and ds[0][3][0] == "use" and op_local(ds[0][3][1]) is not None and not place_projs(op_place(ds[0][3][1])):
        return _is_param_copy(f, op_local(ds[0][3][1]), depth + 1)
    return None


def r7_unwrap(ctx):
    r = Result("R7c", "every unwrap()/expect()/panic!-family call outside macro expansions is either Mutex::lock().unwrap() (poisoning "
                      "only follows another panic) or listed in the reviewed table with the reason it cannot fail")
    crate = ctx.bin
    n = 0
    sites = []
    for f in crate.real_fns():
        for bb, c in f.calls():
            res = c.get("res") or ""
            exp = c["span"][4]
            if exp.startswith("macro:") and exp not in ("macro:panic", "macro:unreachable", "macro:todo", "macro:unimplemented",
                                                         "macro:assert", "macro:assert_eq", "macro:assert_ne"):
                continue
            if not (re.search(r"::(unwrap|expect|unwrap_unchecked)$", res) or re.search(r"panicking::|::panic_", res)):
                continue
            n += 1
            recv = _origin_res(f, c["args"][0]) if c["args"] else None
            what = "%s on %s" % (res.split("::")[-1], (recv or "?").split("::")[-1] if recv else "?")
            sites.append((f, c, recv, what))
    # a reviewed site may move to another function (extract-function refactoring): it is recognised by *what* it unwraps
    # as long as the number of such sites in the crate does not exceed the number of reviewed entries for it
    from collections import Counter
    reviewed_what = Counter(k.split("|", 2)[2] for k in REVIEWED if k.startswith("R7c|"))
    seen_what = Counter(w for _f, _c, _r, w in sites)
    for f, c, recv, what in sites:
        key = "R7c|%s|%s" % (f.id, what)
        if recv and re.search(r"sync::Mutex::<T>::lock$|sync::RwLock::<T>::(read|write)$", recv):
            r.ok(sample={"unwrap": key, "accepted": "lock poisoning"} if len(r.samples) < 2 else None)
        elif recv and re.search(r"serde_json::(ser::)?to_string(_pretty)?$", recv) and _serialises_json_value(f, c["args"][0]):
            # serialising a serde_json::Value (object keys are strings, no user Serialize impl involved) cannot fail
            r.ok(sample={"unwrap": key, "accepted": "serde_json::to_string* of a serde_json::Value"} if len(r.samples) < 3 else None)
        elif key in REVIEWED:
            r.review(key, REVIEWED[key])
        elif reviewed_what.get(what) and seen_what[what] <= reviewed_what[what]:
            r.review(key, "moved: same construct as the reviewed `%s` site (count unchanged)" % what)
        else:
            r.violate(key, "%s at %s can panic and is not in the reviewed table" % (what, crate.span_str(c["span"])))
    r.counts["unwrap_sites"] = n
    r.floor("unwrap/expect sites", n, 10)
    return r


def _serialises_json_value(f, op, depth=0):
    l = op_local(op)
    if l is None or depth > 6:
        return False
    for d in f.whole_defs(l):
        if d[0] == "call":
            ta = d[2].get("targs", [])
            t0 = (ta[0] if ta else "").replace("&", "").strip()
            return bool(re.fullmatch(r"(std::vec::Vec<)?serde_json::Value>?|\[serde_json::Value\]", t0))
        if d[0] == "assign" and d[3][0] == "use":
            return _serialises_json_value(f, d[3][1], depth + 1)
    return False


def _origin_res(f, op, depth=0):
    l = op_local(op)
    if l is None or depth > 6:
        return None
    for d in f.whole_defs(l):
        if d[0] == "call":
            return d[2].get("res")
        if d[0] == "assign" and d[3][0] == "use":
            return _origin_res(f, d[3][1], depth + 1)
    return None


def r7g_take_after_skip_is_a_count(ctx):
    r = Result("R7g", "in `it.skip(a).take(n)` the amount n is a COUNT: when n is computed from a position (the index of an enumerate, "
                      "the result of position / find / char_indices) it has to pass a subtraction on the way (`end - a`). "
                      "`skip(a).take(end)` runs a items past the intended end -- the swapped form of `take(end).skip(a)` -- and "
                      "only inputs where a > 0 and something follows the end show it")
    crate = ctx.bin
    n = 0
    for f in crate.real_fns():
        if "_serde::" in f.id or f.id.startswith("<"):
            continue
        for bb, c in f.calls():
            res = c.get("res") or c.get("fn") or ""
            if not re.search(r"Iterator::take$", res) or len(c["args"]) < 2 or c["span"][4].startswith("macro:"):
                continue
            if "iter::Skip<" not in " ".join(c.get("targs", [])[:1]) and "iter::Skip<" not in f.local_ty(op_local(c["args"][0]) or 0):
                continue
            n += 1
            pos, sub = _position_without_subtraction(f, c["args"][1])
            key = "R7g|%s|take(position) after skip" % f.root
            if pos and not sub:
                r.violate(key, "%s: `skip(..).take(n)` at %s where n comes from %s and no subtraction: n is an end position, not a count" % (
                    f.root.split("::")[-1], crate.span_str(c["span"]), pos))
            else:
                r.ok(sample={"in": f.root.split("::")[-1], "amount": "difference" if sub else "count / constant"})
    r.counts["take_after_skip"] = n
    return r


def _position_without_subtraction(f, op):
    seen, st = set(), [op_local(op)]
    pos, sub = None, False
    while st and len(seen) < 80:
        x = st.pop()
        if x is None or x in seen:
            continue
        seen.add(x)
        for d in f.defs().get(x, []):
            if d[0] == "call":
                res = d[2].get("res") or d[2].get("fn") or ""
                if re.search(r"(saturating_sub|checked_sub|wrapping_sub|abs_diff)$", res):
                    sub = True
                if re.search(r"Enumerate<.*>::next$|Enumerate<I> as .*Iterator>::next$|Iterator::position$|Iterator::rposition$|str>?::r?find$|CharIndices.*::next$", res):
                    pos = res.split("::")[-3:] if pos is None else pos
                    pos = "::".join(pos) if isinstance(pos, list) else pos
                if res.endswith("::next") and d[2]["args"] and ("Enumerate<" in " ".join(d[2].get("targs", [])) or
                                                               "Enumerate<" in f.local_ty(op_local(d[2]["args"][0]) or 0)):
                    pos = pos or "the index of an enumerate()"
                if re.search(r"ops::Range(Inclusive)?<A>>::next$", res):
                    pos = pos or "the variable of a range loop"
                st += [op_local(a) for a in d[2]["args"]]
            elif d[0] == "assign":
                rv = d[3]
                if rv[0] == "bin":
                    if rv[1] in ("Sub", "SubWithOverflow", "SubUnchecked"):
                        sub = True
                    st += [op_local(rv[2]), op_local(rv[3])]
                elif rv[0] == "use":
                    st.append(op_local(rv[1]))
                elif rv[0] in ("cast", "un"):
                    st.append(op_local(rv[-1]))
                elif rv[0] == "ref":
                    st.append(place_local(rv[2]))
    return pos, sub


STR_INDEX_CALLS = r"string::String::(truncate|split_off|insert|insert_str|remove|replace_range|drain)$|str>?::(split_at|split_at_mut|split_at_checked)$"


def r7h_string_index_calls(ctx):
    r = Result("R7h", "every call that takes a byte index into a String / str and panics off a char boundary -- truncate, split_off, "
                      "insert, insert_str, remove, split_at (replace_range / drain: their range) -- is handed an index proven to "
                      "be a boundary of that very string by the same evaluation as R7a (0, len(), a find() match, a char_indices() "
                      "offset, ... or an is_char_boundary() guard). A size cap such as `s.truncate(4096)` cuts through a "
                      "multi-byte character of the first long non-ASCII docstring")
    crate = ctx.bin
    n = 0
    pending = []
    for f in crate.real_fns():
        if "_serde::" in f.id or f.id.startswith("<"):
            continue
        for bb, c in f.calls():
            res = c.get("res") or ""
            m = re.search(STR_INDEX_CALLS, res)
            if not m or len(c["args"]) < 2 or c["span"][4].startswith("macro:"):
                continue
            meth = m.group(1) or m.group(2)
            if meth == "split_at_checked":
                continue
            n += 1
            ev = BndEval(crate, f, bb)
            S = ev.strid(c["args"][0])
            ops = []
            if meth in ("replace_range", "drain"):
                rng = ev.range_of(c["args"][1])
                if rng is None:
                    ops = [None]
                else:
                    ops = [o for o in rng[1:] if o is not None]
            else:
                ops = [c["args"][1]]
            bad = []
            for op in ops:
                if op is None:
                    bad.append("range not visible")
                    continue
                ok, why = ev.bnd(op, S)
                if not ok and ev.char_boundary_guard(op, S):
                    ok = True
                if not ok:
                    bad.append(why)
            key = re.sub(r"_\d+", "_", "R7h|%s|%s(%s)" % (f.id, meth, "; ".join(str(b) for b in bad)))
            if bad:
                pending.append((key, "%s at %s: the index is not a proven char boundary of the string (%s): non-ASCII text can make it "
                                     "panic" % (meth, crate.span_str(c["span"]), "; ".join(str(b) for b in bad)), (f, bb)))
            else:
                r.ok(sample={"site": crate.span_str(c["span"]), "call": meth})
    settle(r, pending)
    r.counts["byte_index_calls_on_strings"] = n  # expected 0 on the pinned tree; positive example: seeded change C11-s
    return r
