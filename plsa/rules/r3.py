"""R3: map maintenance on re-analysis (C04, C06, C07, C10)."""
import re
from collections import defaultdict

from ..check import Result
from ..core import op_local, op_place, op_const, place_local, place_projs, proj_fields, is_spawn
from ..facts import DbInfo, DB
from ..reviewed import REVIEWED


def _db(ctx):
    return ctx.memo("dbinfo", lambda: DbInfo(ctx))


def _reach_avoiding(f, start, target, removed_nodes=(), removed_edges=()):
    """is `target` reachable from `start` without entering removed nodes / using removed edges?"""
    removed_nodes = set(removed_nodes)
    removed_edges = set(removed_edges)
    if start in removed_nodes:
        return False
    seen = {start}
    st = [start]
    while st:
        b = st.pop()
        if b == target:
            return True
        for s in f.succs(b):
            if s in removed_nodes or (b, s) in removed_edges or s in seen:
                continue
            seen.add(s)
            st.append(s)
    return False


def _bool_param_false_edges(f):
    """edges (bb -> target) taken when a bool *parameter* of f is false; returns {param_index: [(bb, tgt)]}"""
    out = defaultdict(list)
    for bb, b in enumerate(f.blocks):
        t = b["t"]
        if t[0] != "switch":
            continue
        l = op_local(t[1])
        if l is None:
            continue
        # trace copies back to a parameter
        p = _copy_of_param(f, l)
        if p is None or f.local_ty(p) != "bool":
            continue
        for val, tgt in t[2]:
            if val == 0:
                out[p].append((bb, tgt))
    return out


def _copy_of_param(f, l, depth=0):
    if 1 <= l <= f.argc:
        return l
    if depth > 6:
        return None
    ds = f.whole_defs(l)
    if len(ds) != 1 or ds[0][0] != "assign":
        return None
    rv = ds[0][3]
    if rv[0] == "use" and op_local(rv[1]) is not None and not place_projs(op_place(rv[1])):
        return _copy_of_param(f, op_local(rv[1]), depth + 1)
    return None


class EntryInfo:
    """Facts about the analysis entry shared by R3a/R3b/R3c/R3e.  All CFG reasoning is done on the *inlined view* of the
    entry (local non-recursive helpers spliced in), so extracting part of the entry into a helper changes nothing."""

    def __init__(self, ctx):
        from ..locks import classify_call
        self.db = db = _db(ctx)
        self.ctx = ctx
        self.crate = ctx.bin
        self.entry = E0 = db.analysis_entry()
        if E0 is None:
            return
        # splice in helpers that (transitively) write database maps other than the transparent/stamped caches: these are the
        # pieces of the entry a refactoring may have extracted; pure lookups (canonical path, line index ...) stay calls
        from .r3d import stamped_caches
        quiet = set(stamped_caches(db)) | set(db.maps_where(lambda k, v: k == "std::path::PathBuf" and v == "std::path::PathBuf"))

        def writes_index(g):
            return any(mode == "X" and ident.startswith("dashmap|%s." % DB) and ident.split(".")[-1] not in quiet
                       for (ident, mode) in db.lm.acq.get(g.id, ()))
        self.view = E = ctx.inl(E0, pred=writes_index, tag="entry")
        self.parse_bb, self.parse_call = db.parse_call(E)
        self.ok_bb = self.err_bb = None
        tgt = self.parse_call["target"]
        t = E.blocks[tgt]["t"] if tgt is not None else None
        if t and t[0] == "switch":
            for val, b in t[2]:
                if val == 0:
                    self.ok_bb = b
                elif val == 1:
                    self.err_bb = b
        reach = db.cg.reach([E0.id])
        self.reach = reach
        self.app = defaultdict(list)  # map -> [append op]
        for op in db.append_ops():
            if op.fn.id in reach:
                self.app[op.ident.split(".")[-1]].append(op)
        # lock operations visible in the inlined view: bb -> (map, method, mode, call)
        self.view_ops = {}
        for bb, c in E.calls():
            k = classify_call(c)
            if k is None or k[0] != "dashmap" or not c["args"]:
                continue
            ids, why = db.lm.identity(E, c["args"][0])
            if len(ids) == 1 and next(iter(ids)).startswith(DB + "."):
                self.view_ops[bb] = (next(iter(ids)).split(".")[-1], k[1], k[2], c)
        # per call site of the view: which maps it may append to
        self.site_appends = defaultdict(set)
        self.site_writes = defaultdict(set)
        for bb, c in E.calls():
            if bb in self.view_ops:
                m, meth, mode, _c = self.view_ops[bb]
                if meth in ("entry", "try_entry"):
                    self.site_appends[bb].add(m)
                if mode == "X":
                    self.site_writes[bb].add(m)
                continue
            targets = []
            if c.get("res_local") and c.get("res") in self.crate.fns:
                targets.append(c["res"])
            targets += [cid for cid, loc in c.get("clos", []) if loc and cid in self.crate.fns]
            for tid in targets:
                sub = db.cg.reach([tid])
                for m, ops in self.app.items():
                    if any(op.fn.id in sub for op in ops):
                        self.site_appends[bb].add(m)
                for (ident, mode) in db.lm.acq.get(tid, ()):
                    if mode == "X" and ident.startswith("dashmap|%s." % DB):
                        self.site_writes[bb].add(ident.split(".")[-1])
        # clearing sites in the view: bb -> {map}
        self.site_clears = defaultdict(set)
        for bb, (m, meth, mode, c) in self.view_ops.items():
            if meth == "remove" and len(c["args"]) > 1 and self._is_canonical(E, c["args"][1]):
                self.site_clears[bb].add(m)
        for bb, c in E.calls():
            if bb in self.view_ops:
                continue
            if c.get("res_local") and c.get("res") in self.crate.fns:
                g = self.crate.fns[c["res"]]
                for m in db.maps:
                    k = db.clears_by_file(g, m)
                    if k is None:
                        continue
                    kind, pidx = k
                    if pidx - 1 < len(c["args"]) and self._is_canonical(E, c["args"][pidx - 1]):
                        self.site_clears[bb].add(m)
        # helpers that were spliced into the view: their by-file clearing summary counts at the block of the original call
        for bb, gid, c in E.inlined_calls:
            g = self.crate.fns[gid]
            for m in db.maps:
                k = db.clears_by_file(g, m)
                if k is None:
                    continue
                kind, pidx = k
                if pidx - 1 < len(c["args"]) and self._is_canonical(E, c["args"][pidx - 1]):
                    self.site_clears[bb].add(m)

    def _is_canonical(self, E, op):
        """the operand is the (canonical) path of the file being analysed: a canonicalisation result computed in the entry,
        or the entry's own path parameter (canonicalised by the wrappers)"""
        o = self.db.origins.of_operand(E, op)
        from .. import roles
        canon = roles.canonicalisers(self.ctx)
        ok = lambda x: (x[0] == "call" and (x[2] in canon or x[2].endswith("Path::canonicalize")) and not x[3]) \
            or (x[0] == "param" and not x[3])
        return bool(o) and all(ok(x) for x in o)


def _entry(ctx):
    return ctx.memo("entryinfo", lambda: EntryInfo(ctx))


def r3a_clean_before_append(ctx):
    r = Result("R3a", "in the analysis entry, for every map that receives entry()-appends in code reachable from it, a clearing "
                      "operation on that map for the analysed file (remove(file), or a callee that retains-by-file and "
                      "remove_if(is_empty)s) dominates every call that can reach an append; a clear that is skipped only on the "
                      "false edge of a bool parameter is accepted and handed to R3e")
    ei = _entry(ctx)
    if ei.entry is None:
        r.anchor_missing("analysis entry", "no unique function that calls rustpython_parser::parse and stores file_cache")
        return r
    E = ei.view
    dom = E.dominators()
    r.counts["append_maps"] = ",".join(sorted(ei.app))
    cond = {}
    false_edges = _bool_param_false_edges(E)
    for m in sorted(ei.app):
        clear_bbs = [bb for bb, ms in ei.site_clears.items() if m in ms]
        app_bbs = sorted(bb for bb, ms in ei.site_appends.items() if m in ms)
        for abb in app_bbs:
            key = "R3a|%s|%s" % (ei.entry.id, m)
            if any(cb in dom.get(abb, set()) and cb != abb for cb in clear_bbs):
                r.ok(sample={"map": m, "append_site": ctx.bin.span_str(E.blocks[abb]["t"][1]["span"]), "cleared": "unconditionally"})
                continue
            # conditional on a bool parameter?
            done = False
            for p, edges in false_edges.items():
                if clear_bbs and not _reach_avoiding(E, 0, abb, removed_nodes=clear_bbs, removed_edges=edges):
                    cond[m] = p
                    rk = "R3a-cond|%s" % m
                    if rk in REVIEWED:
                        r.review(rk, REVIEWED[rk])
                    else:
                        r.violate("R3a|%s|%s|conditional" % (ei.entry.id, m),
                                  "map `%s` is cleared only when parameter `%s` is true: the non-cleaning analysis appends to "
                                  "it a second time when the file was analysed before (document opened before the scan reaches "
                                  "it, or a second scan)" % (m, E.local_name(p)))
                    done = True
                    break
            if not done:
                r.violate(key, "map `%s` is appended to (via %s) without a dominating clear for the analysed file%s" % (
                    m, ctx.bin.span_str(E.blocks[abb]["t"][1]["span"]),
                    "" if clear_bbs else " (no clearing operation for this map in the entry at all)"))
    ctx._cache["r3a_conditional"] = cond
    r.counts["conditional_on_param"] = ",".join("%s:%s" % (m, E.local_name(p)) for m, p in sorted(cond.items()))
    r.floor("maps receiving appends during analysis", len(ei.app), 5)
    return r


def r3b_failure_path_readonly(ctx):
    r = Result("R3b", "every call in the analysis entry that writes (directly or transitively) a map that receives appends, or "
                      "clears one, is dominated by the Ok edge of the parse result: a failed parse leaves the index untouched and "
                      "nothing is written before the parse")
    ei = _entry(ctx)
    if ei.entry is None:
        r.anchor_missing("analysis entry", "not found")
        return r
    E = ei.view
    if ei.ok_bb is None or ei.err_bb is None:
        r.anchor_missing("parse result switch", "the Result of rustpython_parser::parse is not matched by a switch directly after the call")
        return r
    dom = E.dominators()
    app_maps = set(ei.app)
    n = 0
    for bb, c in E.calls():
        writes = ei.site_writes.get(bb, set()) & app_maps
        if not writes:
            continue
        n += 1
        key = "R3b|%s|%s|%s" % (ei.entry.id, (c.get("res") or "?").split("::")[-1], ",".join(sorted(writes)))
        if ei.ok_bb in dom.get(bb, set()):
            r.ok(sample={"write_site": ctx.bin.span_str(c["span"]), "maps": sorted(writes)})
        else:
            r.violate(key, "index maps %s are written at %s on a path that does not require a successful parse" % (
                sorted(writes), ctx.bin.span_str(c["span"])))
    r.floor("index-writing call sites in the entry", n, 4)
    return r


def r3c_reverse_index(ctx):
    r = Result("R3c", "the per-file usage map and its per-name reverse index are written in step: every function appending to one "
                      "appends the same FixtureUsage to the other with neither append conditional on something the other is not; "
                      "every removal from the per-file map is dominated by a by-file clear of the reverse index for the same file "
                      "and every such clear is followed by the removal")
    db = _db(ctx)
    # identify the pair by type: PathBuf -> Vec<FixtureUsage> and String -> Vec<(PathBuf, FixtureUsage)>
    fwd = [n for n, (k, v) in db.maps.items() if k == "std::path::PathBuf" and v == "std::vec::Vec<fixtures::types::FixtureUsage>"]
    rev = [n for n, (k, v) in db.maps.items() if k == "std::string::String" and v == "std::vec::Vec<(std::path::PathBuf, fixtures::types::FixtureUsage)>"]
    if len(fwd) != 1 or len(rev) != 1:
        r.anchor_missing("usage map pair", "forward %s reverse %s" % (fwd, rev))
        return r
    fwd, rev = fwd[0], rev[0]
    r.counts["pair"] = "%s/%s" % (fwd, rev)
    app_f = [op for op in db.append_ops() if op.ident == db.ident(fwd)]
    app_r = [op for op in db.append_ops() if op.ident == db.ident(rev)]
    fns = sorted({op.fn.id for op in app_f} | {op.fn.id for op in app_r})
    n = 0
    for fid in fns:
        f = ctx.bin.fns[fid]
        a = [op for op in app_f if op.fn.id == fid]
        b = [op for op in app_r if op.fn.id == fid]
        n += 1
        key = "R3c|%s|append-pair" % fid
        if len(a) != len(b) or not a:
            r.violate(key, "%s appends to `%s` %d time(s) but to `%s` %d time(s)" % (fid, fwd, len(a), rev, len(b)))
            continue
        dom = f.dominators()
        pdom = f.postdominators()
        good = True
        for x, y in zip(sorted(a, key=lambda o: o.bb), sorted(b, key=lambda o: o.bb)):
            first, second = (x, y) if x.bb in dom.get(y.bb, set()) else (y, x)
            if not (first.bb in dom.get(second.bb, set()) and second.bb in pdom.get(first.bb, set())):
                good = False
        # same usage value: both pushes receive a FixtureUsage built by the same aggregate
        aggs = [(bb, si) for bb, si, pl, rv, sp in f.assigns() if rv[0] == "agg" and rv[1][0] == "adt" and rv[1][1] == "fixtures::types::FixtureUsage"]
        if len(aggs) != len(a):
            good = False
        if good:
            r.ok(sample={"append_pair": fid})
        else:
            r.violate(key, "appends to `%s` and `%s` in %s are not paired on every path / not fed by one FixtureUsage" % (fwd, rev, fid))
    # removals
    rem = [op for op in db.ops_by_map.get(fwd, []) if op.method in ("remove", "remove_if", "clear", "retain")]
    for op in rem:
        f = op.fn
        n += 1
        key = "R3c|%s|remove-pair" % f.id
        dom = f.dominators()
        clear_sites = []
        for bb, c in f.calls():
            if c.get("res_local") and c.get("res") in ctx.bin.fns:
                k = db.clears_by_file(ctx.bin.fns[c["res"]], rev)
                if k is not None:
                    clear_sites.append((bb, c, k))
        ok = any(bb in dom.get(op.bb, set()) for bb, c, k in clear_sites)
        if ok:
            r.ok(sample={"remove_pair": f.id})
        else:
            r.violate(key, "`%s.%s()` in %s at %s is not dominated by a by-file clear of `%s`" % (
                fwd, op.method, f.id, ctx.bin.span_str(op.call["span"]), rev))
    # every by-file clear of the reverse index is followed by removal of the forward entry
    for f in ctx.bin.real_fns():
        if f.kind not in ("method", "fn"):
            continue
        for bb, c in f.calls():
            if c.get("res_local") and c.get("res") in ctx.bin.fns:
                k = db.clears_by_file(ctx.bin.fns[c["res"]], rev)
                if k is None:
                    continue
                n += 1
                key = "R3c|%s|clear-followed" % f.id
                pdom = f.postdominators()
                follow = [op for op in rem if op.fn.id == f.id and op.bb in pdom.get(bb, set())]
                if follow:
                    r.ok()
                else:
                    r.violate(key, "by-file clear of `%s` at %s is not followed on every path by removal of the `%s` entry" % (
                        rev, ctx.bin.span_str(c["span"]), fwd))
    # no other writer kinds
    for m in (fwd, rev):
        for op in db.writes(m):
            if op.method not in ("entry", "remove", "get_mut", "remove_if"):
                r.violate("R3c|%s|%s.%s" % (op.fn.id, m, op.method), "unexpected write `%s.%s()` in %s" % (m, op.method, op.fn.id))
    r.floor("paired usage-map sites", n, 3)
    return r


# ------------------------------------------------------------------------------------- R3e
def _const_bool(op):
    c = op_const(op)
    if c and c.get("t") == "bool" and "v" in c:
        return c["v"] == "1"
    return None


def handler_roots(crate):
    """LSP notification/request handlers: methods of the LanguageServer impl (their coroutine bodies)"""
    out = []
    for f in crate.real_fns():
        if f.kind == "coroutine" and re.match(r"^<impl tower_lsp_server::LanguageServer for [^>]+>::\w+::\{closure#0\}$", f.id):
            out.append(f)
    return out


def r3e_who_skips_cleaning(ctx):
    r = Result("R3e", "the analysis entry is reached with its cleaning flag false only from functions that are not reachable from "
                      "the document-synchronisation handlers (did_open/did_change/did_close), and not from a task that may run in "
                      "parallel with those handlers (closure handed to tokio::spawn / spawn_blocking by a handler)")
    ei = _entry(ctx)
    if ei.entry is None:
        r.anchor_missing("analysis entry", "not found")
        return r
    db = ei.db
    E = ei.entry
    # bool params of the entry that gate a clear
    gates = sorted(set((ctx._cache.get("r3a_conditional") or _compute_conditional(ctx)).values()))
    r.counts["gating_params"] = ",".join(E.local_name(p) or str(p) for p in gates)
    if not gates:
        r.ok(sample={"note": "the entry has no cleaning flag: every analysis cleans"})
        return r
    # wrappers: direct callers passing a constant
    non_cleaning = set()   # functions that (may) reach the entry with flag false
    cleaning = set()
    work = []
    for cf, bb, c in db.origins.callers.get(E.id, []):
        for p in gates:
            v = _const_bool(c["args"][p - 1]) if p - 1 < len(c["args"]) else None
            if v is True:
                cleaning.add(cf.id)
            else:
                non_cleaning.add(cf.id)
    r.counts["non_cleaning_wrappers"] = ",".join(sorted(x.split("::")[-1] for x in non_cleaning))
    r.counts["cleaning_wrappers"] = ",".join(sorted(x.split("::")[-1] for x in cleaning))
    # functions that can reach a non-cleaning wrapper
    def reaches_nc(fid, include_spawn):
        return bool(db.cg.reach([fid], include_spawn=include_spawn) & non_cleaning)
    handlers = handler_roots(ctx.bin)
    sync = [h for h in handlers if any(h.id.endswith("::%s::{closure#0}" % n) for n in ("did_open", "did_change", "did_close", "did_save"))]
    r.counts["sync_handlers"] = len(sync)
    for h in sync:
        key = "R3e|%s|reaches-non-cleaning" % h.id
        if reaches_nc(h.id, include_spawn=True):
            r.violate(key, "handler %s can reach the analysis entry with cleaning disabled (via %s)" % (
                h.id, sorted(db.cg.reach([h.id], include_spawn=True) & non_cleaning)))
        else:
            r.ok(sample={"handler": h.id, "uses": "cleaning entry only"})
    r.floor("document-synchronisation handlers", len(sync), 3)
    return r


def r3e2_parallel_scan(ctx):
    r = Result("R3e2", "no task spawned (tokio::spawn / spawn_blocking) from an LSP handler runs the non-cleaning analysis: such a "
                       "task may run in parallel with did_open/did_change of a file it has not visited yet, whose definitions "
                       "are then appended a second time (or replaced by the older on-disk text)")
    ei = _entry(ctx)
    if ei.entry is None:
        r.anchor_missing("analysis entry", "not found")
        return r
    db = ei.db
    E = ei.entry
    gates = sorted(set((ctx._cache.get("r3a_conditional") or _compute_conditional(ctx)).values()))
    non_cleaning = set()
    for cf, bb, c in db.origins.callers.get(E.id, []):
        for p in gates:
            v = _const_bool(c["args"][p - 1]) if p - 1 < len(c["args"]) else None
            if v is not True:
                non_cleaning.add(cf.id)
    handlers = handler_roots(ctx.bin)
    n_spawn = 0
    for h in handlers:
        hit = set()
        for f_id in sorted(db.cg.reach([h.id], include_spawn=True)):
            for bb, t, via in db.cg.edges.get(f_id, []):
                if via != "spawn":
                    continue
                n_spawn += 1
                nc = db.cg.reach([t], include_spawn=True) & non_cleaning
                hit |= nc
        key = "R3e2|%s|spawns the non-cleaning analysis" % h.id
        if hit:
            r.violate(key, "handler %s spawns a background task that runs the non-cleaning analysis (%s) concurrently with "
                           "did_open/did_change" % (h.id, sorted(x.split("::")[-1] for x in hit)))
        else:
            r.ok()
    r.counts["spawn_edges_from_handlers"] = n_spawn
    r.floor("LSP handlers", len(handlers), 15)
    return r


def _compute_conditional(ctx):
    r3a_clean_before_append(ctx)
    return ctx._cache.get("r3a_conditional") or {}


def r3g_buffer_content(ctx):
    r = Result("R3g", "the cleaning analysis replaces the indexed state of a file that may be open in the editor, so the text it is "
                      "given never originates from a direct filesystem read: it comes from the notification's parameters or from the "
                      "content cache (which holds the editor buffer once a document was opened)")
    ei = _entry(ctx)
    if ei.entry is None:
        r.anchor_missing("analysis entry", "not found")
        return r
    db = ei.db
    E = ei.entry
    gates = sorted(set((ctx._cache.get("r3a_conditional") or _compute_conditional(ctx)).values()))
    cleaning = set()
    for cf, bb, c in db.origins.callers.get(E.id, []):
        if gates and all(_const_bool(c["args"][p - 1]) is True for p in gates if p - 1 < len(c["args"])):
            cleaning.add(cf.id)
    n = 0
    for w in sorted(cleaning):
        wf = ctx.bin.fns[w]
        # the &str parameter of the wrapper
        sp = [i for i in range(1, wf.argc + 1) if wf.local_ty(i) == "&str"]
        if not sp:
            continue
        for cf, bb, c in db.origins.callers.get(w, []):
            n += 1
            terms = db.origins.of_operand(cf, c["args"][sp[0] - 1])
            bad = sorted({t[2] for t in terms if t[0] == "call" and re.search(r"std::fs::(read_to_string|read)$|::read_to_string$", t[2] or "")})
            # also through Option/Result combinators and their closures (`.ok().or_else(..)`, `unwrap_or_else(..)`)
            bad = sorted(set(bad) | {x for x in _slice_calls(ctx.bin, cf, c["args"][sp[0] - 1]) if re.search(r"fs::(read_to_string|read)$", x)})
            key = "R3g|%s|content read from disk" % cf.id
            if bad:
                r.violate(key, "%s passes text read from the filesystem (%s) to the cleaning analysis at %s: an open document's buffer "
                               "is replaced by the older on-disk text" % (cf.id, bad, ctx.bin.span_str(c["span"])))
            else:
                r.ok(sample={"caller": cf.id.split("::")[-1] if "closure" not in cf.id else cf.id.split("::")[-2], "content_from":
                             sorted({(t[2] or "").split("::")[-1] if t[0] == "call" else t[0] for t in terms})[:3]})
    r.floor("call sites of the cleaning analysis", n, 3)
    return r


def _slice_calls(crate, f, op, depth=0, seen=None):
    """resolved names of all calls in the backward slice of an operand (through every argument and passed closure)"""
    seen = seen if seen is not None else set()
    out = set()
    l = op_local(op)
    if l is None or (f.id, l) in seen or depth > 25:
        return out
    seen.add((f.id, l))
    for d in f.defs().get(l, []):
        if d[0] == "call":
            c = d[2]
            out.add(c.get("res") or "?")
            if not (c.get("res_local")):
                for a in c["args"]:
                    out |= _slice_calls(crate, f, a, depth + 1, seen)
                for cid, loc in c.get("clos", []):
                    cf = crate.fns.get(cid)
                    if cf is not None:
                        for _bb, c2 in cf.calls():
                            out.add(c2.get("res") or "?")
        elif d[0] == "assign":
            rv = d[3]
            for o in ([rv[1]] if rv[0] == "use" else [["cp", rv[2]]] if rv[0] == "ref" else rv[2] if rv[0] == "agg" else [rv[2]] if rv[0] == "cast" else []):
                if isinstance(o, list):
                    out |= _slice_calls(crate, f, o, depth + 1, seen)
    return out


def r3h_wrappers_always_analyse(ctx):
    r = Result("R3h", "every wrapper of the analysis entry (the public `analyze` entry points) reaches the entry on every path: an "
                      "early return (e.g. 'text unchanged') skips a re-analysis whose outcome also depends on other files")
    ei = _entry(ctx)
    if ei.entry is None:
        r.anchor_missing("analysis entry", "not found")
        return r
    E = ei.entry
    n = 0
    for cf, bb, c in ei.db.origins.callers.get(E.id, []):
        n += 1
        pdom = cf.postdominators()
        key = "R3h|%s" % cf.id
        if bb in pdom.get(0, set()):
            r.ok(sample={"wrapper": cf.id.split("::")[-1], "always_analyses": True})
        else:
            r.violate(key, "%s can return without calling the analysis entry" % cf.id)
    r.floor("wrappers of the analysis entry", n, 2)
    return r


def r3i_every_analysis_parses(ctx):
    r = Result("R3i", "(i) the analysis entry hands the text it was given to the Python parser on every path (the parser call "
                      "post-dominates the entry in the view with local helpers spliced in): an early return on a matching content "
                      "hash / cache stamp keeps the index of whatever text was analysed last under that stamp, and stamps are also "
                      "written by read-only paths with on-disk text. (ii) the stored text of a document is dropped only by a "
                      "function the scan and the analysis cannot reach (the close handler's clean-up), or behind a capacity test of "
                      "the store (eviction): text dropped at the end of the scan discards the buffer of a document opened while the "
                      "scan ran, and position-based features fall back to the on-disk text")
    ei = _entry(ctx)
    if ei.entry is None:
        r.anchor_missing("analysis entry", "not found")
        return r
    E = ei.entry
    g = ctx.inl(E, depth=2)
    sites = [bb for bb, c in g.calls() if (c.get("res") or "").startswith("rustpython_parser::")]
    pd = g.postdominators().get(0, set())
    if sites and any(bb in pd for bb in sites):
        r.ok(sample={"entry": E.id.split("::")[-1], "parser_call_postdominates_entry": True})
    else:
        r.violate("R3i|%s|returns-without-parsing" % E.id, "%s can return without parsing the text it was given" % E.id)
    # (ii)
    db = ei.db
    ts = db.text_store()
    if ts is None:
        r.anchor_missing("text store", "no unique PathBuf -> Arc<String> map")
        return r
    from .r10 import discovery_fn
    roots = {E.id}
    walk = discovery_fn(ctx)
    if walk is not None:
        roots.add(walk.id)
    reach = ctx.callgraph().reach(sorted(roots), include_spawn=True)
    n = 0
    for op in db.ops_by_map.get(ts, []):
        if op.mode != "X" or op.method not in ("remove", "remove_if", "retain", "clear"):
            continue
        n += 1
        f = op.fn
        dom = f.dominators().get(op.bb, set())
        cap = any(o2.fn.id == f.id and o2.method == "len" and o2.bb in dom for o2 in db.ops_by_map.get(ts, []))
        if not cap:
            # the capacity test may sit in the caller(s) when the eviction is split into phases (`victims()` + `evict(paths)`)
            callers = db.origins.callers.get(f.root, [])
            cap = bool(callers) and all(
                any(o2.fn.id == cf.id and o2.method == "len" and o2.bb in cf.dominators().get(cbb, set()) for o2 in db.ops_by_map.get(ts, []))
                for cf, cbb, _c in callers)
        key = "R3i|%s|%s.%s" % (f.root, ts, op.method)
        if cap:
            r.ok(sample={"drop": key, "why": "behind a capacity test"})
        elif f.root not in reach and f.id not in reach:
            r.ok(sample={"drop": key, "why": "not reachable from the scan or the analysis"})
        else:
            r.violate(key, "%s drops stored document text at %s: it is reachable from the scan / the analysis and is not an "
                           "eviction behind a capacity test" % (f.root, ctx.bin.span_str(op.call["span"])))
    r.floor("drops from the text store", n, 2)
    return r


def r3j_references_decided_by_resolution(ctx):
    r = Result("R3j", "the reference collector (by role: takes a definition, returns the usages that refer to it) decides by "
                      "re-resolving each candidate usage and comparing the answer with the definition; it does not reason about "
                      "visibility itself: it reads no origin flag (is_third_party / is_plugin) of a definition and makes no "
                      "path-prefix test (`Path::starts_with`). A shortcut of the kind 'a conftest fixture is only visible below "
                      "its directory' is wrong exactly where go-to-definition is subtle (imports, pytest_plugins, overrides), and "
                      "references stop being the inverse of go-to-definition there")
    from .r8 import _definition_fields_read
    crate = ctx.bin
    n = 0
    db = _db(ctx)
    # by role: reads (does not write) the per-name reverse index of usages and is handed the definition asked about
    rev = [m for m, (k, v) in db.maps.items() if k == "std::string::String" and "FixtureUsage" in v]
    readers = {op.fn.root for m in rev for op in db.ops_by_map.get(m, []) if op.mode == "S"} - \
              {op.fn.root for m in rev for op in db.ops_by_map.get(m, []) if op.mode == "X"}
    for f in crate.real_fns():
        if f.id not in readers or f.kind not in ("fn", "method"):
            continue
        tys = [f.local_ty(i) for i in range(1, f.argc + 1)]
        if not any(t.lstrip("&").endswith("::FixtureDefinition") for t in tys):
            continue
        n += 1
        fam = [g for g in crate.real_fns() if g.root == f.id]
        reads = set()
        for g in fam:
            reads |= _definition_fields_read(g)
        flags = sorted(reads & {"is_third_party", "is_plugin"})
        prefix = [crate.span_str(c["span"]) for g in fam for _b, c in g.calls()
                  if re.search(r"path::Path::(starts_with|ends_with|strip_prefix|ancestors)$", c.get("res") or "") and not c["span"][4].startswith("macro:")]
        key = "R3j|%s|reference collector reasons about visibility" % f.id
        if flags or prefix:
            r.violate(key, "%s %s: candidates are dropped without asking the resolver" % (
                f.id.split("::")[-1], ("reads " + ", ".join(flags)) if flags else ("tests a path prefix at " + prefix[0])))
        else:
            r.ok(sample={"collector": f.id.split("::")[-1], "definition fields read": sorted(reads)})
    r.floor("reference collectors", n, 1)
    return r


def r3k_definition_index_in_step(ctx):
    r = Result("R3k", "the per-name definition map and its per-file reverse index (PathBuf -> set of names, the one the clean-up of a "
                      "re-analysis walks) are appended in step: in every function that appends to one, an append to the other lies "
                      "on every path through it (dominance one way, post-dominance the other). A reverse-index entry skipped "
                      "'because the name is indexed already' leaves that file's definition out of the next clean-up: it survives "
                      "the re-analysis of its file, and only when another file defined the name first")
    db = _db(ctx)
    crate = ctx.bin
    fwd = [n for n, (k, v) in db.maps.items() if k == "std::string::String" and re.search(r"Vec<[^>]*FixtureDefinition>", v)]
    rev = [n for n, (k, v) in db.maps.items() if k == "std::path::PathBuf" and re.search(r"HashSet<std::string::String", v)]
    # the reverse index of definitions is the set-valued per-file map that the definition clean-up removes from
    rev = [m for m in rev if any(op.method in ("remove", "remove_if") for op in db.ops_by_map.get(m, []))
           and any(op.fn.root in {o.fn.root for o in db.ops_by_map.get(fwd[0], []) if o.method in ("get_mut", "remove_if")}
                   for op in db.ops_by_map.get(m, []) if op.method in ("remove", "remove_if"))] if len(fwd) == 1 else []
    if len(fwd) != 1 or len(rev) != 1:
        r.anchor_missing("definition map pair", "forward %s reverse %s" % (fwd, rev))
        return r
    fwd, rev = fwd[0], rev[0]
    r.counts["pair"] = "%s/%s" % (fwd, rev)
    app_f = [op for op in db.append_ops() if op.ident == db.ident(fwd)]
    app_r = [op for op in db.append_ops() if op.ident == db.ident(rev)]
    n = 0
    for fid in sorted({op.fn.id for op in app_f} | {op.fn.id for op in app_r}):
        f = crate.fns[fid]
        a = [op for op in app_f if op.fn.id == fid]
        b = [op for op in app_r if op.fn.id == fid]
        n += 1
        key = "R3k|%s|append-pair" % fid
        if not a or not b:
            r.violate(key, "%s appends to `%s` %d time(s) but to `%s` %d time(s)" % (fid, fwd, len(a), rev, len(b)))
            continue
        dom = f.dominators()
        pdom = f.postdominators()
        good = all(any((x.bb in dom.get(y.bb, set()) and y.bb in pdom.get(x.bb, set())) or
                       (y.bb in dom.get(x.bb, set()) and x.bb in pdom.get(y.bb, set())) for y in b) for x in a)
        if good:
            r.ok(sample={"append_pair": fid.split("::")[-1]})
        else:
            r.violate(key, "in %s an append to `%s` is not matched by an append to `%s` on every path" % (fid, fwd, rev))
    r.floor("functions appending definitions", n, 1)
    return r
