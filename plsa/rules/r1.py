"""R1 lock discipline and recursion guards (C12, also used by C14)."""
import os
import re
from collections import defaultdict

from ..check import Result
from ..core import op_local, op_place, place_local, place_projs, proj_fields
from ..reviewed import REVIEWED


def dashmap_version(repo):
    try:
        txt = open(os.path.join(repo, "Cargo.lock")).read()
    except OSError:
        return None
    m = re.search(r'name = "dashmap"\nversion = "([^"]+)"', txt)
    return m.group(1) if m else None


def short(fid):
    return fid


def conflict(family_w, w, family_h, h):
    if "tokio" in (family_w, family_h):
        return True  # tokio's RwLock is fair: a queued writer blocks later readers
    return not (w == "S" and h == "S")


def r1a_reentrancy(ctx):
    r = Result("R1a", "no call path re-acquires a lock it already holds unless both acquisitions are shared DashMap "
                      "guards (dashmap 6.1.0's shard lock is reader-preferring); receivers of all lock operations "
                      "resolve to one struct field; every DashMap method used is classified")
    lm = ctx.lock_model()
    ver = dashmap_version(ctx.repo)
    r.counts["dashmap_version"] = ver
    r.counts["lock_ops"] = len(lm.ops)
    r.counts["locks"] = len(lm.lock_ids())
    for u in lm.unresolved:
        r.violate("R1a|%s|unresolved-receiver|%s" % (u[0], u[2]), "lock receiver does not resolve to one struct field at %s: %s %s" % (u[1], u[3], u[4]))
    for u in lm.unclassified:
        r.violate("R1a|%s|unclassified-op|%s" % (u[0], u[2]), "DashMap method not in the mode table at %s" % u[1])
    for op in lm.ops:
        r.ok(sample={"lock_op": "%s %s(%s) in %s" % (op.ident, op.method, op.mode, op.fn.id)} if len(r.samples) < 3 else None)
    for ((h, hm), (w, wm)), wits in sorted(lm.edges.items()):
        if h != w:
            continue
        fam = h.split("|")[0]
        safe = fam == "dashmap" and hm == "S" and wm == "S" and ver == "6.1.0"
        seen = set()
        for fid, where, via in wits:
            key = "R1a|%s|%s:%s->%s|via %s" % (fid, h, hm, wm, via)
            if key in seen:
                continue
            seen.add(key)
            if safe:
                r.ok(sample={"reentrant_shared": key} if len(r.samples) < 5 else None)
            else:
                r.violate(key, "re-entrant acquisition of %s (held %s, wants %s) at %s via %s%s" % (
                    h, hm, wm, where, via,
                    "" if ver == "6.1.0" else " [dashmap %s is not the reviewed 6.1.0: shared re-entrancy not accepted]" % ver))
    r.floor("lock operations", len(lm.ops), 90)
    r.floor("lock identities", len(lm.lock_ids()), 15)
    r.floor("call sites with a guard alive", lm.sites_with_held, 300)
    return r


def r1b_order(ctx):
    r = Result("R1b", "the lock-order graph (guard alive at a call -> locks the callee may acquire, transitively) has no "
                      "cycle whose every hand-over conflicts (S/S on DashMap never conflicts)")
    lm = ctx.lock_model()
    classes = [e for e in lm.edges if e[0][0] != e[1][0]]
    r.counts["edge_classes"] = len(classes)
    # derived graph over edge classes
    adj = defaultdict(list)
    for e in classes:
        (a, ah), (b, bw) = e
        for e2 in classes:
            (c, ch), (d, dw) = e2
            if c == b and conflict(b.split("|")[0], bw, c.split("|")[0], ch):
                adj[e].append(e2)
    # find cycles (Tarjan SCC on derived graph)
    index = {}
    low = {}
    st = []
    on = set()
    sccs = []
    cnt = [0]

    def strong(v):
        index[v] = low[v] = cnt[0]
        cnt[0] += 1
        st.append(v)
        on.add(v)
        for w in adj.get(v, []):
            if w not in index:
                strong(w)
                low[v] = min(low[v], low[w])
            elif w in on:
                low[v] = min(low[v], index[w])
        if low[v] == index[v]:
            comp = []
            while True:
                w = st.pop()
                on.discard(w)
                comp.append(w)
                if w == v:
                    break
            if len(comp) > 1 or v in adj.get(v, []):
                sccs.append(comp)

    for e in classes:
        if e not in index:
            strong(e)
    for e in classes:
        r.ok(sample={"order_edge": "%s(%s) -> %s(%s) e.g. %s" % (e[0][0], e[0][1], e[1][0], e[1][1], lm.edges[e][0][1])}
             if len(r.samples) < 4 else None)
    for comp in sccs:
        locks = sorted({e[0][0] for e in comp} | {e[1][0] for e in comp})
        key = "R1b|cycle|%s" % ",".join(locks)
        wit = []
        for e in sorted(comp)[:6]:
            w = lm.edges[e][0]
            wit.append("%s(%s)->%s(%s) in %s at %s via %s" % (e[0][0], e[0][1], e[1][0], e[1][1], w[0], w[1], w[2]))
        r.violate(key, "lock-order cycle over %s: %s" % (locks, "; ".join(wit)))
    r.floor("lock-order edge classes", len(classes), 25)
    return r


def r1c_await(ctx):
    r = Result("R1c", "no DashMap or std::sync guard may be alive at a coroutine suspension point (Yield)")
    lm = ctx.lock_model()
    n = sum(1 for f in ctx.bin.real_fns() for b in f.blocks if b["t"][0] == "yield")
    r.counts["yields_in_functions_with_guards"] = len(lm.yield_held)
    for fid, bb, held in lm.yield_held:
        bad = sorted(x for x in held if not x[0].startswith("tokio|"))
        f = ctx.bin.fns[fid]
        if bad:
            where = ctx.bin.span_str(f.blocks[bb]["t"][5])
            r.violate("R1c|%s|%s" % (fid, ",".join("%s:%s" % b for b in bad)),
                      "blocking guard(s) %s alive across .await at %s" % (bad, where))
        else:
            r.ok(sample={"yield": fid, "held_async_guards": sorted(held)} if held and len(r.samples) < 3 else None)
    r.counts["yields"] = n
    r.floor("suspension points", n, 20)
    return r


def r1f_no_try_lock(ctx):
    r = Result("R1f", "no non-blocking acquisition (try_lock / try_read / try_write / try_get / try_get_mut / try_entry) of a lock "
                      "or concurrent map of the repository: its failure branch is taken depending on what other threads happen to "
                      "hold, so whatever it computes there is schedule dependent; every such site must be reviewed")
    lm = ctx.lock_model()
    n = 0
    for op in lm.ops:
        n += 1
        if op.method.startswith("try_"):
            key = "R1f|%s|%s.%s" % (op.fn.id, op.ident.split("|")[-1].split(".")[-1], op.method)
            if key in REVIEWED:
                r.review(key, REVIEWED[key])
            else:
                r.violate(key, "%s: `%s()` on %s at %s: the contended outcome is handled by a fallback, which makes the result "
                               "depend on the thread schedule" % (op.fn.id, op.method, op.ident, ctx.bin.span_str(op.call["span"])))
        else:
            r.ok()
    r.floor("lock operations", n, 60)
    return r


AST_PREFIXES = ("rustpython_parser::rustpython_ast::", "rustpython_ast::")


def _is_fn_ty(f, l):
    return f.local_ty(l).lstrip("&").lstrip("mut ").startswith(("{closure@", "fn(", "{async", "for<"))


def _ast_typed(f, l):
    if _is_fn_ty(f, l):
        return False
    for a in f.local_adts(l):
        if a.startswith(AST_PREFIXES):
            return True
        # a repository struct that merely groups AST nodes / statement slices (a parameter group introduced by a refactoring)
        adt = f.crate.adts.get(a)
        if adt is not None and adt.get("kind") == "struct" and adt["variants"] and \
                any(any(pfx in fld["ty"] for pfx in AST_PREFIXES) for fld in adt["variants"][0]["fields"]):
            return True
    return False


def _derive_from_param(f, l, depth=0, seen=None, had_field=False):
    """backward through AST-typed values: set of (root, had_field) where root is ('param', i) or ('other', why)"""
    if seen is None:
        seen = set()
    if (l, had_field) in seen or depth > 60:
        return set()
    seen.add((l, had_field))
    out = set()
    for d in f.defs().get(l, []):
        if d[0] == "arg":
            out.add((("param", d[1]), had_field))
        elif d[0] == "yield":
            out.add((("other", "resume"), had_field))
        elif d[0] == "call":
            c = d[2]
            srcs = []
            # taking an element out of a collection of nodes is a strict descent too (list of statements > one statement)
            elem_step = bool(re.search(r"Iterator>::next$|Iterator::next$|::next_back$|ops::Index<.*>>::index$|<impl \[T\]>::(first|last|get)$|Option::<T>::as_deref$",
                                       (c.get("res") or "") + " " + (c.get("fn") or "")))
            for a in c["args"]:
                p = op_place(a)
                if p is None:
                    continue
                sl = place_local(p)
                if _ast_typed(f, sl):
                    hf = had_field or elem_step or any(o.startswith(AST_PREFIXES) for o, _n in proj_fields(place_projs(p)))
                    srcs.append((sl, hf))
            if not srcs:
                out.add((("other", "call:" + (c.get("res") or "?")), had_field))
            for sl, hf in srcs:
                out |= _derive_from_param(f, sl, depth + 1, seen, hf)
        else:
            rv = d[3]
            k = rv[0]
            places = []
            if k == "use" or k == "cast":
                p = op_place(rv[1] if k == "use" else rv[2])
                if p is not None:
                    places.append(p)
            elif k in ("ref", "rawptr"):
                places.append(rv[2] if k == "ref" else rv[1])
            elif k == "agg":
                for o in rv[2]:
                    p = op_place(o)
                    if p is not None and _ast_typed(f, place_local(p)):
                        places.append(p)
            elif k == "discr":
                continue
            if not places:
                out.add((("other", k), had_field))
            for p in places:
                sl = place_local(p)
                hf = had_field or any(o.startswith(AST_PREFIXES) for o, _n in proj_fields(place_projs(p)))
                if sl == 1 and f.kind in ("closure", "coroutine") and proj_fields(place_projs(p)) and proj_fields(place_projs(p))[0][0].startswith("closure:"):
                    # captured variable: continue in the function that built the closure
                    idx = [e[1] for e in place_projs(p) if isinstance(e, list) and e[0] == "f"][0]
                    site = f.crate.closure_sites().get(f.id)
                    cap = None
                    if site is not None and idx < len(site[3]):
                        cap = op_place(site[3][idx])
                    if cap is None:
                        out.add((("other", "upvar"), hf))
                    else:
                        pf = site[0]
                        hf2 = hf or any(o.startswith(AST_PREFIXES) for o, _n in proj_fields(place_projs(cap)))
                        for root, h in _derive_from_param(pf, place_local(cap), depth + 1, None, hf2):
                            out.add((("upvar-" + root[0],) + tuple(root[1:]), h))
                else:
                    out |= _derive_from_param(f, sl, depth + 1, seen, hf)
    return out


def _derive_from_param_any(f, l, depth=0, seen=None):
    """like _derive_from_param, for values of any type: the parameters a local is computed from through copies, refs and calls"""
    seen = seen if seen is not None else set()
    if l is None or l in seen or depth > 30:
        return set()
    seen.add(l)
    out = set()
    for d in f.defs().get(l, []):
        if d[0] == "arg":
            out.add((("param", d[1]), False))
        elif d[0] == "call":
            srcs = [op_local(a) for a in d[2]["args"] if op_local(a) is not None]
            if not srcs:
                out.add((("other", "call"), False))
            for sl in srcs[:1]:
                out |= _derive_from_param_any(f, sl, depth + 1, seen)
        elif d[0] == "assign":
            rv = d[3]
            srcs = [op_local(rv[1])] if rv[0] == "use" else [place_local(rv[2])] if rv[0] == "ref" else [op_local(rv[2])] if rv[0] == "cast" else []
            if not srcs:
                out.add((("other", rv[0]), False))
            for sl in srcs:
                out |= _derive_from_param_any(f, sl, depth + 1, seen)
        else:
            out.add((("other", d[0]), False))
    return out


def _strict(f, x):
    """root acceptable as a strict sub-node: a (captured) parameter reached through an AST field projection, or --
    inside a closure -- the element parameter the adaptor hands to the closure (strictness is established on the
    edge that passed the closure to the adaptor)"""
    root, had_field = x
    if root[0] in ("param", "upvar-param") and had_field:
        return True
    if root[0] == "param" and f.kind == "closure" and root[1] >= 2:
        return True
    return False


def classify_scc(ctx, crate, cg, comp):
    """('structural'|'visited-set'|'unknown', detail)"""
    comp_set = set(comp)
    # ---- visited-set: one function guards every cycle
    for fid in comp:
        f = crate.fns[fid]
        vis = [i for i in range(1, f.argc + 1) if f.local_ty(i).startswith("&mut std::collections::HashSet<")]
        if not vis:
            continue
        # all cycles pass through f?
        rest = comp_set - {fid}
        sub_cyclic = False
        if rest:
            adj = {n: {t for _bb, t, _v in cg.callees(n) if t in rest} for n in rest}
            # cycle detection in rest
            color = {}

            def dfs(n):
                color[n] = 1
                for t in adj[n]:
                    if color.get(t) == 1:
                        return True
                    if t not in color and dfs(t):
                        return True
                color[n] = 2
                return False
            sub_cyclic = any(n not in color and dfs(n) for n in rest)
        if sub_cyclic:
            continue
        # in f: contains(visited, k) guarding an early return; insert(visited, k) dominating all in-SCC calls
        v = vis[0]
        contains_bb = insert_bb = None
        for bb, c in f.calls():
            res = c.get("res") or ""
            if res.startswith("std::collections::HashSet::<T, S>::contains") or res.startswith("std::collections::HashSet::<T, S, A>::contains"):
                if _refers_to(f, c["args"][0], v):
                    contains_bb = bb
            if res.startswith("std::collections::HashSet::<T, S>::insert") or res.startswith("std::collections::HashSet::<T, S, A>::insert"):
                if _refers_to(f, c["args"][0], v):
                    insert_bb = bb
        if insert_bb is None:
            continue
        dom = f.dominators()
        rec_calls = [bb for bb, t, _v in cg.callees(fid) if t in comp_set]
        if contains_bb is None:
            # `if !visited.insert(k) { return .. }`: the insert is the test -- its bool result must branch, and one side must
            # leave without reaching any in-SCC call
            if not all(insert_bb in dom.get(bb, set()) for bb in rec_calls):
                continue
            tgt = f.blocks[insert_bb]["t"][1]["target"]
            sw = f.blocks[tgt]["t"] if tgt is not None else None
            if not sw or sw[0] != "switch" or op_local(sw[1]) != place_local(f.blocks[insert_bb]["t"][1]["dest"]):
                continue
            succs = f.succs(tgt)
            cut = [s2 for s2 in succs if not any(_reaches(f, s2, rb) for rb in rec_calls)]
            if not cut:
                continue
        else:
            if not all(insert_bb in dom.get(bb, set()) and contains_bb in dom.get(bb, set()) for bb in rec_calls):
                continue
            # the contains() result must branch: one side returns without reaching the insert
            tgt = f.blocks[contains_bb]["t"][1]["target"]
            sw = f.blocks[tgt]["t"] if tgt is not None else None
            if not sw or sw[0] != "switch":
                continue
            succs = f.succs(tgt)
            reach_insert = [s for s in succs if _reaches(f, s, insert_bb)]
            if len(reach_insert) == len(succs):
                continue  # both sides go on to insert -> the test does not cut the recursion
        # every in-SCC call into a function with a visited-set parameter must forward the caller's own set:
        # a fresh set on one recursive edge makes the guard forget the path
        fresh = []
        for gid in comp:
            g = crate.fns[gid]
            gvis = [i for i in range(1, g.argc + 1) if g.local_ty(i) == f.local_ty(v)]
            for bb, t, via in cg.callees(gid):
                if t not in comp_set or via != "direct":
                    continue
                tf = crate.fns[t]
                tvis = [i for i in range(1, tf.argc + 1) if tf.local_ty(i) == f.local_ty(v)]
                if not tvis:
                    continue
                c = g.blocks[bb]["t"][1]
                for i in tvis:
                    if i - 1 < len(c["args"]) and not any(_refers_to(g, c["args"][i - 1], gv) for gv in gvis):
                        fresh.append("%s -> %s" % (gid.split("::")[-1], t.split("::")[-1]))
        if fresh:
            return "unknown", "recursive call(s) %s pass a set that is not the caller's visited parameter" % sorted(set(fresh))
        return "visited-set", "%s: contains/insert on parameter `%s` dominate every in-SCC call" % (fid, f.local_name(v))
    # ---- structural recursion over the AST
    problems = []
    same_edges = []
    n_calls = 0
    for fid in comp:
        f = crate.fns[fid]
        for bb, t, via in cg.callees(fid):
            if t not in comp_set:
                continue
            tf = crate.fns[t]
            c = f.blocks[bb]["t"][1]
            n_calls += 1
            c_args = c["args"]
            if via != "direct" and c.get("fn") in ("std::ops::Fn::call", "std::ops::FnMut::call_mut", "std::ops::FnOnce::call_once") \
                    and tf.kind == "closure" and len(c["args"]) == 2 and op_local(c["args"][1]) is not None:
                # a local closure invoked by name (`in_block(&node.body)`): the arguments travel in a tuple; unpack it and
                # treat the call like a direct call of the closure body (_1 = environment, _2.. = the tuple's elements)
                tup = [d for d in f.whole_defs(op_local(c["args"][1])) if d[0] == "assign" and d[3][0] == "agg" and d[3][1][0] == "tuple"]
                if len(tup) == 1:
                    c_args = [c["args"][0]] + list(tup[0][3][2])
                    via = "direct"
            if via != "direct" and tf.kind == "closure":
                # is the closure itself an argument of this call, or does it merely occur in the captures of another
                # closure that is (`.or_else(|| in_block(..))` mentions `in_block` in the thunk's type)?  In the second case
                # the thunk invokes it, and that call is an edge of its own.
                tag = "{closure@%s:%d:" % (tf.file, tf.line)
                if not any(op_local(a) is not None and f.local_ty(op_local(a)).lstrip("&mut ").lstrip("&").startswith(tag) for a in c["args"]) \
                        and any(op_local(a) is not None and "{closure@" in f.local_ty(op_local(a)) for a in c["args"]):
                    n_calls -= 1
                    continue
            if via != "direct":
                # a closure of the SCC handed to an iterator adaptor etc.: the element it receives is
                # produced from the receiver; check the receiver/args of this call
                ast_args = [a for a in c["args"] if op_local(a) is not None and _ast_typed(f, op_local(a))
                            and not f.local_ty(op_local(a)).lstrip("&").startswith(("{closure@", "fn(", "{async"))]
                if not ast_args:
                    if tf.kind == "closure" and tf.argc <= 1:
                        # a thunk (`.or_else(|| ...)`): the adaptor hands it nothing; its own calls are checked through
                        # the captured variables
                        continue
                    # the receiver is a generic iterable handed in by the caller (`blocks: impl IntoIterator<Item = &[Stmt]>`) and
                    # the closure's element parameter is AST-typed: the closure gets elements of what the caller passed --
                    # no descent on this edge, and none lost (the descent is on the edge that built the iterable)
                    gen_args = [a for a in c["args"] if op_local(a) is not None and not _is_fn_ty(f, op_local(a))]
                    if tf.kind == "closure" and any(_ast_typed(tf, i) for i in range(2, tf.argc + 1)) and gen_args and \
                            all(x[0][0] in ("param", "upvar-param") for a in gen_args[:1]
                                for x in (_derive_from_param_any(f, op_local(a)) or {(("other", "?"), False)})):
                        same_edges.append((fid, t))
                        continue
                    # closure invoked with elements of a non-AST collection
                    problems.append("%s -> %s via %s without an AST-typed argument" % (fid, t, via))
                    continue
                for a in ast_args:
                    p = op_place(a)
                    # the adaptor hands ELEMENTS of this collection / iterator to the closure: an element of a collection that
                    # derives from a parameter is already a strict sub-node
                    roots = _derive_from_param(f, place_local(p), had_field=True)
                    bad = [x for x in roots if not _strict(f, x)]
                    if bad:
                        problems.append("%s -> %s: argument not a strict sub-node: %s" % (fid, t, sorted(bad)[:3]))
                continue
            # a parameter counts as AST-typed by its declared type, or -- for a generic parameter -- by the type of the argument
            ast_params = [i for i in range(1, tf.argc + 1) if _ast_typed(tf, i) or
                          (i - 1 < len(c_args) and op_local(c_args[i - 1]) is not None and _ast_typed(f, op_local(c_args[i - 1]))
                           and not re.match(r"^&?(mut )?(std::|core::|alloc::|u\d|i\d|bool|usize|str)", tf.local_ty(i)))]
            if not ast_params:
                problems.append("%s -> %s has no AST-typed parameter" % (fid, t))
                continue
            ok_any = False
            all_from_params = True
            for i in ast_params:
                if i - 1 >= len(c_args):
                    continue
                a = c_args[i - 1]
                p = op_place(a)
                if p is None:
                    continue
                roots = _derive_from_param(f, place_local(p), had_field=any(o.startswith(AST_PREFIXES) for o, _ in proj_fields(place_projs(p))))
                if roots and all(_strict(f, x) for x in roots):
                    ok_any = True
                if not roots or not all(x[0][0] in ("param", "upvar-param") for x in roots):
                    all_from_params = False
            if ok_any:
                continue
            if all_from_params:
                # the callee receives the caller's own node(s) unchanged (a helper that only forwards: `visit_block(body)`):
                # no descent on this edge, which is harmless as long as no cycle consists of such edges only
                same_edges.append((fid, t))
                continue
            problems.append("%s -> %s: no AST-typed argument is a strict sub-node of the caller's parameter" % (fid, t))
    if not problems and same_edges:
        adj = defaultdict(set)
        for a_, b_ in same_edges:
            adj[a_].add(b_)
        color = {}

        def cyc(n):
            color[n] = 1
            for t2 in adj.get(n, ()):
                if color.get(t2) == 1 or (t2 not in color and cyc(t2)):
                    return True
            color[n] = 2
            return False
        if any(n not in color and cyc(n) for n in list(adj)):
            problems.append("a cycle of calls that only forward the same node: %s" % sorted(set(same_edges))[:3])
    if not problems and n_calls:
        return "structural", "%d in-SCC call(s): each passes a strict sub-node of an AST parameter, or forwards its node on an edge that lies on no descent-free cycle" % n_calls
    return "unknown", "; ".join(problems[:4])


def _refers_to(f, op, target_local, depth=0):
    l = op_local(op)
    if l is None:
        return False
    if l == target_local:
        return True
    if depth > 8:
        return False
    for d in f.whole_defs(l):
        if d[0] == "assign":
            rv = d[3]
            if rv[0] == "use":
                if _refers_to(f, rv[1], target_local, depth + 1):
                    return True
            elif rv[0] == "ref":
                if place_local(rv[2]) == target_local or _refers_to(f, ["cp", rv[2]], target_local, depth + 1):
                    return True
    return False


def _reaches(f, a, b):
    seen = {a}
    st = [a]
    while st:
        x = st.pop()
        if x == b:
            return True
        for s in f.succs(x):
            if s not in seen:
                seen.add(s)
                st.append(s)
    return False


def r1d_recursion(ctx):
    r = Result("R1d", "every call-graph SCC is structural recursion over the Python AST (each in-SCC call passes a strict "
                      "sub-node of an AST-typed parameter) or is cut by a visited set whose contains-test and insert "
                      "dominate every in-SCC call; anything else must be in the reviewed table")
    crate = ctx.bin
    cg = ctx.callgraph()
    sccs = cg.sccs()
    r.counts["sccs"] = len(sccs)
    kinds = defaultdict(int)
    for comp in sccs:
        kind, detail = classify_scc(ctx, crate, cg, comp)
        key = "R1d|%s" % "+".join(comp)
        kinds[kind] += 1
        if kind in ("structural", "visited-set"):
            r.ok(sample={"scc": comp, "class": kind, "why": detail} if len(r.samples) < 4 else None)
        elif key in REVIEWED:
            r.review(key, REVIEWED[key])
        else:
            r.violate(key, "recursive SCC %s is neither structural over the AST nor guarded by a visited set: %s" % (comp, detail))
    r.counts.update({"scc_" + k: v for k, v in kinds.items()})
    if cg.unresolved_param_calls:
        for fid, bb, targs in cg.unresolved_param_calls:
            r.violate("R1d|%s|unresolved-fn-param-call" % fid, "call through a generic Fn parameter with no known closure: %s" % targs)
    r.floor("recursive SCCs", len(sccs), 10)
    return r
