"""R2: shared per-name vectors are mutated atomically and only for the own file (C09)."""
import re
from collections import defaultdict
from ..check import Result
from ..facts import DbInfo, closure_predicate_shape
from ..core import op_local, place_local
from ..reviewed import REVIEWED

ALLOWED_SHARED_WRITES = {"entry", "get_mut", "remove_if", "try_entry"}


def _db(ctx):
    return ctx.memo("dbinfo", lambda: DbInfo(ctx))


def r2a_atomic_ops(ctx):
    r = Result("R2a", "name-keyed maps holding vectors of records from many files (selected by type: DashMap<String, Vec<_>>) "
                      "are written only through entry()/get_mut() in-place mutation or remove_if(); whole-value insert, "
                      "unconditional remove, retain/clear/alter on the map would lose concurrent updates of other files")
    db = _db(ctx)
    if db.missing:
        r.anchor_missing("FixtureDatabase", "struct definition not found in facts")
        return r
    shared = db.shared_by_name()
    r.counts["shared_maps"] = ",".join(shared)
    n = 0
    for m in shared:
        for op in db.ops_by_map.get(m, []):
            if op.mode != "X":
                continue
            n += 1
            key = "R2a|%s|%s.%s" % (op.fn.id, m, op.method)
            if op.method in ALLOWED_SHARED_WRITES:
                r.ok(sample={"shared_write": key})
            elif key in REVIEWED:
                r.review(key, REVIEWED[key])
            else:
                r.violate(key, "non-atomic / whole-value write `%s.%s()` in %s at %s" % (
                    m, op.method, op.fn.id, ctx.bin.span_str(op.call["span"])))
    r.floor("shared maps (String -> Vec)", len(shared), 2)
    r.floor("guarded writes on shared maps", n, 6)
    return r


def r2b_remove_if(ctx):
    r = Result("R2b", "every remove_if on a shared per-name map removes only entries that are empty at the moment of removal: "
                      "the predicate closure is exactly `is_empty()` of its value parameter")
    db = _db(ctx)
    n = 0
    for m in db.shared_by_name():
        for op in db.ops_by_map.get(m, []):
            if op.method != "remove_if":
                continue
            n += 1
            key = "R2b|%s|%s.remove_if" % (op.fn.id, m)
            clos = [cid for cid, loc in op.call.get("clos", []) if loc and cid in ctx.bin.fns]
            if len(clos) != 1:
                r.violate(key, "remove_if predicate is not a single local closure (%s)" % clos)
                continue
            cf = ctx.bin.fns[clos[0]]
            calls = [(bb, c) for bb, c in cf.calls() if not c["span"][4].startswith("macro:")]
            good = False
            if len(calls) == 1:
                bb, c = calls[0]
                if (c.get("res") or "").endswith("::is_empty") and place_local(c["dest"]) == 0 and c["args"]:
                    # argument must be the value parameter (_3)
                    l = op_local(c["args"][0])
                    src = l
                    for d in cf.whole_defs(l):
                        if d[0] == "assign" and d[3][0] == "ref":
                            src = place_local(d[3][2])
                        elif d[0] == "assign" and d[3][0] == "use":
                            src = op_local(d[3][1])
                    good = src == 3
            # no other effect in the predicate
            n_assign_ret = sum(1 for _bb, _si, pl, _rv, _sp in cf.assigns() if place_local(pl) == 0)
            if good and n_assign_ret == 0:
                r.ok(sample={"remove_if": key})
            else:
                r.violate(key, "remove_if predicate is not `|_, v| v.is_empty()` in %s at %s" % (
                    op.fn.id, ctx.bin.span_str(op.call["span"])))
    r.floor("remove_if sites on shared maps", n, 2)
    return r


def r2c_retain(ctx):
    r = Result("R2c", "every Vec::retain performed in a function that holds a get_mut guard of a shared per-name map keeps "
                      "exactly the elements whose file differs from the function's file parameter (predicate `elem.file != "
                      "file_param`)")
    db = _db(ctx)
    shared = db.shared_by_name()
    n = 0
    fns = sorted({op.fn.id for m in shared for op in db.ops_by_map.get(m, []) if op.method == "get_mut"})
    from ..facts import retain_sites, retain_predicate_shape
    for fid in fns:
        f = ctx.bin.fns[fid]
        for host, bb, c in retain_sites(ctx.bin, f):
            if host is f:
                held = db.lm.held.get(fid, {}).get(bb, frozenset())
                maps = sorted(h[0].split(".")[-1] for h in held if h[0].split(".")[-1] in shared and h[1] == "X")
            else:
                # the retain sits in a closure that is handed the guard (`map.get_mut(k).is_some_and(|mut v| { v.retain(..) })`)
                maps = sorted(_guard_handed_to(ctx, db, f, host, shared))
            if not maps:
                continue
            n += 1
            key = "R2c|%s|retain under %s" % (fid, ",".join(maps))
            shp = retain_predicate_shape(ctx.bin, f, host, c)
            ok = False
            why = "predicate shape not recognised"
            if shp:
                fld = shp["elem_field"]
                file_field = (fld[1] == "file_path") or (fld[0] == "tuple" and fld[1] == "0")
                pidx = shp["capture_param"]
                is_path_param = pidx is not None and "std::path::Path" in f.local_ty(pidx)
                if shp["cmp"] != "ne":
                    why = "predicate keeps elements EQUAL to the captured value (removes other files' entries)"
                elif not file_field:
                    why = "predicate does not compare the element's file (field %s.%s)" % fld
                elif not is_path_param:
                    why = "captured value `%s` is not the function's file parameter" % shp["capture"]
                else:
                    ok = True
            if ok:
                r.ok(sample={"retain": key, "elem_field": "%s.%s" % shp["elem_field"], "param": f.local_name(shp["capture_param"])})
            else:
                r.violate(key, "%s at %s" % (why, ctx.bin.span_str(c["span"])))
    r.floor("retain sites under a shared-map guard", n, 2)
    return r


def _guard_handed_to(ctx, db, f, host, shared):
    """shared maps whose get_mut result (made in f) is the receiver of the call in f that is handed the closure `host`"""
    from ..core import place_local, op_local
    out = set()
    for bb, c in f.calls():
        if host.id not in [cid for cid, _l in c.get("clos", [])] or not c["args"]:
            continue
        recv = op_local(c["args"][0])
        for m in shared:
            for op in db.ops_by_map.get(m, []):
                if op.fn.id == f.id and op.method == "get_mut" and recv is not None and place_local(op.call["dest"]) in _move_sources(f, recv):
                    out.add(m)
    return out


def _move_sources(f, l, depth=0):
    from ..core import op_local
    out = {l}
    if depth > 6:
        return out
    for d in f.whole_defs(l):
        if d[0] == "assign" and d[3][0] == "use" and op_local(d[3][1]) is not None:
            out |= _move_sources(f, op_local(d[3][1]), depth + 1)
    return out


def r2d_own_file_keys(ctx):
    r = Result("R2d", "every write to a per-file index map (PathBuf -> Vec/HashSet of records) uses a key whose only "
                      "interprocedural origin is the canonical path computed at the analysis entry for the file being analysed")
    db = _db(ctx)
    entry = db.analysis_entry()
    if entry is None:
        r.anchor_missing("analysis entry", "no unique function that calls rustpython_parser::parse and stores file_cache")
        return r
    r.counts["entry"] = entry.id
    canon = _canonicalizing_fns(ctx)
    upstream = {entry.id}
    changed = True
    while changed:
        changed = False
        for callee, callers in db.origins.callers.items():
            if callee in upstream:
                for cf, _bb, _c in callers:
                    if cf.id not in upstream:
                        upstream.add(cf.id)
                        changed = True
    n = 0
    for m in db.per_file_index():
        for op in db.writes(m):
            if len(op.call["args"]) < 2:
                continue
            n += 1
            key = "R2d|%s|%s.%s" % (op.fn.id, m, op.method)
            orig = db.origins.of_operand(op.fn, op.call["args"][1])
            # the canonical path of the analysed file: computed in the entry or in a function that leads to it (a wrapper)
            good = {o for o in orig if o[0] == "call" and o[1] in upstream and (o[2] in canon or o[2].endswith("Path::canonicalize")) and not o[3]}
            bad = orig - good
            if good and not bad:
                r.ok(sample={"own_file_key": key})
            else:
                r.violate(key, "key of `%s.%s()` in %s may originate elsewhere than the analysed file's canonical path: %s (at %s)" % (
                    m, op.method, op.fn.id, sorted(map(str, bad))[:3] or "no origin found", ctx.bin.span_str(op.call["span"])))
    r.counts["per_file_maps"] = ",".join(db.per_file_index())
    r.floor("writes to per-file index maps", n, 7)
    return r


def _canonicalizing_fns(ctx):
    """local functions whose returned value is computed from Path::canonicalize / get_canonical_path"""
    import re
    from .r3 import _slice_calls
    out = set()
    for f in ctx.bin.real_fns():
        if f.kind not in ("method", "fn", "closure"):
            continue
        if "Path" not in f.ret:
            continue
        calls = set()
        for bb, si, pl, rv, sp in f.assigns():
            if place_local(pl) == 0:
                for o in (rv[2] if rv[0] == "agg" else [rv[1]] if rv[0] == "use" else []):
                    if isinstance(o, list):
                        calls |= _slice_calls(ctx.bin, f, o)
        for bb, c in f.calls():
            if place_local(c["dest"]) == 0:
                calls.add(c.get("res") or "?")
                for a in c["args"]:
                    calls |= _slice_calls(ctx.bin, f, a)
                for cid, _loc in c.get("clos", []):
                    cf = ctx.bin.fns.get(cid)
                    if cf is not None:
                        calls |= {c2.get("res") or "?" for _b2, c2 in cf.calls()}
        if any(re.search(r"Path::canonicalize$|::get_canonical_path$|fs::canonicalize$", x) for x in calls):
            out.add(f.id)
    return out


def r2e_canonical_read_keys(ctx):
    r = Result("R2e", "every lookup in a per-file index map (written under canonical paths only, R2d) uses a key that was "
                      "canonicalised: its interprocedural origins are results of Path::canonicalize / get_canonical_path, of a local "
                      "function returning such a value, or a record's stored file_path")
    import re
    db = _db(ctx)
    canon = _canonicalizing_fns(ctx)
    r.counts["canonicalizing_fns"] = ",".join(sorted(x.split("::")[-1] for x in canon))
    n = 0
    for m in db.per_file_index():
        for op in db.ops_by_map.get(m, []):
            if op.mode != "S" or len(op.call["args"]) < 2 or op.method not in ("get", "contains_key"):
                continue
            n += 1
            bad = []
            for t in db.origins.of_operand(op.fn, op.call["args"][1]):
                if t[0] == "call" and (t[2] in canon or re.search(r"Path::canonicalize$|fs::canonicalize$", t[2] or "")):
                    continue
                fields = t[3] if len(t) > 3 and isinstance(t[3], tuple) else ()
                if any(nm == "file_path" for _o, nm in fields):
                    continue
                if t[0] == "closure-param":
                    continue
                if t[0] == "param" and "LanguageServer" not in t[1]:
                    # parameter of a function nobody in the crate calls (library API / dead code in the binary): the
                    # key is the external caller's, exactly like the keys the handlers pass to the called accessors
                    continue
                if t[0] == "call" and re.search(r"Iterator>?::next$", t[2] or "") and _iterates_open_documents(ctx.bin, t[1]):
                    continue  # a key of the map of open documents, stored under the canonical path
                bad.append("%s %s" % (t[0], (t[2] if t[0] == "call" else t[1]).split("::")[-1] if len(t) > 2 else t[1]))
            key = "R2e|%s|%s.%s" % (op.fn.id, m, op.method)
            if bad:
                r.violate(key, "`%s.%s()` in %s is keyed by a path that may not be canonical (%s): the lookup misses entries stored "
                               "under the canonical path (symlinked workspace)" % (m, op.method, op.fn.id, sorted(set(bad))[:3]))
            else:
                r.ok(sample={"lookup": key})
    r.floor("lookups in per-file index maps", n, 6)
    r.floor("canonicalizing functions", len(canon), 2)
    return r


def r2f_no_whole_value_insert(ctx):
    r = Result("R2f", "a per-file index map that receives entry()-appends during analysis is never overwritten by a whole-value "
                      "`insert`: the insert discards what an earlier analysis of the same file appended (e.g. a document opened "
                      "before the scan reaches it) while the records it indexes stay behind")
    db = _db(ctx)
    appended = {op.ident.split(".")[-1] for op in db.append_ops()}
    n = 0
    for m in sorted(appended & set(db.per_file_index())):
        for op in db.writes(m):
            n += 1
            key = "R2f|%s|%s.%s" % (op.fn.id, m, op.method)
            if op.method == "insert":
                r.violate(key, "`%s.insert()` in %s at %s overwrites an appended per-file entry" % (m, op.fn.id, ctx.bin.span_str(op.call["span"])))
            else:
                r.ok(sample={"write": key})
    r.floor("writes to appended per-file maps", n, 4)
    return r


def r2g_canonicaliser_whole_path(ctx):
    r = Result("R2g", "the caching canonicaliser (found by role: calls Path::canonicalize and stores into a DashMap<PathBuf, PathBuf>) "
                      "returns the canonical form of the WHOLE path: no path-composition call (join / push / with_file_name / "
                      "with_extension) occurs in the backward slice of its result; a canonical directory joined with a file name is "
                      "not canonical when the file itself is a symlink, so the scan and did_open key one document differently")
    import re
    from .r3 import _slice_calls
    db = _db(ctx)
    crate = ctx.bin
    pp_maps = {m for m, (k, v) in db.maps.items() if k == "std::path::PathBuf" and v == "std::path::PathBuf"}
    n = 0
    for f in crate.real_fns():
        if f.kind not in ("fn", "method") or "PathBuf" not in f.ret:
            continue
        fam = [g for g in crate.real_fns() if g.root == f.id]
        if not any(re.search(r"Path::canonicalize$|fs::canonicalize$", c.get("res") or "") for g in fam for _b, c in g.calls()):
            continue
        if not any(op.fn.root == f.id and op.method == "insert" for m in pp_maps for op in db.ops_by_map.get(m, [])):
            continue
        n += 1
        calls = _slice_calls(crate, f, ["cp", 0])
        comp = sorted(x.split("::")[-1] for x in calls if re.search(r"path::Path::(join|with_file_name|with_extension)$|path::PathBuf::(push|set_file_name)$", x or ""))
        key = "R2g|%s" % f.id
        if comp:
            r.violate(key, "%s assembles its result with %s: the result is not the canonical form of the whole path" % (f.id, comp))
        else:
            r.ok(sample={"canonicaliser": f.id, "calls_in_result_slice": len(calls)})
        # every answer is memoised, the unresolvable one too: the memo is what gives a path ONE identity for its life time (the
        # per-file maps are keyed by the answer; a file that appears on disk later would be re-keyed and its old entries orphaned)
        ins = {op.bb for m in pp_maps for op in db.ops_by_map.get(m, []) if op.fn.id == f.id and op.method == "insert"}
        for cb, c in f.calls():
            if not re.search(r"Path::canonicalize$|fs::canonicalize$", c.get("res") or ""):
                continue
            seen, st, esc = {cb}, [cb], None
            while st:
                b = st.pop()
                if f.blocks[b]["t"][0] == "ret":
                    esc = b
                    break
                for s2 in f.succs(b):
                    if s2 not in seen and s2 not in ins:
                        seen.add(s2)
                        st.append(s2)
            key2 = "R2g|%s|an answer that is not memoised" % f.id
            if esc is not None and ins:
                r.violate(key2, "%s returns after canonicalize() at %s on a path that does not store the answer in the path memo: "
                                "the same path can get a different identity later" % (f.id, crate.span_str(c["span"])))
            else:
                r.ok()
        # nobody else writes the memo: an entry put there by a computation (root + relative part) is not what the canonicaliser
        # would have answered when the file itself is a symlink
        for m in sorted(pp_maps):
            for op in db.ops_by_map.get(m, []):
                if op.mode == "X" and op.method in ("insert", "entry", "get_mut", "alter") and op.fn.root != f.id:
                    users = {g.root for g in crate.real_fns() for _bb, c2 in g.calls() if c2.get("res") == op.fn.root and g.root != op.fn.root}
                    if users and users <= {f.id}:
                        continue  # a store helper of the canonicaliser itself
                    r.violate("R2g|%s|%s written outside the canonicaliser" % (op.fn.root, m),
                              "%s writes the path memo `%s` (%s at %s); only %s, which asks the file system, may" % (
                                  op.fn.root, m, op.method, crate.span_str(op.call["span"]), f.id.split("::")[-1]))
    r.floor("caching canonicalisers", n, 1)
    return r


def _canonicalises(crate, fid):
    g = crate.fns.get(fid)
    if g is None:
        return False
    return any(re.search(r"Path::canonicalize$|fs::canonicalize$", c.get("res") or "")
               for x in crate.real_fns() if x.root == g.root for _b, c in x.calls())


def _iterates_open_documents(crate, fid, depth=0):
    """function fid (or the function it is nested in) iterates a concurrent map field of type PathBuf -> Uri (the open documents,
    keyed by the canonical path the Uri converter produced)"""
    from ..core import proj_fields, place_projs
    g = crate.fns.get(fid)
    if g is None:
        return False
    fam = [x for x in crate.real_fns() if x.root == g.root]
    for x in fam:
        for _bb, _si, _pl, rv, _sp in x.assigns():
            if rv[0] != "ref":
                continue
            for o, n in proj_fields(place_projs(rv[2])):
                adt = crate.adts.get(o)
                if not adt or not adt.get("variants"):
                    continue
                for fld in adt["variants"][0]["fields"]:
                    if fld["name"] == n and re.search(r"DashMap<std::path::PathBuf, [^>]*\bUri\b", fld["ty"]):
                        if any(re.search(r"DashMap::<[^>]*>::iter$|DashMap::<K, V, S>::iter$", c.get("res") or "") for _b, c in x.calls()):
                            return True
    if depth == 0:
        # a snapshot of the open documents taken by a helper (`self.open_documents_sorted()`) and walked here
        for x in fam:
            for _b, c in x.calls():
                if c.get("res_local") and c.get("res") in crate.fns and crate.fns[c["res"]].root != g.root and \
                        "PathBuf" in crate.fns[c["res"]].ret and _iterates_open_documents(crate, c["res"], 1):
                    return True
    return False


def r2h_handlers_pass_canonical_paths(ctx):
    r = Result("R2h", "every path a request handler (a function of the server type, its closures and async blocks) hands to a "
                      "method of the fixture database originates from the Uri-to-path converter (which canonicalises), from a "
                      "canonicalising function, or from the stored file_path of a record: the database keys documents by "
                      "canonical path, so a raw `uri.to_file_path()` reads the on-disk text / misses the index under a symlink")
    import re
    db = _db(ctx)
    crate = ctx.bin
    canon = _canonicalizing_fns(ctx)
    from ..facts import DB
    # the server type, by role: the type the LanguageServer trait is implemented for
    server = {m.group(1) for f in crate.real_fns() for m in [re.search(r"LanguageServer for ([A-Za-z0-9_:]+)>", f.id)] if m}
    if len(server) != 1:
        r.anchor_missing("server type", "no unique `impl LanguageServer for T`")
        return r
    server = server.pop()
    r.counts["server_type"] = server
    dbty = DB.split("::")[-1]
    n = 0
    walks = {}
    for f in crate.real_fns():
        root = crate.fns.get(f.root)
        if root is None or not re.search(r"\b%s\b" % re.escape(server.split("::")[-1]), root.id):
            continue
        for bb, c in f.calls():
            callee = c.get("res") or ""
            if not c.get("res_local") or not re.search(r"\b%s\b" % dbty, callee) or callee in canon:
                continue
            g = crate.fns.get(callee)
            if g is None:
                continue
            if callee not in walks:
                walks[callee] = any((c2.get("res") or "").startswith("walkdir::") for x in ctx.callgraph().reach([callee])
                                    if x in crate.fns for _b2, c2 in crate.fns[x].calls())
            if walks[callee]:
                continue  # the directory walk: its argument is a root to walk, not a document key
            for i, a in enumerate(c["args"]):
                ty = g.local_ty(i + 1) if i + 1 <= g.argc else ""
                if not re.search(r"std::path::Path\b|std::path::PathBuf\b", ty):
                    continue
                n += 1
                bad = []
                for t in db.origins.of_operand(f, a):
                    if t[0] == "call" and (t[2] in canon or re.search(r"Path::canonicalize$|fs::canonicalize$", t[2] or "")):
                        continue
                    fields = t[3] if len(t) > 3 and isinstance(t[3], tuple) else ()
                    if any(nm == "file_path" for _o, nm in fields):
                        continue
                    if t[0] == "closure-param":
                        continue
                    if t[0] == "call" and re.search(r"Iterator>?::next$", t[2] or "") and _iterates_open_documents(crate, t[1]):
                        continue  # a key of the map of open documents (path -> Uri), stored there under the canonical path
                    if t[0] == "call" and re.search(r"(Result|Option)::<[^>]*>::unwrap_or(_else)?$|::unwrap_or(_else)?$", t[2] or "") and \
                            _canonicalises(crate, t[1]):
                        continue  # `p.canonicalize().unwrap_or_else(|_| p.clone())`: canonical whenever the path exists
                    bad.append("%s %s" % (t[0], (t[2] if t[0] == "call" else str(t[1])).split("::")[-1] if len(t) > 2 else t[1]))
                key = "R2h|%s|%s arg%d" % (f.root, callee.split("::")[-1], i)
                if bad:
                    r.violate(key, "%s hands `%s` a path that is not canonical (%s) at %s" % (
                        f.root, callee.split("::")[-1], sorted(set(bad))[:3], crate.span_str(c["span"])))
                else:
                    r.ok(sample={"call": key} if len(r.samples) < 4 else None)
    r.floor("path arguments handed to the database by handlers", n, 10)
    return r


def r2i_cleanup_loop_runs_to_the_end(ctx):
    r = Result("R2i", "a loop that walks a snapshot of keys and prunes entries of an INDEX map of the fixture database in its body "
                      "(get_mut / remove_if / retain on a per-name or per-file map, directly in the loop or in a helper the loop "
                      "calls; caches and maps of other types are not index maps) is left only when the snapshot is exhausted: no "
                      "`return`, `break` or `?` inside it. A key that vanished meanwhile is skipped (`continue`); leaving the loop "
                      "there keeps the stale entries of every later key, and whether that happens depends on the schedule")
    from .r1e import natural_loops, _iterator_driven, _exit_switches
    crate = ctx.bin
    db = _db(ctx)
    index_maps = set(db.shared_by_name()) | set(db.per_file_index())
    prune_ops = defaultdict(set)      # fn id -> blocks with a pruning operation on an index map
    for m in index_maps:
        for op in db.ops_by_map.get(m, []):
            if op.method in ("remove_if", "get_mut", "retain", "remove_if_mut", "alter"):
                prune_ops[op.fn.id].add(op.bb)
    pruners = {crate.fns[fid].root for fid in prune_ops if fid in crate.fns}
    n = 0
    for f in crate.real_fns():
        if "_serde::" in f.id or f.id.startswith("<"):
            continue
        for h, latches, body in natural_loops(f):
            if not _iterator_driven(f, h, body):
                continue
            muts = [f.blocks[b]["t"][1] for b in sorted(body) if b in prune_ops.get(f.id, ()) and f.blocks[b]["t"][0] == "call"]
            for b in sorted(body):
                t = f.blocks[b]["t"]
                if t[0] == "call" and t[1].get("res_local") and t[1].get("res") in pruners and t[1].get("res") != f.root:
                    muts.append(t[1])      # the body of the loop was extracted into a helper
            if not muts:
                continue
            n += 1
            ex = _exit_switches(f, body)
            key = "R2i|%s|clean-up loop left early" % f.id
            if len(ex) > 1:
                r.violate(key, "the clean-up loop in %s (prunes an index map at %s) has %d ways out besides the end of its "
                               "snapshot (e.g. the test at %s)" % (
                                   f.id, crate.span_str(muts[0]["span"]), len(ex) - 1,
                                   crate.span_str(_term_span(f, ex[-1][0]))))
            else:
                r.ok(sample={"loop in": f.id.split("::")[-1], "prunes with": sorted({(m.get("res") or "").split("::")[-1] for m in muts})}
                     if len(r.samples) < 4 else None)
    r.floor("clean-up loops over index maps", n, 2)
    return r


def _term_span(f, bb):
    b = f.blocks[bb]
    t = b["t"]
    for x in reversed(t):
        if isinstance(x, list) and len(x) == 5 and isinstance(x[0], int) and isinstance(x[4], str):
            return x
    for s in reversed(b["s"]):
        if isinstance(s[-1], list) and len(s[-1]) == 5:
            return s[-1]
    return [0, 0, 0, 0, ""]
