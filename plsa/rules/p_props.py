"""Property -> rules registration."""
from . import register
from . import r1

register(
    "C12",
    "Static lock-discipline and recursion-guard analysis over the MIR of the binary crate: (R1a) no re-entrant "
    "acquisition of one lock unless both are shared DashMap guards, (R1b) no conflicting cycle in the lock-order graph "
    "built from may-held guard sets at every call and transitive acquisition summaries of callees and closures, (R1c) no "
    "blocking guard alive at a coroutine Yield, (R1d) every call-graph SCC is structural AST recursion or guarded by a "
    "visited set. Shards are abstracted away (any two keys of one map may collide), so the verdict covers every schedule "
    "and key placement. Loops (while/loop fixpoints) and starvation are not decided.",
    [r1.r1a_reentrancy, r1.r1b_order, r1.r1c_await, r1.r1d_recursion],
    assumptions=["dashmap 6.1.0 RawRwLock is reader-preferring (read from its source; version re-checked on each run)",
                 "lock operations inside dependencies are not analysed", "termination of loops is not analysed"],
)
