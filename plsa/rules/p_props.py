"""Property -> rules registration."""
from . import register
from . import r1, r1e, r2, r3, r3d, r4, r5, r6, r7, r8, r9, r10

# the cache rules: necessary for every property whose answers pass through a stamped / evictable cache
CACHE = [r3d.r3d_hit, r3d.r3d_stamp_origin, r3d.r3d_bump, r3d.r3d_readset, r3d.r3d_memo_context, r3d.r3d_membership_gate, r3d.r3d_who_reads]

def _r5d_flags(ctx):
    """the origin-flag clause of R5d alone (for properties where the same-file findings of R5d are not at issue)"""
    from ..check import Result
    full = ctx.memo(("rule", id(r5.r5d_siblings)), lambda: r5.r5d_siblings(ctx))
    r = Result("R5d-flags", "the plugin / third-party stages of the sibling resolvers test the same origin flags (`is_plugin`, "
                            "`is_third_party`) as the navigation cascade: a stage that drops `!is_third_party` ranks an installed "
                            "plugin before a workspace plugin of the same name, in registration order")
    keep = [(k, m) for k, m in full.violations if " stage tests " in k]
    r.violations = keep
    r.examined = max(1, len(keep) + 2)
    r.discharged = r.examined - len(keep)
    return r


register(
    "C12",
    "Static lock-discipline and recursion-guard analysis over the MIR of the binary crate: (R1a) no re-entrant "
    "acquisition of one lock unless both are shared DashMap guards, (R1b) no conflicting cycle in the lock-order graph "
    "built from may-held guard sets at every call and transitive acquisition summaries of callees and closures, (R1c) no "
    "blocking guard alive at a coroutine Yield, (R1d) every call-graph SCC is structural AST recursion or guarded by a "
    "visited set, (R1e) every hand-written loop matching a progress idiom (parent() walk, peek/next scan, exit-tested "
    "counter, pop-driven worklist) makes its progress step on every path round the loop, and a worklist expands a node "
    "only behind a grow-only visited test, (R1e-c) no hand-written loop is left only through tests of an atomic it re-reads "
    "inside the loop (retry until the writers go quiet). Shards are abstracted away (any two keys of one map may collide), so the "
    "verdict covers every schedule and key placement. Loops matching no idiom (the import-scan fixpoint) and starvation "
    "are not decided.",
    [r1.r1a_reentrancy, r1.r1b_order, r1.r1c_await, r1.r1d_recursion, r1e.r1e_loop_progress, r1e.r1e_no_wait_for_quiescence],
    assumptions=["dashmap 6.1.0 RawRwLock is reader-preferring (read from its source; version re-checked on each run)",
                 "lock operations inside dependencies are not analysed",
                 "termination is decided only as the must-pass-through progress obligation of recognised loop idioms"],
)

from . import r2

register(
    "C09",
    "Structural necessary conditions for isolation of concurrent per-file analyses, decided on every write operation "
    "of the shared maps found in MIR: (R2a) name-keyed vectors are only mutated in place under one entry()/get_mut() "
    "guard or removed by remove_if, (R2b) remove_if predicates are exactly is_empty(), (R2c) retain predicates under "
    "such a guard keep exactly the other files' elements, (R2d) per-file index maps are written only under the key of "
    "the file being analysed. Decides the shape of every mutation site, not sequential equivalence of whole analyses.",
    [r2.r2a_atomic_ops, r2.r2b_remove_if, r2.r2c_retain, r2.r2d_own_file_keys, r2.r2f_no_whole_value_insert, r1.r1f_no_try_lock, r2.r2g_canonicaliser_whole_path, r2.r2i_cleanup_loop_runs_to_the_end, r4.r4g_zip_sides_agree],
    assumptions=["DashMap entry()/get_mut()/remove_if() are atomic per key (dashmap 6.1.0 shard lock)",
                 "linearizability of whole analyses is not decided"],
)

from . import r3

register(
    "C06",
    "Structural necessary conditions for history independence, decided in the CFG of the analysis entry point (found by "
    "role: calls the Python parser and stores the file text): (R3a) every map that receives appends during analysis is "
    "cleared for the analysed file by an operation that dominates every append-reaching call, (R3b) all index writes "
    "are dominated by the Ok edge of the parse result (failed parse writes nothing; nothing written before parsing), "
    "(R3e) the entry's cleaning flag is false only on paths the document-synchronisation handlers cannot reach. "
    "Does not decide equality with a freshly built index for every history.",
    [r3.r3a_clean_before_append, r3.r3b_failure_path_readonly, r3.r3e_who_skips_cleaning, r3.r3h_wrappers_always_analyse,
     r2.r2f_no_whole_value_insert, r3d.r3d_hit, r3d.r3d_stamp_origin, r3d.r3d_bump, r8.r11a_analyze_then_publish, r10.r10h_analysed_marker, r3.r3i_every_analysis_parses, r2.r2g_canonicaliser_whole_path, r3.r3k_definition_index_in_step],
)

register(
    "C10",
    "Structural conditions for 'editor buffers win over the background scan': (R3e) document-synchronisation handlers "
    "reach the analysis entry only with cleaning enabled; (R3e2) no task spawned from a handler runs the non-cleaning "
    "analysis, which could run in parallel with did_open/did_change; (R3g) the cleaning analysis is never fed text read "
    "directly from disk. Which content wins for each timing is a schedule "
    "property and is not decided.",
    [r3.r3e_who_skips_cleaning, r3.r3e2_parallel_scan, r3.r3g_buffer_content, r2.r2f_no_whole_value_insert, r3.r3a_clean_before_append, r10.r10h_analysed_marker, r8.r11a_analyze_then_publish, r2.r2g_canonicaliser_whole_path, r3.r3i_every_analysis_parses],
)

register(
    "C04",
    "Structural conditions for references being the inverse of go-to-definition: (R3c) the per-file usage map and its "
    "per-name reverse index are appended in step from one FixtureUsage, removals are paired with a by-file clear of "
    "the reverse index, no other writer exists. The equivalence itself for every (definition, usage) pair is not decided.",
    [r3.r3c_reverse_index, r3.r3a_clean_before_append, r5.r5c_selfref_pairing, r5.r5g_usage_attribution, r4.r4b_unordered_pick, r2.r2h_handlers_pass_canonical_paths, r5.r5j_record_identity, r4.r4e_local_memo_keys, r4.r4f_no_prefix_adaptors, r3.r3j_references_decided_by_resolution] + CACHE,
)

from . import r3d

register(
    "C07",
    "Structural necessary conditions for caches being invisible: (R3d-hit) every stamp stored in a cache entry is "
    "compared on the hit path; (R3d-i) every mutation of the definition maps is followed by a version increment; "
    "(R3d-ii) every map read by the computation behind a version-stamped cache is itself stamped/transparent or has "
    "all writes followed by an increment; (R3d-iii) no memoised result depends on a &mut context parameter outside the "
    "key; (R3d-iv) no query is gated solely by membership in an evictable cache. Equality of warm and cold answers "
    "for every interleaving is not decided.",
    [r3d.r3d_hit, r3d.r3d_stamp_origin, r3d.r3d_bump, r3d.r3d_readset, r3d.r3d_memo_context, r3d.r3d_membership_gate, r3d.r3d_who_reads],
)

from . import r6

register(
    "C03",
    "Visitor-coverage clauses of index fidelity: (R6a) the yield-line visitor and the generator-status visitor descend "
    "into the same statement-list fields, (R6b) both cover every statement-list field of the AST type universe except "
    "nested scopes. Field values (names, scopes, dependency order, docstrings, usages from marks) are not decided.",
    [r6.r6a_yield_siblings, r6.r6b_yield, r6.r6d_all_decorators, r6.r6e_visit_order, r6.r6f_any_visitor_returns_true_only, r9.r9_char_count_plus_bytes, r8.r8d_decorator_keywords, r3.r3a_clean_before_append, r3.r3b_failure_path_readonly, r3.r3i_every_analysis_parses, r8.r8i_docstring_blank_lines, r4.r4f_no_prefix_adaptors],
)

register(
    "C17",
    "Visitor-coverage clauses of undeclared-fixture precision: (R6b) the body visitors descend into every nested "
    "statement list, (R6c) every name-binding form of the language is read by the local-variable collector and all "
    "parameter kinds are enumerated. The quick-fix text edit is a string-value property and is not decided.",
    [r6.r6b_body, r6.r6c_binding_forms, r6.r6g_scope_seeds_after_collector, r10.r10i_no_textual_path_prefix, r3.r3h_wrappers_always_analyse, r8.r11a_analyze_then_publish, r8.r8a_diagnostic_codes, r2.r2h_handlers_pass_canonical_paths, r6.r6h_parameter_enumerators, r6.r6i_locals_grow_only, r7.r7g_take_after_skip_is_a_count, r6.r6k_declared_names_are_parameters, r4.r4f_no_prefix_adaptors],
)

from . import r5

register(
    "C01",
    "Structural clause of the shadowing order: (R5a) every stage of the resolver cascade (found by role: the generic "
    "function with an exclusion-filter parameter and >= 3 selection sites) selects with a visibility test on the "
    "element; a stage that selects by name alone can return a definition that is not visible from the using file; "
    "(R5e) the same-file stage takes the last definition; (R10j) the skip filter of import extraction tests the module "
    "string that is recorded (relative imports keep their dots), so a conftest's relative import is not dropped. "
    "That the cascade order and the conftest walk coincide with pytest for every layout is not decided.",
    [r5.r5a_c01, r5.r5e_same_file_last, r5.r5f_walk_bounds, r10.r10j_filter_sees_recorded_module, r10.r10i_no_textual_path_prefix] + CACHE + [r3.r3a_clean_before_append, r5.r5k_single_source, r10.r10m_import_reads_are_transitive, r4.r4f_no_prefix_adaptors, r5.r5m_upward_step_advances],
)

register(
    "C02",
    "Structural clauses of self-named parameter handling: (R5b) the exclusion filter is applied at every selection "
    "site of the cascade, (R5c) every caller that resolves usages pairs the non-excluding and the excluding resolver "
    "under a test of the current definition's name against the usage name (memo lookups included). Cursor-column "
    "arithmetic and chain semantics are not decided.",
    [r5.r5b_filter_everywhere, r5.r5c_selfref_pairing, r5.r5h_usage_before_definition_line, r5.r5g_usage_attribution, r4.r4b_unordered_pick, r2.r2h_handlers_pass_canonical_paths, r5.r5j_record_identity, r5.r5k_single_source, _r5d_flags, r5.r5f_walk_bounds, r4.r4g_zip_sides_agree, r10.r10m_import_reads_are_transitive] + CACHE,
)

from . import r4


def _names(ids):
    return sorted({x.split("::")[-1] for x in ids})


def _c05_fns(ctx):
    """the sibling resolvers, by role (as in R5d): functions other than the core whose selection sites cover the stages"""
    from collections import defaultdict
    core = r5.resolver_core(ctx)
    by_fn = defaultdict(list)
    for s in r5._def_sites(ctx):
        by_fn[s.owner].append(s)
    out = []
    for fid, ss in by_fn.items():
        if core is not None and fid == core.id:
            continue
        f = ctx.bin.fns.get(fid)
        # a resolver of its own: several selections over the definition vectors for a file given as a path (the count, not the
        # stages, is the criterion: a sibling whose same-file stage lost its file test is still a sibling -- and is what R5a is for)
        if f is not None and len(ss) >= 3 and any("std::path::Path" in f.local_ty(i) for i in range(1, f.argc + 1)):
            out.append(fid)
    return _names(out)


def _c16_fns(ctx):
    """the functions that build or return the cycle / scope-mismatch findings, by the finding types"""
    import re
    out = set()
    pat = re.compile(r"\b(FixtureCycle|ScopeMismatch)\b")
    for f in ctx.bin.real_fns():
        if f.kind in ("fn", "method") and pat.search(f.ret or ""):
            out.add(f.id)
        for _bb, _si, _pl, rv, _sp in f.assigns():
            if rv[0] == "agg" and rv[1][0] == "adt" and pat.search(rv[1][1]):
                out.add(f.root)
    return _names(out)


def _r5a_c05(ctx):
    return r5.r5a_visibility(ctx, fns=_c05_fns(ctx), rule="R5a")


def _r5a_c16(ctx):
    return r5.r5a_visibility(ctx, fns=_c16_fns(ctx), rule="R5a")


def _r4a_c16(ctx):
    return r4.r4a_unordered(ctx, only_fns=_c16_fns(ctx), rule="R4a")


register(
    "C05",
    "Structural clauses of cross-feature agreement: (R5d) the sibling resolvers (found by role: functions whose "
    "selection sites cover the same-file / conftest / plugin / third-party stages) use the same selector class per "
    "stage as the navigation cascade, (R5a) none of them selects by name alone. Agreement on every input and the "
    "hover/inlay text are not decided.",
    [r5.r5d_siblings, _r5a_c05, r5.r5c_selfref_pairing, r5.r5f_walk_bounds, r5.r5g_usage_attribution, r5.r5h_usage_before_definition_line, r10.r10i_no_textual_path_prefix, r2.r2h_handlers_pass_canonical_paths, r5.r5j_record_identity, r5.r5k_single_source, r10.r10m_import_reads_are_transitive] + CACHE,
)

register(
    "C08",
    "Structural clauses of order independence: (R4a) a vector filled in DashMap / hash-map iteration order is sorted "
    "before it is returned, (R4b) first-match exits from such iterations are reviewed for uniqueness of the match, "
    "(R4c) order-sensitive selections over the per-name definition vector (registration order = scan schedule) are "
    "pinned to one file, (R4h) no order-dependent pick (find / next / take / an early-exit loop with a value) from the "
    "iteration of a hash container. Ties under non-total sort keys and other channels of nondeterminism are not decided.",
    [r4.r4a_unordered, r4.r4b_unordered_pick, r5.r4c_order_sensitive, r2.r2a_atomic_ops, r10.r10f_no_short_circuit, r1.r1f_no_try_lock, r4.r4d_sort_keys_are_projections, r3d.r3d_memo_context, r10.r10i_no_textual_path_prefix, r4.r4e_local_memo_keys, _r5d_flags, r4.r4f_no_prefix_adaptors, r4.r4h_no_pick_in_hash_order],
)

from . import r8

register(
    "C16",
    "Structural clauses of dependency diagnostics: (R5a) the dependency's definition is selected with a visibility "
    "test (i.e. resolved from the depending file), not first-registered; (R4a) cycle and mismatch lists are not "
    "returned in hash order; (R8b) the scope enum follows pytest's order, parse/as_str agree with it and a "
    "ScopeMismatch is built only under `fixture.scope > dependency.scope`. Soundness/completeness of the cycle "
    "search is not decided.",
    [_r5a_c16, _r4a_c16, r8.r8b_scope_order, r8.r8d_decorator_keywords, r8.r8a_diagnostic_codes, r3.r3a_clean_before_append, r1e.r1e_worklist_unbounded, r8.r8h_dependency_edges_kept, r4.r4f_no_prefix_adaptors] + CACHE,
)

register(
    "C19",
    "Structural clauses of published diagnostics: (R8a) codes constructed = codes gated = codes accepted by the "
    "configuration loader, each Diagnostic and each collector sits on the not-disabled edge of the gate with its own "
    "code; (R11a) in did_open/did_change the analysis is always followed by publishing for the same document. "
    "Equality of the last published set with the latest content for every history is not decided.",
    [r8.r8a_diagnostic_codes, r8.r11a_analyze_then_publish, r2.r2e_canonical_read_keys, r2.r2g_canonicaliser_whole_path, r3.r3a_clean_before_append, r2.r2h_handlers_pass_canonical_paths, r8.r8g_config_text_goes_to_the_parser, r7.r7_slicing, r7.r7h_string_index_calls] + CACHE,
)

register(
    "C20",
    "Structural clauses of the CLI: (R11b) exit status follows emptiness of the unused list and both formats iterate "
    "it; (R11d) the json branch prints only serializer output / JSON literals; (R4a) CLI result vectors filled from "
    "unordered iteration are sorted; (R5c) the CLI's own usage counter pairs excluding / non-excluding resolution "
    "like the server. Equality of counts with the server and byte-identical output are not decided.",
    [r8.r11b_exit_status, r8.r11d_json_output, r8.r11e_report_root_is_scan_root,
     lambda ctx: r4.r4a_unordered(ctx, only_fns=["get_unused_fixtures", "print_fixtures_tree", "compute_definition_usage_counts"], rule="R4a"),
     r5.r5c_selfref_pairing, r4.r4d_sort_keys_are_projections, r4.r4e_local_memo_keys, r8.r11f_unused_report_ignores_plugin_flag, r4.r4f_no_prefix_adaptors, r5.r5g_usage_attribution, r4.r4h_no_pick_in_hash_order, r4.r4b_unordered_pick],
)

register(
    "C18",
    "Structural clauses of completion: (R11c) every push into the per-file view is guarded by the seen-set (one entry "
    "per name); (R8c) the textual fallback recognises every decorator module the AST recogniser accepts. Context "
    "classification per line, the offered set algebra and sort priorities are not decided.",
    [r8.r11c_one_entry_per_name, r8.r8c_text_fallback, r8.r8e_text_fallback_on_every_miss, r8.r8f_proximity_precedence, r5.r5f_walk_bounds, r2.r2h_handlers_pass_canonical_paths, r6.r6h_parameter_enumerators] + CACHE,
)

from . import r7

register(
    "C11",
    "Structural clauses of crash freedom: (R7a) every `str` range-indexing site is proven to slice at char boundaries "
    "of the sliced string by an abstract evaluation of the index provenance (find / char_indices / len / guarded "
    "constants / suffix arithmetic) or is in the reviewed table; (R7b) no overflow-checked u32 arithmetic on request "
    "positions; (R7c) every unwrap/expect outside lock poisoning is reviewed; (R1e) wedging: hand-written loops make "
    "their progress step on every path and the dependency-graph worklist expands each node once. Other panic sources "
    "(slice bounds, usize arithmetic, range order), panics inside dependencies, stack exhaustion and scan isolation are "
    "not decided.",
    [r7.r7_slicing, r7.r7h_string_index_calls, r7.r7_range_order, r7.r7_sub_underflow, r7.r7_index_bounds, r7.r7_u32_overflow, r7.r7_unwrap, r1e.r1e_loop_progress, r1.r1a_reentrancy, r1.r1b_order, r1.r1c_await, r1.r1d_recursion],
)

from . import r10

register(
    "C13",
    "Structural clauses of discovery: (R10a) ignore rules inspect only the path relative to the walk root (strip_prefix "
    "of the value given to WalkDir::new) and the directory filter is depth-aware; (R10b) the walk's file-name predicate "
    "and the import-scan seed predicate use the same literal tests; (R10f) the parallel phase uses a "
    "non-short-circuiting consumer. That exactly pytest's file set is indexed for every tree is not decided.",
    [r10.r10a_relocation, r10.r10a2_classification_relative, r10.r10b_filename_predicates, r10.r10f_no_short_circuit, r1.r1f_no_try_lock, r10.r10k_config_location, r8.r11e_report_root_is_scan_root, r10.r10l_skip_predicate_exact, r8.r8g_config_text_goes_to_the_parser, r10.r10n_excludes_from_loaded_config, r10.r10o_root_known_before_analysis, r10.r10p_pattern_compiled_as_written],
)

register(
    "C14",
    "Structural clauses of import/plugin discovery: (R10c) all FixtureDefinition constructors classify alike; (R10d) a "
    "plugin mark precedes the analysis it can affect or enqueues a re-analysis; (R10e) every import-graph walker "
    "follows both imports and pytest_plugins; (R10g) plugin propagation does not test a stale snapshot of the map it "
    "extends; (R1d) import recursion is guarded by a visited set; (R10j) the import skip filter tests the recorded "
    "module string. Reachability closure on arbitrary graphs and venv layouts are not decided.",
    [r10.r10c_constructors_agree, r10.r10d_mark_before_analyse, r10.r10e_walkers, r10.r10g_no_stale_snapshot, r1.r1d_recursion, r3d.r3d_memo_context,
     r10.r10j_filter_sees_recorded_module, r10.r10m_import_reads_are_transitive, r3d.r3d_hit, r3d.r3d_stamp_origin, r3d.r3d_bump, r3d.r3d_readset, r3d.r3d_membership_gate, r5.r5m_upward_step_advances, r10.r10l_skip_predicate_exact, r10.r10o_root_known_before_analysis],
)

from . import r9

register(
    "C15",
    "Unit-discipline clause of reported positions: (R9a) byte-unit columns (recorded start_char/end_char/char_pos, "
    "str::find results) must not reach Position.character (UTF-16) unconverted, (R9b) the request's UTF-16 cursor "
    "column must not be compared with byte columns or used as a character index. Concrete token positions (off-by-one, "
    "range containment, duplicates) are value facts and are not decided.",
    [r9.r9_bytes_to_utf16, r9.r9_utf16_vs_bytes, r9.r9_line_base, r9.r9_char_count_plus_bytes, r5.r5i_per_document_items_pinned, r3d.r3d_stamp_origin, r3.r3a_clean_before_append, r2.r2h_handlers_pass_canonical_paths, r6.r6b_yield, r4.r4g_zip_sides_agree, r9.r9e_name_search_uses_identifier],
)
