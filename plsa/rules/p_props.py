"""Property -> rules registration."""
from . import register
from . import r1

register(
    "C12",
    "Static lock-discipline and recursion-guard analysis over the MIR of the binary crate: (R1a) no re-entrant "
    "acquisition of one lock unless both are shared DashMap guards, (R1b) no conflicting cycle in the lock-order graph "
    "built from may-held guard sets at every call and transitive acquisition summaries of callees and closures, (R1c) no "
    "blocking guard alive at a coroutine Yield, (R1d) every call-graph SCC is structural AST recursion or guarded by a "
    "visited set. Shards are abstracted away (any two keys of one map may collide), so the verdict covers every schedule "
    "and key placement. Loops (while/loop fixpoints) and starvation are not decided.",
    [r1.r1a_reentrancy, r1.r1b_order, r1.r1c_await, r1.r1d_recursion],
    assumptions=["dashmap 6.1.0 RawRwLock is reader-preferring (read from its source; version re-checked on each run)",
                 "lock operations inside dependencies are not analysed", "termination of loops is not analysed"],
)

from . import r2

register(
    "C09",
    "Structural necessary conditions for isolation of concurrent per-file analyses, decided on every write operation "
    "of the shared maps found in MIR: (R2a) name-keyed vectors are only mutated in place under one entry()/get_mut() "
    "guard or removed by remove_if, (R2b) remove_if predicates are exactly is_empty(), (R2c) retain predicates under "
    "such a guard keep exactly the other files' elements, (R2d) per-file index maps are written only under the key of "
    "the file being analysed. Decides the shape of every mutation site, not sequential equivalence of whole analyses.",
    [r2.r2a_atomic_ops, r2.r2b_remove_if, r2.r2c_retain, r2.r2d_own_file_keys],
    assumptions=["DashMap entry()/get_mut()/remove_if() are atomic per key (dashmap 6.1.0 shard lock)",
                 "linearizability of whole analyses is not decided"],
)

from . import r3

register(
    "C06",
    "Structural necessary conditions for history independence, decided in the CFG of the analysis entry point (found by "
    "role: calls the Python parser and stores the file text): (R3a) every map that receives appends during analysis is "
    "cleared for the analysed file by an operation that dominates every append-reaching call, (R3b) all index writes "
    "are dominated by the Ok edge of the parse result (failed parse writes nothing; nothing written before parsing), "
    "(R3e) the entry's cleaning flag is false only on paths the document-synchronisation handlers cannot reach. "
    "Does not decide equality with a freshly built index for every history.",
    [r3.r3a_clean_before_append, r3.r3b_failure_path_readonly, r3.r3e_who_skips_cleaning],
)

register(
    "C10",
    "Structural conditions for 'editor buffers win over the background scan': (R3e) document-synchronisation handlers "
    "reach the analysis entry only with cleaning enabled; (R3e2) no task spawned from a handler runs the non-cleaning "
    "analysis, which could run in parallel with did_open/did_change. Which content wins for each timing is a schedule "
    "property and is not decided.",
    [r3.r3e_who_skips_cleaning, r3.r3e2_parallel_scan],
)

register(
    "C04",
    "Structural conditions for references being the inverse of go-to-definition: (R3c) the per-file usage map and its "
    "per-name reverse index are appended in step from one FixtureUsage, removals are paired with a by-file clear of "
    "the reverse index, no other writer exists. The equivalence itself for every (definition, usage) pair is not decided.",
    [r3.r3c_reverse_index],
)

from . import r3d

register(
    "C07",
    "Structural necessary conditions for caches being invisible: (R3d-hit) every stamp stored in a cache entry is "
    "compared on the hit path; (R3d-i) every mutation of the definition maps is followed by a version increment; "
    "(R3d-ii) every map read by the computation behind a version-stamped cache is itself stamped/transparent or has "
    "all writes followed by an increment; (R3d-iii) no memoised result depends on a &mut context parameter outside the "
    "key; (R3d-iv) no query is gated solely by membership in an evictable cache. Equality of warm and cold answers "
    "for every interleaving is not decided.",
    [r3d.r3d_hit, r3d.r3d_bump, r3d.r3d_readset, r3d.r3d_memo_context, r3d.r3d_membership_gate],
)

from . import r6

register(
    "C03",
    "Visitor-coverage clauses of index fidelity: (R6a) the yield-line visitor and the generator-status visitor descend "
    "into the same statement-list fields, (R6b) both cover every statement-list field of the AST type universe except "
    "nested scopes. Field values (names, scopes, dependency order, docstrings, usages from marks) are not decided.",
    [r6.r6a_yield_siblings, r6.r6b_yield],
)

register(
    "C17",
    "Visitor-coverage clauses of undeclared-fixture precision: (R6b) the body visitors descend into every nested "
    "statement list, (R6c) every name-binding form of the language is read by the local-variable collector and all "
    "parameter kinds are enumerated. The quick-fix text edit is a string-value property and is not decided.",
    [r6.r6b_body, r6.r6c_binding_forms],
)
