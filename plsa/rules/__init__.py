"""Rule registry: property id -> {"rules": [fn(ctx) -> Result|[Result]], "explanation": str, "assumptions": [...]}"""
import importlib
import pkgutil

REGISTRY = {}


def register(prop, explanation, rules, thorough=(), assumptions=()):
    REGISTRY[prop] = {"rules": list(rules), "thorough": list(thorough), "explanation": explanation,
                      "assumptions": list(assumptions)}


for m in pkgutil.iter_modules(__path__):
    if m.name.startswith("p_"):
        importlib.import_module(__name__ + "." + m.name)
