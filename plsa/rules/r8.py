"""R8 tables agree (C16, C18, C19) and R11 handler wiring (C18, C19, C20)."""
import json
import re
from collections import defaultdict

from ..check import Result
from ..core import op_local, op_place, op_const, op_str, place_local, place_projs, proj_fields, value_preserving
from ..reviewed import REVIEWED

SCOPE = "fixtures::types::FixtureScope"
PYTEST_SCOPE_ORDER = ["function", "class", "module", "package", "session"]  # narrow -> broad (pytest documentation)


def literals_reaching(f, op, depth=0, seen=None):
    """string literals that flow into an operand through aggregates and value-preserving calls"""
    seen = seen if seen is not None else set()
    s = op_str(op)
    if s is not None:
        return {s}
    k = op_const(op)
    if k is not None and "named" in k:
        return f.crate.const_literals(k["named"])
    if k is not None and "promoted" in k:
        pf = f.crate.fns.get("%s::promoted[%d]" % (k["of"], k["promoted"]))
        out = set()
        if pf is not None:
            for bb, si, pl, rv, sp in pf.assigns():
                for o in (rv[2] if rv[0] == "agg" else [rv[1]] if rv[0] == "use" else []):
                    if isinstance(o, list) and op_str(o) is not None:
                        out.add(op_str(o))
        return out
    l = op_local(op)
    if l is None or l in seen or depth > 12:
        return set()
    seen.add(l)
    out = set()
    for d in f.defs().get(l, []):
        if d[0] == "assign":
            rv = d[3]
            if rv[0] == "use":
                out |= literals_reaching(f, rv[1], depth + 1, seen)
            elif rv[0] == "ref":
                out |= literals_reaching(f, ["cp", rv[2]], depth + 1, seen)
            elif rv[0] == "agg":
                for o in rv[2]:
                    out |= literals_reaching(f, o, depth + 1, seen)
            elif rv[0] == "cast":
                out |= literals_reaching(f, rv[2], depth + 1, seen)
        elif d[0] == "call":
            c = d[2]
            if value_preserving(c) or re.search(r"::(to_string|to_owned|into|from|new|as_str)$", c.get("res") or ""):
                for a in c["args"]:
                    out |= literals_reaching(f, a, depth + 1, seen)
    return out


def _switch_after_call(f, bb):
    """(switch bb, true_target, false_target) testing the bool result of the call in bb (through copies / Not)"""
    c = f.blocks[bb]["t"][1]
    res = place_local(c["dest"])
    aliases = {res: False}  # local -> negated?
    changed = True
    while changed:
        changed = False
        for b2, si, pl, rv, sp in f.assigns():
            if not isinstance(pl, int) or pl in aliases:
                continue
            if rv[0] == "use" and op_local(rv[1]) in aliases and not place_projs(op_place(rv[1])):
                aliases[pl] = aliases[op_local(rv[1])]
                changed = True
            elif rv[0] == "un" and rv[1] == "Not" and op_local(rv[2]) in aliases:
                aliases[pl] = not aliases[op_local(rv[2])]
                changed = True
            elif rv[0] == "use" and op_place(rv[1]) is not None and place_projs(op_place(rv[1])):
                # a field of a tuple the bool was put into (`match (list.is_empty(), as_json) { .. }`)
                p = op_place(rv[1])
                fs = proj_fields(place_projs(p))
                if len(fs) == 1 and fs[0][0] == "tuple":
                    for d in f.whole_defs(place_local(p)):
                        if d[0] == "assign" and d[3][0] == "agg" and d[3][1][0] == "tuple":
                            idx = int(fs[0][1]) if str(fs[0][1]).isdigit() else None
                            if idx is not None and idx < len(d[3][2]) and op_local(d[3][2][idx]) in aliases:
                                aliases[pl] = aliases[op_local(d[3][2][idx])]
                                changed = True
    # the tuple field may also be switched on directly
    tup = {}
    for b2, si, pl, rv, sp in f.assigns():
        if rv[0] == "agg" and rv[1][0] == "tuple" and isinstance(pl, int):
            for idx, o in enumerate(rv[2]):
                if op_local(o) in aliases:
                    tup[(pl, str(idx))] = aliases[op_local(o)]
    for b2, b in enumerate(f.blocks):
        t = b["t"]
        if t[0] == "switch" and op_place(t[1]) is not None and place_projs(op_place(t[1])):
            p = op_place(t[1])
            fs = proj_fields(place_projs(p))
            if len(fs) == 1 and fs[0][0] == "tuple" and (place_local(p), str(fs[0][1])) in tup:
                neg = tup[(place_local(p), str(fs[0][1]))]
                false_t = [tg for v, tg in t[2] if v == 0]
                if false_t:
                    tt, ft = t[3], false_t[0]
                    if neg:
                        tt, ft = ft, tt
                    return (b2, tt, ft)
    for b2, b in enumerate(f.blocks):
        t = b["t"]
        if t[0] == "switch" and op_local(t[1]) in aliases and not place_projs(op_place(t[1])):
            neg = aliases[op_local(t[1])]
            false_t = [tg for v, tg in t[2] if v == 0]
            if not false_t:
                continue
            tt, ft = t[3], false_t[0]
            if neg:
                tt, ft = ft, tt
            return (b2, tt, ft)
    return None


def r8a_diagnostic_codes(ctx):
    r = Result("R8a", "the set of diagnostic codes constructed by the publisher = the set of codes passed to the disabling gate = the "
                      "set of codes the configuration loader accepts; every Diagnostic is constructed, and every collector is "
                      "called, only on the not-disabled edge of the gate with the same code literal; the code the quick-fix "
                      "handler compares with is one of them")
    crate = ctx.bin
    def is_gate_call(g, c):
        # a gate: a method of the configuration type that is handed a code and answers bool
        tf = crate.fns.get(c.get("res")) if c.get("res_local") else None
        return tf is not None and tf.ret == "bool" and tf.argc == 2 and "config::Config" in tf.local_ty(1) \
            and tf.local_ty(2).lstrip("&") == "str"
    pub = [f for f in crate.real_fns() if f.kind == "coroutine" and any(
        (c.get("res") or "").endswith("::publish_diagnostics") for _bb, c in f.calls())
        and any(is_gate_call(f, c) for _bb, c in f.calls())]
    if not pub:
        # the collecting half was extracted into a synchronous helper of the server type: look at the publishing coroutine with
        # that helper inlined
        for f0 in crate.real_fns():
            if f0.kind == "coroutine" and any((c.get("res") or "").endswith("::publish_diagnostics") for _bb, c in f0.calls()):
                v = ctx.inl(f0, depth=1, max_blocks=600, tag="r8a", pred=lambda g: "FixtureDatabase" not in g.id and "config::" not in g.id)
                if any(is_gate_call(v, c) for _bb, c in v.calls()):
                    pub.append(v)
    if len(pub) != 1:
        r.anchor_missing("diagnostics publisher", "found %d coroutines that gate and publish diagnostics" % len(pub))
        return r
    f = pub[0]
    dom = f.dominators()
    gates = {}  # literal -> (bb, target of the edge on which the code is published)
    gate_calls = []  # (bb, gate fn id, literal, (true_target, false_target))
    for bb, c in f.calls():
        if is_gate_call(f, c):
            lits = literals_reaching(f, c["args"][1]) if len(c["args"]) > 1 else set()
            sw = _switch_after_call(f, bb)
            if len(lits) == 1 and sw is not None:
                gate_calls.append((bb, c["res"], next(iter(lits)), (sw[1], sw[2])))
            else:
                r.violate("R8a|gate-shape|%s" % sorted(lits), "gate call at %s does not test one literal code" % crate.span_str(c["span"]))
    # Diagnostic aggregates, in the publisher or in closures nested in it (`.extend(items.into_iter().map(|x| Diagnostic {..}))`):
    # a closure's sites count at the block of the publisher where the closure is built
    def root_block(g, bb):
        hops = 0
        while g.id != f.id and hops < 6:
            site = crate.closure_sites().get(g.id)
            if site is None:
                return None
            g, bb = site[0], site[1]
            hops += 1
        return bb if g.id == f.id else None
    nested = [f] + [g for g in crate.real_fns() if g.id != f.id and g.id.startswith(f.id + "::")]
    # builders: local functions the publisher calls that return Diagnostics; their constructions count at the calling block
    built_at = {}
    for g0 in list(nested):
        for bb0, c0 in g0.calls():
            tf = crate.fns.get(c0.get("res")) if c0.get("res_local") else None
            if tf is not None and tf.kind in ("fn", "method") and re.search(r"\bDiagnostic\b", tf.ret or "") and not is_gate_call(g0, c0):
                rb0 = root_block(g0, bb0)
                for h in [tf] + [x for x in crate.real_fns() if x.root == tf.id and x.id != tf.id]:
                    built_at.setdefault(h.id, rb0)
                    if h not in nested:
                        nested.append(h)
    codes = defaultdict(list)
    for g in nested:
        for bb, si, pl, rv, sp in g.assigns():
            if rv[0] == "agg" and rv[1][0] == "adt" and rv[1][1].endswith("::Diagnostic") and "code" in rv[1][3]:
                lits = literals_reaching(g, rv[2][rv[1][3].index("code")])
                rb = built_at[g.id] if g.id in built_at else root_block(g, bb)
                for l in lits:
                    codes[l].append(rb)
                if not lits:
                    r.violate("R8a|diagnostic-without-code", "a Diagnostic is constructed at %s without a literal code" % crate.span_str(sp))
    # which edge of a gate lets its code through?  The one that dominates the Diagnostic constructions carrying the same literal;
    # all call sites of one gate function must agree (an inverted gate -- `if disabled(code) { publish it }` -- disagrees with
    # its siblings), and a gate function named like a negative ("disabled") that is used once keeps the false edge
    pol = defaultdict(set)
    per_call = {}
    for bb, gid, lit, (tt, ft) in gate_calls:
        cons = [b for b in codes.get(lit, []) if b is not None]
        e = None
        if cons and all(tt in dom.get(b, set()) for b in cons):
            e = "true"
        elif cons and all(ft in dom.get(b, set()) for b in cons):
            e = "false"
        per_call[bb] = e
        if e:
            pol[gid].add(e)
    for bb, gid, lit, (tt, ft) in gate_calls:
        edges = pol.get(gid, set())
        others = {per_call[b2] for b2, g2, _l, _t in gate_calls if g2 == gid and b2 != bb and per_call[b2]}
        e = per_call[bb]
        if e and others and e not in others:
            r.violate("R8a|gate-polarity|%s" % lit, "the gate of `%s` lets the code through on its %s edge, the other calls of %s on the %s edge" % (
                lit, e, gid.split("::")[-1], sorted(others)[0]))
            continue
        if e is None:
            e = sorted(others)[0] if len(others) == 1 else "false"
        gates[lit] = (bb, tt if e == "true" else ft)
    # accepted by the configuration loader
    # the configuration loader: literal tables (array literals or const items) in the config module that contain at least one
    # of the gated / constructed codes are the tables of accepted codes
    tables = []
    for g in crate.fns.values():
        if "config::" not in g.id:
            continue
        for bb, si, pl, rv, sp in g.assigns():
            if rv[0] == "agg" and rv[1][0] == "array":
                t = set()
                for o in rv[2]:
                    t |= literals_reaching(g, o)
                if t:
                    tables.append(t)
            for o in ([rv[1]] if rv[0] == "use" else []):
                k = op_const(o) if isinstance(o, list) else None
                if k and "named" in k:
                    t = crate.const_literals(k["named"])
                    if t:
                        tables.append(t)
    known_codes = set(gates) | set(codes)
    valid = set()
    for t in tables:
        if t & known_codes:
            valid |= t
    r.counts["gates"] = ",".join(sorted(gates))
    r.counts["codes"] = ",".join(sorted(codes))
    r.counts["valid"] = ",".join(sorted(valid))
    for lit in sorted(set(gates) | set(codes) | valid):
        key = "R8a|code|%s" % lit
        miss = [n for n, s_ in (("gate", gates), ("constructed", codes), ("accepted-by-config", valid)) if lit not in s_]
        if miss:
            r.violate(key, "diagnostic code `%s` is missing from: %s" % (lit, ", ".join(miss)))
        else:
            r.ok(sample={"code": lit, "in": "gate+constructed+config"})
    for lit, bbs in sorted(codes.items()):
        g = gates.get(lit)
        for bb in bbs:
            key = "R8a|ungated|%s" % lit
            if g is not None and bb is not None and g[1] in dom.get(bb, set()):
                r.ok()
            else:
                r.violate(key, "Diagnostic with code `%s` is constructed on a path that does not pass the not-disabled edge of its gate" % lit)
    # collectors: calls into the fixture database between a gate and the diagnostics it guards
    coll = 0
    for bb, c in f.calls():
        res = c.get("res") or ""
        if c.get("res_local") and "FixtureDatabase" in res and not c["span"][4]:
            coll += 1
            gated = [lit for lit, (gb, nt) in gates.items() if nt in dom.get(bb, set())]
            key = "R8a|collector|%s" % res.split("::")[-1]
            if len(gated) == 1:
                r.ok(sample={"collector": res.split("::")[-1], "gate": gated[0]})
            else:
                r.violate(key, "collector %s is not called under exactly one gate (%s)" % (res.split("::")[-1], gated))
    # every publication has consulted every gate: a path that publishes without evaluating the gate of a code decides that
    # code's presence by something else than (findings, configuration)
    for bb, c in f.calls():
        if (c.get("res") or "").endswith("::publish_diagnostics"):
            missing = sorted(lit for lit, (gb, _nt) in gates.items() if gb not in dom.get(bb, set()))
            if missing:
                r.violate("R8a|publish-bypasses-gate|%s" % ",".join(missing),
                          "publish_diagnostics at %s is reachable without evaluating the gate(s) of %s" % (crate.span_str(c["span"]), missing))
            else:
                r.ok(sample={"publish_at": crate.span_str(c["span"]), "gates_dominating": sorted(gates)})
    # the publisher always publishes (an empty list is what clears the diagnostics the client still shows), publishes what the
    # collectors produced -- the vector handed to the client is only ever pushed to / extended -- and turns every collected
    # finding into a diagnostic (the construction lies on every way round the loop over a collector's result)
    pdom = f.postdominators()
    pubs = [bb for bb, c in f.calls() if (c.get("res") or "").endswith("::publish_diagnostics")]
    if pubs and not any(pb in pdom.get(0, set()) for pb in pubs):
        r.violate("R8a|publish-skipped", "the diagnostics publisher can return without publishing: diagnostics the client holds for "
                                         "the document are not cleared when nothing is left to report")
    elif pubs:
        r.ok(sample={"publish": "on every path through the publisher"})
    from .r7 import _root_local
    dvecs = set()
    for pb in pubs:
        c = f.blocks[pb]["t"][1]
        for a in c["args"]:
            l = op_local(a)
            if l is not None and "Diagnostic>" in f.local_ty(l) and "Vec<" in f.local_ty(l):
                dvecs.add(_root_local(f, a))
    for bb, c in f.calls():
        res = c.get("res") or ""
        if not c["args"] or not re.search(r"vec::Vec::<T, A>::(\w+)$", res) or _root_local(f, c["args"][0]) not in dvecs:
            continue
        meth = res.rsplit("::", 1)[1]
        if meth in ("push", "extend", "extend_from_slice", "append", "len", "is_empty", "reserve", "with_capacity", "new", "iter", "as_slice",
                    "sort", "sort_by", "sort_by_key", "sort_unstable_by", "sort_unstable_by_key", "capacity", "shrink_to_fit"):
            r.ok()
        else:
            r.violate("R8a|diagnostics-vector|%s" % meth, "the vector handed to the client is modified with `%s` at %s: findings the "
                                                          "collectors produced are dropped before publishing" % (meth, crate.span_str(c["span"])))
    from .r1e import natural_loops, NEXT_LIKE
    coll_dests = {}
    for bb, c in f.calls():
        if c.get("res_local") and "FixtureDatabase" in (c.get("res") or "") and not c["span"][4]:
            coll_dests[place_local(c["dest"])] = (c["res"] or "").split("::")[-1]
    from .r7 import _iter_sources
    diag_blocks = {rb for bbs in codes.values() for rb in bbs if rb is not None}
    for hdr, latches, body in natural_loops(f):
        nxt = [b for b in body if f.blocks[b]["t"][0] == "call" and NEXT_LIKE.search(f.blocks[b]["t"][1].get("fn") or "")
               and f.blocks[b]["t"][1]["span"][4].startswith("desugar:ForLoop")]
        if not nxt:
            continue
        srcs = _iter_sources(f, f.blocks[nxt[0]]["t"][1]["args"][0])
        which = [coll_dests[x] for x in srcs if x in coll_dests]
        if not which:
            continue
        built = [b for b in diag_blocks if b in body]
        if not built:
            continue
        # no way round the loop avoids the construction
        from .r1e import _avoiding_path
        w = _avoiding_path(f, hdr, set(latches), body, set(built))
        key = "R8a|finding-dropped|%s" % which[0]
        if w is None:
            r.ok(sample={"loop_over": which[0], "every_element_becomes_a_diagnostic": True})
        else:
            r.violate(key, "the loop over the result of %s can go round without constructing a Diagnostic: some findings are "
                           "not published" % which[0])
    # quick-fix handler literal
    for g in crate.real_fns():
        if "handle_code_action" in g.id:
            for bb, c in g.calls():
                if "PartialEq" in (c.get("fn") or ""):
                    for a in c["args"]:
                        s = op_str(a)
                        if s is None and op_local(a) is not None:
                            ls = literals_reaching(g, a)
                            s = next(iter(ls)) if len(ls) == 1 else None
                        if s is not None and "-" in s:
                            if s in codes:
                                r.ok(sample={"quick_fix_code": s})
                            else:
                                r.violate("R8a|quickfix|%s" % s, "the quick-fix handler compares with code `%s`, which is never published" % s)
    r.floor("diagnostic codes", len(codes), 3)
    r.floor("collectors", coll, 3)
    return r


def r11a_analyze_then_publish(ctx):
    r = Result("R11a", "in the open/change handlers every path through the (cleaning) analysis call continues to the diagnostics "
                       "publisher, and the publisher receives the same uri / path values the analysis was given")
    crate = ctx.bin
    from .r3 import handler_roots
    from ..facts import DbInfo
    db = ctx.memo("dbinfo", lambda: DbInfo(ctx))
    entry = db.analysis_entry()
    n = 0
    for h in handler_roots(crate):
        if not re.search(r"::did_(open|change)::", h.id):
            continue
        ana = [bb for bb, c in h.calls() if c.get("res_local") and entry is not None and entry.id in db.cg.reach([c["res"]])]
        from .. import roles
        pubs = roles.diagnostics_publishers(ctx)
        pub = [bb for bb, c in h.calls() if c.get("res_local") and c.get("res") in pubs]
        combined = set()
        # an async helper that itself analyses and then always publishes for the same document (`analyze_and_publish`) is both
        # steps at once: its coroutine body is checked with the same obligations
        for bb, c in h.calls():
            k = crate.fns.get(c.get("res")) if c.get("res_local") else None
            body = crate.fns.get("%s::{closure#0}" % c["res"]) if k is not None else None
            if body is None or body.kind != "coroutine" or bb in pub:
                continue
            a2 = [b2 for b2, c2 in body.calls() if c2.get("res_local") and entry is not None and entry.id in db.cg.reach([c2["res"]])]
            p2 = [b2 for b2, c2 in body.calls() if c2.get("res_local") and c2.get("res") in pubs]
            if not a2 or not p2:
                continue
            bd, bp = body.dominators(), body.postdominators()
            if all(any(x in bd.get(y, set()) for x in a2) for y in p2) and all(any(y in bp.get(x, set()) for y in p2) for x in a2) \
                    and _skips_analysis_on_bool(body, set(a2)) is None \
                    and all({_root(body, x) for x in body.blocks[x_]["t"][1]["args"]} & {_root(body, y) for y in body.blocks[y_]["t"][1]["args"]}
                            for x_ in a2 for y_ in p2):
                # the call that builds the future and the polls of it are the same step
                for b3, c3 in h.calls():
                    if c3.get("res") in (k.id, body.id):
                        combined.add(b3)
                        if b3 not in ana:
                            ana.append(b3)
                        if b3 not in pub:
                            pub.append(b3)
        n += 1
        key = "R11a|%s" % h.id
        if not ana:
            r.violate(key + "|no-analysis", "%s does not analyse the document" % h.id)
            continue
        # the handler may give up before analysing only because something is missing (the None / Err outcome of a lookup: no
        # path for the uri, no content change in the notification); a return decided by a bool -- "the text equals what is
        # cached" -- skips an analysis whose outcome also depends on other files and on what the scan wrote meanwhile
        bad_skip = _skips_analysis_on_bool(h, set(ana))
        if bad_skip is not None:
            r.violate(key + "|analysis-skipped", "%s can return without analysing the notified content on a branch that is not "
                                                 "the None / Err outcome of a lookup (decided at %s)" % (h.id, crate.span_str(bad_skip)))
            continue
        pdom = h.postdominators()
        dom = h.dominators()
        # no publishing without analysing first: every path to a publisher passes an analysis call (a handler that skips
        # the analysis for some contents -- "text unchanged" -- republishes what an older state of the workspace produced)
        if pub and not all(any(a in dom.get(p, set()) for a in ana) for p in pub):
            r.violate(key + "|analysis-skipped", "%s: a path reaches publish_diagnostics_for_file without passing the analysis "
                                                 "of the notified content" % h.id)
            continue
        # the publisher is awaited: the call creating the future must post-dominate the analysis call
        if pub and all(any(p in pdom.get(a, set()) for p in pub) for a in ana):
            # same path operand
            ok_same = True
            for p in pub:
                cp = h.blocks[p]["t"][1]
                for a in ana:
                    if a in combined and p in combined:
                        continue  # same document checked inside the helper
                    ca = h.blocks[a]["t"][1]
                    ra = {_root(h, x) for x in ca["args"]}
                    rp = {_root(h, x) for x in cp["args"]}
                    if not (ra & rp):
                        ok_same = False
            if ok_same:
                r.ok(sample={"handler": h.id.split("::")[-2], "analysis->publish": True})
            else:
                r.violate(key + "|different-document", "%s publishes diagnostics for another path than it analysed" % h.id)
        else:
            r.violate(key + "|not-followed", "%s: an analysis call is not followed on every path by publish_diagnostics_for_file" % h.id)
    r.floor("open/change handlers", n, 2)
    return r


def _skips_analysis_on_bool(h, ana):
    """span of a switch on a non-Option/Result value that decides between reaching an analysis call and returning without one"""
    def reach(a, stop):
        seen, st = {a}, [a]
        while st:
            x = st.pop()
            if x in stop:
                continue
            for s2 in h.succs(x):
                if s2 not in seen:
                    seen.add(s2)
                    st.append(s2)
        return seen
    before = reach(0, ana)
    rets = {b for b in before if h.blocks[b]["t"][0] == "ret" and b not in ana}
    if not rets:
        return None
    for b in sorted(before - ana):
        t = h.blocks[b]["t"]
        if t[0] != "switch":
            continue
        succ = h.succs(b)
        to_ana = [bool(reach(s2, set()) & ana) for s2 in succ]
        to_ret_wo = [bool(reach(s2, ana) & rets) for s2 in succ]
        # a successor that can only return without analysing, next to one that still reaches the analysis
        if not (any(a and True for a in to_ana) and any(r_ and not a for a, r_ in zip(to_ana, to_ret_wo))):
            continue
        src_ty = None
        for st_ in h.blocks[b]["s"]:
            if st_[0] == "=" and st_[2][0] == "discr" and place_local(st_[1]) == op_local(t[1]):
                src_ty = h.local_ty(place_local(st_[2][1]))
        if src_ty is not None and re.search(r"option::Option<|result::Result<|ops::ControlFlow<|task::Poll<", src_ty):
            continue
        if h.local_ty(op_local(t[1])) not in ("bool",) and src_ty is None and op_local(t[1]) is not None \
                and h.local_ty(op_local(t[1])) not in ("bool", "u8", "u32", "usize", "isize"):
            continue
        sp = None
        for st_ in reversed(h.blocks[b]["s"]):
            if st_[0] == "=":
                sp = st_[3]
                break
        if sp is None:
            pb = [p_ for p_ in h.preds().get(b, []) if h.blocks[p_]["t"][0] == "call"]
            sp = h.blocks[pb[0]]["t"][1]["span"] if pb else [0, h.line, 0, h.line, ""]
        return sp
    return None


def _field_source(f, p):
    """the operand a single-field place `x.k` was built from, when x is a tuple / struct aggregate of locals (also through
    copies of x): `let (db, root) = scan_and_return(path)` or `ScannedDirectory { root, db }`, inlined"""
    fs = proj_fields(place_projs(p)) if p is not None and place_projs(p) else []
    if len(fs) != 1 or any(e == "*" for e in place_projs(p)[:0]):
        return None
    tl = place_local(p)
    for _hop in range(4):
        ds = f.whole_defs(tl)
        if len(ds) == 1 and ds[0][0] == "assign" and ds[0][3][0] == "use" and op_local(ds[0][3][1]) is not None \
                and not place_projs(op_place(ds[0][3][1])):
            tl = op_local(ds[0][3][1])
        else:
            break
    for d2 in f.whole_defs(tl):
        if d2[0] != "assign" or d2[3][0] != "agg":
            continue
        if d2[3][1][0] == "tuple" and str(fs[0][1]).isdigit() and int(fs[0][1]) < len(d2[3][2]):
            return d2[3][2][int(fs[0][1])]
        if d2[3][1][0] == "adt" and len(d2[3][1]) > 3 and fs[0][1] in d2[3][1][3]:
            return d2[3][2][d2[3][1][3].index(fs[0][1])]
    return None


def _root(f, op, depth=0):
    l = op_local(op)
    if l is None or depth > 10:
        return None
    p0 = op_place(op)
    if p0 is not None and [e for e in place_projs(p0) if e != "*"]:
        src = _field_source(f, [place_local(p0), [e for e in place_projs(p0) if e != "*"]])
        if src is not None:
            return _root(f, src, depth + 1)
    for d in f.whole_defs(l):
        if d[0] == "assign" and d[3][0] == "ref":
            return _root(f, ["cp", d[3][2]], depth + 1)
        if d[0] == "assign" and d[3][0] == "use" and op_local(d[3][1]) is not None:
            return _root(f, d[3][1], depth + 1)
        if d[0] == "call" and value_preserving(d[2]) and d[2]["args"]:
            return _root(f, d[2]["args"][0], depth + 1)
    return l


# ------------------------------------------------------------------------------------------ scopes
def r8b_scope_order(ctx):
    r = Result("R8b", "FixtureScope's discriminants increase in pytest's order function < class < module < package < session, "
                      "parse()/as_str() literals are a bijection onto the variants, and a ScopeMismatch is constructed only on "
                      "the true edge of `fixture.scope > dependency.scope`")
    crate = ctx.bin
    adt = crate.adts.get(SCOPE)
    if adt is None:
        r.anchor_missing("FixtureScope", "type not found")
        return r
    vs = sorted(adt["variants"], key=lambda v: int(v["discr"]) if v.get("discr") is not None else v["index"])
    names = [v["name"].lower() for v in vs]
    if names == PYTEST_SCOPE_ORDER:
        r.ok(sample={"scope_order": names})
    else:
        r.violate("R8b|order", "FixtureScope discriminant order %s differs from pytest's %s" % (names, PYTEST_SCOPE_ORDER))
    # as_str
    f = crate.fn("FixtureScope::as_str")
    g = crate.fn("FixtureScope::parse")
    if f is None or g is None:
        r.anchor_missing("FixtureScope::as_str/parse", "not found")
        return r
    as_str = {}
    for b in f.blocks:
        t = b["t"]
        if t[0] == "switch":
            for v, tgt in t[2]:
                lit = _const_to_ret(f, tgt)
                as_str[v] = lit
            # otherwise branch: remaining variant
            rest = [int(x["discr"]) for x in adt["variants"] if int(x["discr"]) not in as_str]
            if len(rest) == 1:
                as_str[rest[0]] = _const_to_ret(f, t[3])
    for v in adt["variants"]:
        lit = as_str.get(int(v["discr"]))
        key = "R8b|as_str|%s" % v["name"]
        if lit == v["name"].lower():
            r.ok()
        else:
            r.violate(key, "FixtureScope::%s.as_str() is %r" % (v["name"], lit))
    # parse: literal -> variant
    parse = {}
    for bb, c in g.calls():
        if "PartialEq" in (c.get("fn") or ""):
            lit = None
            for a in c["args"]:
                lit = lit or op_str(a)
            sw = _switch_after_call(g, bb)
            if lit and sw:
                var = _variant_built(g, sw[1])
                parse[lit] = var
    via_as_str = not parse and any((c.get("res") or "").endswith("FixtureScope::as_str") for h in [g] + [x for x in crate.real_fns() if x.root == g.id]
                                   for _b, c in h.calls())
    for v in adt["variants"]:
        key = "R8b|parse|%s" % v["name"]
        if parse.get(v["name"].lower()) == v["name"]:
            r.ok()
        elif via_as_str:
            r.ok(sample={"parse": "defined through as_str (inverse by construction)"} if len(r.samples) < 6 else None)
        else:
            r.violate(key, "FixtureScope::parse(%r) builds %r" % (v["name"].lower(), parse.get(v["name"].lower())))
    # ScopeMismatch construction guarded by fixture.scope > dependency.scope
    n = 0
    for h in crate.real_fns():
        if h.id.startswith("<"):
            continue  # derived Clone/Debug impls
        for bb, si, pl, rv, sp in h.assigns():
            if rv[0] == "agg" and rv[1][0] == "adt" and rv[1][1] == "fixtures::types::ScopeMismatch":
                n += 1
                names_ = rv[1][3]
                fx = _clone_src(h, rv[2][names_.index("fixture")])
                dp = _clone_src(h, rv[2][names_.index("dependency")])
                dom = h.dominators()
                ok = False
                for b2, c in h.calls():
                    fn_ = c.get("fn") or ""
                    if fn_ in ("std::cmp::PartialOrd::gt", "std::cmp::PartialOrd::lt") and b2 in dom.get(bb, set()):
                        a0 = _scope_owner(h, c["args"][0])
                        a1 = _scope_owner(h, c["args"][1])
                        sw = _switch_after_call(h, b2)
                        if sw is None or sw[1] not in dom.get(bb, set()):
                            continue
                        if fn_.endswith("::gt") and a0 == fx and a1 == dp:
                            ok = True
                        if fn_.endswith("::lt") and a0 == dp and a1 == fx:
                            ok = True
                key = "R8b|mismatch-direction|%s" % h.id
                if ok:
                    r.ok(sample={"scope_mismatch_guard": "fixture.scope > dependency.scope", "fn": h.id.split("::")[-1]})
                else:
                    r.violate(key, "ScopeMismatch built in %s is not guarded by `fixture.scope > dependency.scope`" % h.id)
    r.floor("ScopeMismatch constructions", n, 1)
    return r


def _const_to_ret(f, bb, depth=0):
    if depth > 4:
        return None
    for s in f.blocks[bb]["s"]:
        if s[0] == "=" and place_local(s[1]) == 0 and s[2][0] == "use":
            return op_str(s[2][1])
    t = f.blocks[bb]["t"]
    if t[0] == "goto":
        return _const_to_ret(f, t[1], depth + 1)
    return None


def _variant_built(f, bb, depth=0):
    if depth > 4:
        return None
    for s in f.blocks[bb]["s"]:
        if s[0] == "=" and s[2][0] == "agg" and s[2][1][0] == "adt" and s[2][1][1] == SCOPE:
            return s[2][1][2]
    t = f.blocks[bb]["t"]
    if t[0] == "goto":
        return _variant_built(f, t[1], depth + 1)
    return None


def _clone_src(f, op, depth=0):
    """root local a (cloned) FixtureDefinition operand comes from"""
    l = op_local(op)
    if l is None or depth > 8:
        return None
    for d in f.whole_defs(l):
        if d[0] == "call" and d[2]["args"]:
            return _clone_src(f, d[2]["args"][0], depth + 1)
        if d[0] == "assign" and d[3][0] == "ref":
            return place_local(d[3][2])
        if d[0] == "assign" and d[3][0] == "use" and op_local(d[3][1]) is not None:
            return _clone_src(f, d[3][1], depth + 1)
    return l


def _scope_owner(f, op, depth=0):
    """local whose `.scope` field the operand refers to"""
    p = op_place(op)
    if p is None or depth > 6:
        return None
    for o, n in proj_fields(place_projs(p)):
        if n == "scope":
            return place_local(p)
    l = place_local(p)
    for d in f.whole_defs(l):
        if d[0] == "assign" and d[3][0] == "ref":
            return _scope_owner(f, ["cp", d[3][2]], depth + 1)
        if d[0] == "assign" and d[3][0] == "use":
            return _scope_owner(f, d[3][1], depth + 1)
    return None


# ------------------------------------------------------------------------------------------ CLI
def _unused_fns(ctx):
    from .. import roles
    return roles.unused_list_fns(ctx)


def _unused_cmd(ctx):
    """the `fixtures unused` command, found by role (calls get_unused_fixtures and process::exit), as inlined view so that
    output helpers extracted from it are seen"""
    cands = [f for f in ctx.bin.real_fns() if f.kind in ("fn", "method")
             and any((c.get("res") in _unused_fns(ctx)) for _b, c in f.calls())
             and any((c.get("res") or "") == "std::process::exit" for _b, c in f.calls())]
    if len(cands) != 1:
        return None
    return ctx.inl(cands[0], depth=2, max_blocks=300, pred=lambda g: g.crate.name == cands[0].crate.name and "FixtureDatabase" not in g.id, tag="cli")


def r11b_exit_status(ctx):
    r = Result("R11b", "in the `fixtures unused` command exit(0) is dominated by the true edge and exit(1) by the false edge of "
                       "is_empty() on the vector returned by get_unused_fixtures, and both output formats iterate that vector")
    crate = ctx.bin
    f = _unused_cmd(ctx)
    if f is None:
        r.anchor_missing("unused-fixtures command", "no function that calls get_unused_fixtures and std::process::exit")
        return r
    src = [bb for bb, c in f.calls() if (c.get("res") in _unused_fns(ctx))]
    if len(src) != 1:
        r.anchor_missing("get_unused_fixtures call", "found %d" % len(src))
        return r
    v = place_local(f.blocks[src[0]]["t"][1]["dest"])
    dom = f.dominators()
    exits = []
    for bb, c in f.calls():
        if (c.get("res") or "") == "std::process::exit" and src[0] in dom.get(bb, set()):
            cv = _const_value(f, c["args"][0])
            if cv is None and op_local(c["args"][0]) is not None:
                # `let code = match .. { .. => 0, .. => 1 }; exit(code)`: each arm that sets the code is an exit point of its own
                arms = [(d[1], (op_const(d[3][1]) or {}).get("v")) for d in _const_defs(f, op_local(c["args"][0]))]
                if arms and all(v is not None for _b, v in arms):
                    exits += arms
                    continue
            exits.append((bb, cv))
    empties = [(bb, _switch_after_call(f, bb)) for bb, c in f.calls()
               if (c.get("res") or "").endswith("::is_empty") and _root(f, c["args"][0]) == v]
    empties = [(bb, sw) for bb, sw in empties if sw]
    for bb, code in exits:
        key = "R11b|exit(%s)" % code
        want_true = code == "0"
        ok = any((sw[1] if want_true else sw[2]) in dom.get(bb, set()) for _b, sw in empties)
        if ok:
            r.ok(sample={"exit": code, "guard": "unused.is_empty() == %s" % want_true})
        else:
            r.violate(key, "exit(%s) is not controlled by the %s edge of is_empty() on the list of unused fixtures" % (code, "true" if want_true else "false"))
    codes = sorted(c for _b, c in exits if c is not None)
    if "0" not in codes or "1" not in codes:
        r.violate("R11b|exit-codes|%s" % ",".join(codes), "expected exit(0) and exit(1) in the command, found %s" % codes)
    # both formats iterate the same vector
    loops = [bb for bb, c in f.calls() if c.get("fn") in ("std::iter::IntoIterator::into_iter", "std::iter::Iterator::map") and _root(f, c["args"][0]) == v]
    iters = [bb for bb, c in f.calls() if re.search(r"::(iter|into_iter)$", c.get("res") or "") and c["args"] and _root(f, c["args"][0]) == v]
    # text format: every element of the list is printed (no iteration can skip the print)
    for bb, c in f.calls():
        if c.get("fn") == "std::iter::Iterator::next" and c["span"][4].startswith("desugar:ForLoop"):
            from .r4 import _iter_source_local, loop_body
            if _iter_source_local(f, c["args"][0]) != v:
                continue
            body, some_bb = loop_body(f, bb)
            prints = {b2 for b2 in body if f.blocks[b2]["t"][0] == "call" and (f.blocks[b2]["t"][1].get("res") or "").endswith("::_print")}
            # can the header be reached again from the body entry without passing a print?
            seen, st, skipped = {some_bb}, [some_bb], False
            while st:
                x = st.pop()
                if x in prints:
                    continue
                for s2 in f.succs(x):
                    if s2 == bb:
                        skipped = True
                    elif s2 in body and s2 not in seen:
                        seen.add(s2)
                        st.append(s2)
            key = "R11b|text loop can skip an entry"
            if prints and not skipped:
                r.ok(sample={"text_loop": "every element printed"})
            else:
                r.violate(key, "the text-format loop over the unused list at %s can continue without printing an element: text and "
                               "json outputs list different entries" % ctx.bin.span_str(c["span"]))
    # json format (and any iterator pipeline over the list): no adaptor that can drop elements
    from .r7 import _iter_sources
    for bb, c in f.calls():
        m = re.search(r"iter::Iterator::(filter|filter_map|skip|take|step_by|skip_while|take_while|map_while|flat_map|flatten|dedup\w*)$", c.get("fn") or "")
        if m and c["args"] and v in _iter_sources(f, c["args"][0]):
            r.violate("R11b|output drops entries|%s" % m.group(1), "the unused list is passed through `%s` at %s before it is printed: the "
                      "formats list different entries, and the exit status (taken from the full list) disagrees with the output" % (
                          m.group(1), ctx.bin.span_str(c["span"])))
    r.counts["iterations_of_unused"] = len(set(loops) | set(iters))
    r.floor("iterations over the unused list (one per output format)", len(set(loops) | set(iters)), 2)
    return r


def _const_defs(f, l, depth=0):
    out = []
    for d in f.whole_defs(l):
        if d[0] == "assign" and d[3][0] == "use":
            if op_const(d[3][1]) is not None:
                out.append(d)
            elif op_local(d[3][1]) is not None and depth < 4 and not place_projs(op_place(d[3][1])):
                out += _const_defs(f, op_local(d[3][1]), depth + 1)
            else:
                return []
        else:
            return []
    return out


def _const_value(f, op, depth=0):
    k = op_const(op)
    if k is not None:
        return k.get("v")
    l = op_local(op)
    if l is None or depth > 6:
        return None
    vals = set()
    for d in f.whole_defs(l):
        if d[0] == "assign" and d[3][0] == "use":
            vals.add(_const_value(f, d[3][1], depth + 1))
        else:
            vals.add(None)
    return next(iter(vals)) if len(vals) == 1 else None


def r11d_json_output(ctx):
    r = Result("R11d", "under the json format branch of `fixtures unused` every printed value is a string literal that parses as "
                       "JSON or the result of serde_json::to_string*/json! serialisation")
    crate = ctx.bin
    f = _unused_cmd(ctx)
    if f is None:
        r.anchor_missing("unused-fixtures command", "no function that calls get_unused_fixtures and std::process::exit")
        return r
    # find the format test: comparison with literal "json"
    jbs = []
    for bb, c in f.calls():
        if "PartialEq" in (c.get("fn") or "") and any("json" in literals_reaching(f, a) for a in c["args"]):
            sw = _switch_after_call(f, bb)
            if sw:
                jbs.append(sw)
    if not jbs:
        r.anchor_missing("json format test", "no comparison with the literal \"json\"")
        return r
    dom = f.dominators()
    n = 0
    for bb, c in f.calls():
        if c["span"][4] in ("macro:println", "macro:print") and (c.get("res") or "").endswith("::_print"):
            if not any(jb[1] in dom.get(bb, set()) for jb in jbs):
                continue
            n += 1
            # what is printed: format pieces + arguments
            lits, args_ok = _print_contents(crate, f, bb)
            key = "R11d|print|%s" % "+".join(sorted(lits))[:60].replace("\n", "\\n")
            bad = []
            for l in lits:
                try:
                    json.loads(l.strip() or "null")
                except Exception:
                    bad.append(l)
            if bad:
                r.violate(key, "json branch prints the literal %r, which is not valid JSON" % bad)
            elif not args_ok:
                r.violate(key, "json branch interpolates a value that is not produced by serde_json::to_string*")
            else:
                r.ok(sample={"json_print": sorted(lits)[:2] or ["<serializer output>"], "serializer_args": args_ok})
    r.floor("print sites in the json branch", n, 1)
    return r


def _print_contents(crate, f, bb):
    """(literal text printed, whether every interpolated argument is a serde_json result) for a `_print(args)` call"""
    c = f.blocks[bb]["t"][1]
    lits = set()
    ser = non_ser = False
    l = op_local(c["args"][0])
    for d in f.whole_defs(l) if l is not None else []:
        if d[0] != "call":
            continue
        c2 = d[2]
        res = c2.get("res") or ""
        if res.endswith("Arguments::<'a>::from_str"):
            s0 = op_str(c2["args"][0])
            if s0 is not None:
                lits.add(s0)
        elif res.endswith("Arguments::<'a>::new") or "Arguments" in res:
            # template bytes: literal pieces are the printable runs
            for a in c2["args"]:
                for tb in _bytes_reaching(f, a):
                    piece = "".join(ch for ch in tb if (" " <= ch < "\x7f") or ch == "\n")
                    if piece.strip():
                        lits.add(piece)
            # interpolated arguments
            for b2, c3 in f.calls():
                r3 = c3.get("res") or ""
                if "fmt::rt::Argument" in r3 and "new_" in r3 and c3["span"][1] == c["span"][1]:
                    org = _call_origin(f, c3["args"][0])
                    if org and re.search(r"serde_json::(ser::)?to_string(_pretty)?$|serde_json::to_string", org):
                        ser = True
                    else:
                        non_ser = True
    args_ok = (ser and not non_ser) or (not ser and not non_ser)
    return lits, args_ok


def _bytes_reaching(f, op, depth=0):
    k = op_const(op)
    if k is not None:
        return [k["b"]] if "b" in k else []
    l = op_local(op)
    if l is None or depth > 6:
        return []
    out = []
    for d in f.whole_defs(l):
        if d[0] == "assign" and d[3][0] == "use":
            out += _bytes_reaching(f, d[3][1], depth + 1)
        elif d[0] == "assign" and d[3][0] == "ref":
            out += _bytes_reaching(f, ["cp", d[3][2]], depth + 1)
    return out


def _call_origin(f, op, depth=0):
    l = op_local(op)
    if l is None or depth > 10:
        return None
    for d in f.whole_defs(l):
        if d[0] == "call":
            c = d[2]
            res = c.get("res") or ""
            if value_preserving(c) or re.search(r"::(unwrap|unwrap_or_default|unwrap_or_else|expect|as_str|as_ref)$", res):
                return _call_origin(f, c["args"][0], depth + 1) if c["args"] else res
            return res
        if d[0] == "assign" and d[3][0] in ("use",):
            pl = op_place(d[3][1])
            if pl is not None and not isinstance(pl, int):
                tf = [e for e in place_projs(pl) if isinstance(e, list) and e[0] == "f" and e[3] == "tuple"]
                if tf:
                    for d2 in f.whole_defs(place_local(pl)):
                        if d2[0] == "assign" and d2[3][0] == "agg" and tf[0][1] < len(d2[3][2]):
                            return _call_origin(f, d2[3][2][tf[0][1]], depth + 1)
            return _call_origin(f, d[3][1], depth + 1)
        if d[0] == "assign" and d[3][0] == "ref":
            return _call_origin(f, ["cp", d[3][2]], depth + 1)
    return None


# ------------------------------------------------------------------------------------------ completion
def r11c_one_entry_per_name(ctx):
    r = Result("R11c", "in the function that builds the per-file fixture view every push into the result is dominated by a negative "
                       "`seen.contains(name)` test and followed by `seen.insert(name)` (every name appears once)")
    crate = ctx.bin
    def has_seen_test(g):
        return any((c.get("res") or "").startswith("std::collections::HashSet::<T, S") and (c.get("res") or "").endswith("::contains") for _b, c in g.calls())
    cands = []
    for f0 in crate.real_fns():
        if f0.kind == "method" and f0.ret == "std::vec::Vec<fixtures::types::FixtureDefinition>":
            # always the inlined view: a stage extracted into a helper (called once per stage) counts once per call
            v = ctx.inl(f0, depth=2, max_blocks=400, tag="view")
            if has_seen_test(v) and any((c.get("res") or "") == "std::vec::Vec::<T, A>::push" and "FixtureDefinition" in " ".join(c.get("targs", [])) for _b, c in v.calls()):
                cands.append(v)
    # the cached wrapper inlines the builder too: keep the innermost (fewest blocks)
    cands.sort(key=lambda g: len(g.blocks))
    if not cands:
        r.anchor_missing("per-file view builder", "found 0 candidates")
        return r
    f = cands[0]
    dom = f.dominators()
    pdom = f.postdominators()
    contains = [(bb, _switch_after_call(f, bb)) for bb, c in f.calls() if (c.get("res") or "").endswith("::contains") and "HashSet" in (c.get("res") or "")]
    inserts = [bb for bb, c in f.calls() if (c.get("res") or "").endswith("::insert") and "HashSet" in (c.get("res") or "")]
    n = 0
    for bb, c in f.calls():
        if (c.get("res") or "") == "std::vec::Vec::<T, A>::push" and "FixtureDefinition" in " ".join(c.get("targs", [])):
            n += 1
            key = "R11c|%s|push#%d" % (f.id, n)
            guarded = any(sw and sw[2] in dom.get(bb, set()) for _b, sw in contains)
            followed = any(i in pdom.get(bb, set()) for i in inserts)
            if guarded and followed:
                r.ok(sample={"push_at": crate.span_str(c["span"]), "dedup": True})
            else:
                r.violate(key, "push at %s is %s" % (crate.span_str(c["span"]),
                                                    "not guarded by !seen.contains(name)" if not guarded else "not followed by seen.insert(name)"))
    r.floor("pushes into the per-file view", n, 1)
    return r


def r8c_text_fallback(ctx):
    r = Result("R8c", "every module name the AST recogniser of fixture decorators accepts (`<m>.fixture`) is also recognised by the "
                      "textual fallback used while the document does not parse: the fallback's literal tests are evaluated on the "
                      "synthetic line `@<m>.fixture`")
    crate = ctx.bin
    # the AST recogniser by role: a function over a Python `Expr` that compares identifiers with the literal "fixture"
    mods = set()
    recs = []
    for f0 in crate.real_fns():
        if f0.kind not in ("fn", "method") or not any("rustpython" in f0.local_ty(i) and "Expr" in f0.local_ty(i) for i in range(1, f0.argc + 1)):
            continue
        lits = set()
        for g in [g for g in crate.real_fns() if g.root == f0.id]:
            for bb, c in g.calls():
                if "PartialEq" in (c.get("fn") or "") or (c.get("res") or "").endswith("str>::eq"):
                    for a in c["args"]:
                        lits |= {x for x in literals_reaching(g, a) if x and re.fullmatch(r"[A-Za-z_][A-Za-z_0-9]*", x)}
        if "fixture" in lits:
            recs.append(f0.id)
            mods |= lits - {"fixture"}
    if not recs:
        r.anchor_missing("AST recogniser of fixture decorators", "no function over Expr compares with the literal \"fixture\"")
        return r
    r.counts["ast_recognisers"] = ",".join(sorted(x.split("::")[-1] for x in recs))
    r.counts["ast_modules"] = ",".join(sorted(mods))
    # textual fallback: functions in the completion-context code that test lines with contains/starts_with literals mentioning 'fixture'
    tests = []
    for f in crate.real_fns():
        for bb, c in f.calls():
            res = c.get("res") or ""
            if re.search(r"str::<impl str>::(contains|starts_with)", res) and len(c["args"]) > 1:
                s = op_str(c["args"][1])
                if s and "fixture" in s and "usefixtures" not in s:
                    tests.append((f.id, res.split("::")[-1], s))
    r.counts["fallback_tests"] = len(tests)
    if not tests:
        r.anchor_missing("text fallback", "no contains/starts_with test with a literal mentioning 'fixture'")
        return r
    by_fn = defaultdict(list)
    for fid, m, s in tests:
        by_fn[fid].append((m, s))
    for m in sorted(mods):
        line = "@%s.fixture" % m
        for fid, ts in sorted(by_fn.items()):
            hit = any((meth == "contains" and lit in line) or (meth == "starts_with" and line.startswith(lit)) for meth, lit in ts)
            key = "R8c|%s|%s" % (fid, m)
            if hit:
                r.ok(sample={"module": m, "fallback_fn": fid.split("::")[-1]})
            else:
                r.violate(key, "`%s` is recognised by the AST path but none of the textual tests %s in %s matches it" % (line, ts, fid))
    r.floor("decorator modules recognised by the AST path", len(mods), 2)
    return r


def r11e_report_root_is_scan_root(ctx):
    r = Result("R11e", "in every function that scans a workspace and then asks the database for a report rooted at a path, the report "
                       "is given the very path that was scanned (same local through references and copies): the stored paths are "
                       "canonical, a report rooted at another spelling of the directory (symlink, `..`) matches nothing")
    crate = ctx.bin
    n = 0
    seen_pairs = set()
    for f0 in crate.real_fns():
        if f0.kind not in ("fn", "method"):
            continue
        # inlined view: the scan (or the report) may have been extracted into a small helper of the command
        f = ctx.inl(f0, depth=2, max_blocks=150, tag="r11e", pred=lambda g: "FixtureDatabase" not in g.id)
        scans = [(bb, c) for bb, c in f.calls() if re.search(r"::scan_workspace(_with_excludes)?$", c.get("res") or "") and c.get("res_local")]
        if not scans:
            continue
        for bb, c in f.calls():
            res = c.get("res") or ""
            if not c.get("res_local") or (bb, c) in scans or "FixtureDatabase" not in res or len(c["args"]) < 2:
                continue
            g = crate.fns.get(res)
            if g is None:
                continue
            pidx = [i for i in range(2, g.argc + 1) if g.local_ty(i).lstrip("&") in ("std::path::Path", "std::path::PathBuf")]
            pidx = [i for i in pidx if i - 1 < len(c["args"])]
            if not pidx:
                continue
            if (res, f.origin[bb] if f.origin else f.id) in seen_pairs and f.origin and f.origin[bb] != f0.id:
                continue
            seen_pairs.add((res, f.origin[bb] if f.origin else f.id))
            n += 1
            key = "R11e|%s|%s" % (f.id, res.split("::")[-1])
            roots = {_root(f, sc["args"][1]) for _b, sc in scans if len(sc["args"]) > 1}
            # one of its path arguments is the root (a report may take a second path: a sub-directory, a file to describe)
            if any(_root(f, c["args"][i - 1]) in roots for i in pidx):
                r.ok(sample={"report": res.split("::")[-1], "rooted_at": "the scanned path"})
            else:
                r.violate(key, "%s passes %s a path that is not the one handed to scan_workspace" % (f.id, res.split("::")[-1]))
    r.floor("reports rooted at the scanned path", n, 1)
    return r


PYTEST_DECORATOR_KEYWORDS = {"scope", "autouse", "name", "params", "ids", "indirect", "argnames", "argvalues", "id", "marks"}  # the last two: pytest.param(..)


def r8d_decorator_keywords(ctx):
    r = Result("R8d", "each extractor of a decorator keyword (a function whose closures read `Keyword.arg` of the Python AST and compare "
                      "it with a string literal, its own or one handed in by the calling extractor) compares with literals that "
                      "are keywords of pytest's own fixture / parametrize API, and the extractor that feeds FixtureScope::parse "
                      "compares with \"scope\" alone (pytest-asyncio's loop_scope selects an event loop, it is not the fixture's "
                      "scope)")
    crate = ctx.bin
    from ..sel import elem_fields_in
    from .r3d import _closures_in, _local_in_root
    from .r5 import _slice_fields
    from ..facts import DbInfo
    db = ctx.memo("dbinfo", lambda: DbInfo(ctx))
    KW = "rustpython_parser::rustpython_ast::Keyword"
    roots = defaultdict(list)
    for f in crate.real_fns():
        roots[f.root].append(f)
    lits_by_root = defaultdict(set)
    for root, fam in sorted(roots.items()):
        if not any("arg" in elem_fields_in(g, KW) for g in fam):
            continue
        H = crate.fns.get(root)
        closures = _closures_in(crate, H) if H is not None else {}
        for g in fam:
            for bb, c in g.calls():
                if not ("PartialEq" in (c.get("fn") or "") or (c.get("res") or "").endswith("str>::eq")):
                    continue
                # a comparison of the keyword's NAME (one side reads `Keyword.arg`), not of an attribute / function name that
                # the same extractor also tests (`pytest.param`, `mark.usefixtures`)
                if any(nm in ("attr", "id") and re.search(r"::Expr(Attribute|Name)$", o) for a in c["args"] for o, nm in _slice_fields(g, a)):
                    continue
                for a in c["args"]:
                    direct = {x for x in literals_reaching(g, a) if x and re.fullmatch(r"[a-z_]+", x)}
                    lits_by_root[root] |= direct
                    if direct or H is None or op_local(a) is None:
                        continue
                    # the literal is a parameter of the extractor helper: take it from every call of the helper
                    pl = _local_in_root(closures, H, g, op_local(a)) if (g is H or g.id in closures) else None
                    if pl is not None and 1 <= pl <= H.argc:
                        for cf, cbb, cc in db.origins.callers.get(H.id, []):
                            if pl - 1 < len(cc["args"]):
                                lits_by_root[cf.root] |= {x for x in literals_reaching(cf, cc["args"][pl - 1]) if x and re.fullmatch(r"[a-z_]+", x)}
    n = 0
    for root, lits in sorted(lits_by_root.items()):
        if not lits:
            continue
        fam = roots[root]
        n += 1
        key = "R8d|%s" % root
        parses_scope = any((c.get("res") or "").endswith("FixtureScope::parse") for g in fam for _b, c in g.calls())
        foreign = sorted(lits - PYTEST_DECORATOR_KEYWORDS)
        if foreign:
            r.violate(key + "|foreign-keyword", "%s reads decorator keyword(s) %s, which pytest's fixture / parametrize API does not have" % (root, foreign))
        elif parses_scope and lits != {"scope"}:
            r.violate(key + "|scope-keyword", "%s derives the fixture scope from keyword(s) %s" % (root, sorted(lits)))
        else:
            r.ok(sample={"extractor": root.split("::")[-1], "keyword": sorted(lits)})
    r.floor("decorator keyword extractors", n, 3)
    return r


def r8e_text_fallback_on_every_miss(ctx):
    r = Result("R8e", "the completion-context classifier (by role: returns Option<CompletionContext>, obtains the parsed AST and calls "
                      "a text fallback -- a callee returning the same type whose parameters carry no AST) answers `None` only through "
                      "the fallback: every path from the AST lookup to a return passes a `Some(..)` construction of the result or "
                      "the fallback call. A classifier that returns the AST walk's own `None` (fallback only when the parse fails) "
                      "offers nothing inside functions the walk does not reach (nested in `if`, `try`, `with`, another function)")
    crate = ctx.bin
    CC = "CompletionContext"
    n = 0
    for f in crate.real_fns():
        if f.kind not in ("fn", "method") or CC not in f.ret or "Option" not in f.ret:
            continue
        # the AST lookup by role: the external parser, or a local function that returns the parsed module
        def _gives_ast(c):
            res = c.get("res") or ""
            if res.startswith("rustpython_parser::parse") or res == "rustpython_parser::parser::parse":
                return True
            g = crate.fns.get(res) if c.get("res_local") else None
            return g is not None and "rustpython_ast::Mod" in g.ret
        parse = [bb for bb, c in f.calls() if _gives_ast(c)]
        if not parse:
            continue
        fb = []
        for bb, c in f.calls():
            g = crate.fns.get(c.get("res")) if c.get("res_local") else None
            if g is None or g.id == f.id or CC not in g.ret or "Option" not in g.ret:
                continue
            if any("rustpython" in g.local_ty(i) for i in range(1, g.argc + 1)):
                continue
            fb.append(bb)
        if not fb:
            continue
        n += 1
        some = set()
        for bb, si, pl, rv, sp in f.assigns():
            if place_local(pl) == 0 and rv[0] == "agg" and rv[1][0] == "adt" and rv[1][1].endswith("Option") and len(rv[2]) == 1:
                some.add(bb)
        stop = some | set(fb)
        bad = False
        for p0 in parse:
            seen, st = {p0}, [p0]
            while st:
                x = st.pop()
                if x in stop and x != p0:
                    continue
                if f.blocks[x]["t"][0] == "ret":
                    bad = True
                    break
                for s2 in f.succs(x):
                    if s2 not in seen:
                        seen.add(s2)
                        st.append(s2)
        key = "R8e|%s" % f.id
        if bad:
            r.violate(key, "%s can return the AST walk's own miss without consulting the text fallback" % f.id)
        else:
            r.ok(sample={"classifier": f.id.split("::")[-1], "fallback_calls": len(fb)})
    r.floor("completion-context classifiers with a text fallback", n, 1)
    return r


def r8f_proximity_precedence(ctx):
    r = Result("R8f", "a function that ranks a fixture by proximity (it takes a FixtureDefinition and the current file and returns an "
                      "integer) tests `same file` before it looks at the plugin / third-party flags (the file_path comparison "
                      "dominates every read of is_plugin / is_third_party): a file's own fixtures rank first whatever the file "
                      "is -- also when the file being edited is itself a plugin module or lies under site-packages")
    crate = ctx.bin
    DEF = "fixtures::types::FixtureDefinition"
    n = 0
    for f in crate.real_fns():
        if f.kind not in ("fn", "method") or f.ret not in ("u8", "u16", "u32", "usize", "i32", "i64", "u64"):
            continue
        tys = [f.local_ty(i) for i in range(1, f.argc + 1)]
        if not any(DEF in t for t in tys) or not any("std::path::Path" in t for t in tys):
            continue
        dom = f.dominators()
        cmp_blocks = []
        for bb, c in f.calls():
            if c.get("fn") in ("std::cmp::PartialEq::eq", "std::cmp::PartialEq::ne"):
                for a in c["args"]:
                    p = op_place(a)
                    l = op_local(a)
                    hit = False
                    if p is not None and any(o == DEF and nm == "file_path" for o, nm in proj_fields(place_projs(p))):
                        hit = True
                    elif l is not None:
                        for d in f.whole_defs(l):
                            if d[0] == "assign" and d[3][0] == "ref" and any(o == DEF and nm == "file_path" for o, nm in proj_fields(place_projs(d[3][2]))):
                                hit = True
                    if hit:
                        cmp_blocks.append(bb)
        flag_blocks = []
        for bb, b in enumerate(f.blocks):
            places = []
            for s_ in b["s"]:
                if s_[0] == "=":
                    rv = s_[2]
                    if rv[0] == "use":
                        places.append(op_place(rv[1]))
                    elif rv[0] == "ref":
                        places.append(rv[2])
                    elif rv[0] == "agg":
                        places += [op_place(o) for o in rv[2]]
            t = b["t"]
            if t[0] == "switch":
                places.append(op_place(t[1]))
            for p in places:
                if p is not None and any(o == DEF and nm in ("is_plugin", "is_third_party") for o, nm in proj_fields(place_projs(p))):
                    flag_blocks.append(bb)
        if not cmp_blocks or not flag_blocks:
            continue
        n += 1
        key = "R8f|%s" % f.id
        if all(any(cb in dom.get(fb, set()) for cb in cmp_blocks) for fb in flag_blocks):
            r.ok(sample={"ranking": f.id.split("::")[-1], "same_file_first": True})
        else:
            r.violate(key, "%s looks at is_plugin / is_third_party before (or without) the same-file test: the current file's own "
                           "fixtures are ranked by their origin flags" % f.id.split("::")[-1])
    r.floor("proximity ranking functions", n, 1)
    return r


def r8g_config_text_goes_to_the_parser(ctx):
    r = Result("R8g", "wherever the configuration text is handed to the TOML deserialiser, the deserialiser call post-dominates "
                      "the point where that text becomes available (the function entry for a parameter, the defining block "
                      "otherwise): no textual pre-test of the content (a `contains(\"[tool...]\")` fast path) decides that the "
                      "defaults apply -- TOML spells one table in many ways (quoted keys, spaces, inline tables, dotted keys), so a "
                      "textual test drops valid configuration, including the disabled diagnostic codes")
    from .r7 import _root_local
    crate = ctx.bin
    n = 0
    for f in crate.real_fns():
        for bb, c in f.calls():
            if not re.match(r"toml::(de::)?from_str$|<toml::.* as std::str::FromStr>::from_str$", c.get("res") or "") or not c["args"]:
                continue
            n += 1
            key = "R8g|%s" % f.id
            l = _root_local(f, c["args"][0])
            starts = set()
            for d in f.whole_defs(l) if l is not None else []:
                starts.add(0 if d[0] == "arg" else d[1])
            if not starts:
                starts = {0}
            pd = f.postdominators()
            if all(bb == s0 or bb in pd.get(s0, set()) for s0 in starts):
                r.ok(sample={"config_parser": f.id})
            else:
                r.violate(key, "%s can return without handing the configuration text to the TOML deserialiser: some path decides "
                               "on the configuration from the raw text" % f.id)
    r.floor("TOML deserialiser calls", n, 1)
    return r


def r8h_dependency_edges_kept(ctx):
    r = Result("R8h", "in the functions that build the cycle / scope-mismatch findings, a predicate that drops elements of a "
                      "definition's `dependencies` (filter / retain / skip_while / take_while / filter_map over an iterator of "
                      "that field) only asks whether the name is a known fixture: it contains no equality comparison. A "
                      "dependency compared with the fixture's own name and dropped (\"an override requests its parent\") removes "
                      "the self-edge of a fixture that really depends on itself whenever another file defines the name too")
    from .r5 import _slice_fields
    crate = ctx.bin
    pat = re.compile(r"\b(FixtureCycle|ScopeMismatch)\b")
    roots = set()
    for f in crate.real_fns():
        for _bb, _si, _pl, rv, _sp in f.assigns():
            if rv[0] == "agg" and rv[1][0] == "adt" and pat.search(rv[1][1]):
                roots.add(f.root)
    n = 0
    for root in sorted(roots):
        for g in [x for x in crate.real_fns() if x.root == root]:
            for bb, c in g.calls():
                meth = (c.get("fn") or c.get("res") or "").rsplit("::", 1)[-1]
                if meth not in ("filter", "retain", "skip_while", "take_while", "filter_map") or not c["args"]:
                    continue
                if not any(nm == "dependencies" for _o, nm in _slice_fields(g, c["args"][0])):
                    continue
                n += 1
                cmp_ = []
                for cid, _loc in c.get("clos", []):
                    cf = crate.fns.get(cid)
                    if cf is None:
                        continue
                    for _b2, c2 in cf.calls():
                        if c2.get("fn") in ("std::cmp::PartialEq::eq", "std::cmp::PartialEq::ne") and not c2["span"][4].startswith("macro:"):
                            cmp_.append(crate.span_str(c2["span"]))
                    for _b2, _s2, _p2, rv2, sp2 in cf.assigns():
                        if rv2[0] == "bin" and rv2[1] in ("Eq", "Ne") and not (sp2[4] if len(sp2) > 4 else "").startswith("macro:"):
                            cmp_.append(crate.span_str(sp2))
                key = "R8h|%s|%s over dependencies compares" % (root, meth)
                if cmp_:
                    r.violate(key, "%s drops dependency edges by an equality comparison (%s)" % (root.split("::")[-1], cmp_[0]))
                else:
                    r.ok(sample={"in": root.split("::")[-1], "predicate": meth, "asks_only": "known fixture?"})
    r.counts["predicates_over_dependencies"] = n  # no floor: a loop with an `if` instead of a filter has no such predicate
    # the graph covers definitions of every origin: a cycle that runs through an installed fixture is a cycle of the project too
    m = 0
    for root in sorted(roots):
        m += 1
        reads = set()
        for g in [x for x in crate.real_fns() if x.root == root]:
            reads |= _definition_fields_read(g)
        flags = sorted(reads & {"is_third_party", "is_plugin"})
        key = "R8h|%s|finding builder reads an origin flag" % root
        if flags:
            r.violate(key, "%s reads %s of a definition: findings (cycles, scope mismatches) that involve an installed or plugin "
                           "fixture are built differently or not at all" % (root.split("::")[-1], ", ".join(flags)))
        else:
            r.ok(sample={"finding builder": root.split("::")[-1], "definition fields read": sorted(reads)[:8]})
    r.floor("functions building cycle / scope findings", m, 2)
    return r


def _definition_fields_read(h):
    from ..sel import _rv_places
    reads = set()
    for b in h.blocks:
        places = []
        for st in b["s"]:
            if st[0] == "=":
                places += [pl for pl in _rv_places(st[2]) if pl is not None]
        if b["t"][0] == "call":
            places += [op_place(a) for a in b["t"][1]["args"] if op_place(a) is not None]
        elif b["t"][0] == "switch" and op_place(b["t"][1]) is not None:
            places.append(op_place(b["t"][1]))
        for pl in places:
            for o, nm in proj_fields(place_projs(pl)):
                if o.endswith("::FixtureDefinition"):
                    reads.add(nm)
    return reads


def r11f_unused_report_ignores_plugin_flag(ctx):
    r = Result("R11f", "the unused-fixture query (by role: returns (file, name) pairs) does not read a definition's `is_plugin` "
                       "flag: workspace-local pytest11 plugins are project fixtures and belong in the report; only third-party "
                       "definitions are skipped")
    from .. import roles
    crate = ctx.bin
    n = 0
    for fid in sorted(roles.unused_list_fns(ctx)):
        f = crate.fns[fid]
        n += 1
        g = f  # the query's own body and closures: what it calls (the resolver) legitimately ranks by origin
        reads = set()
        for h in [g] + [x for x in crate.real_fns() if x.root == f.id and x.id != f.id]:
            for b in h.blocks:
                places = []
                for st in b["s"]:
                    if st[0] == "=":
                        from ..sel import _rv_places
                        places += [pl for pl in _rv_places(st[2]) if pl is not None]
                if b["t"][0] == "call":
                    places += [op_place(a) for a in b["t"][1]["args"] if op_place(a) is not None]
                elif b["t"][0] == "switch" and op_place(b["t"][1]) is not None:
                    places.append(op_place(b["t"][1]))
                for pl in places:
                    for o, nm in proj_fields(place_projs(pl)):
                        if o.endswith("::FixtureDefinition"):
                            reads.add(nm)
        key = "R11f|%s|reads is_plugin" % fid
        if "is_plugin" in reads:
            r.violate(key, "%s consults `is_plugin`: fixtures of a workspace-local plugin are dropped from (or treated specially in) "
                           "the unused report" % fid.split("::")[-1])
        else:
            r.ok(sample={"unused_query": fid.split("::")[-1], "definition_fields_read": sorted(reads)})
    r.floor("unused-fixture queries", n, 1)
    return r


def r8i_docstring_blank_lines(ctx):
    r = Result("R8i", "in the docstring dedenter (by role: String -> String, splits into lines and measures leading whitespace with "
                      "trim_start) every emptiness test of a line is made on the TRIMMED line: the margin pass and the dedent pass "
                      "must agree on what a blank line is, and a whitespace-only line shorter than the indentation must not lower "
                      "the margin (every continuation line would keep extra leading spaces)")
    crate = ctx.bin
    n = 0
    for f in crate.real_fns():
        if f.kind not in ("fn", "method") or f.ret != "std::string::String" or f.argc < 1 or f.local_ty(1) != "std::string::String":
            continue
        fam = [g for g in crate.real_fns() if g.root == f.id]
        names = {(c.get("res") or "") for g in fam for _b, c in g.calls()}
        if not any(x.endswith("<impl str>::lines") for x in names) or not any(x.endswith("<impl str>::trim_start") for x in names):
            continue
        for g in fam:
            for bb, c in g.calls():
                if not (c.get("res") or "").endswith("<impl str>::is_empty") or c["span"][4].startswith("macro:"):
                    continue
                n += 1
                trimmed = False
                l = op_local(c["args"][0]) if c["args"] else None
                seen = set()
                while l is not None and l not in seen:
                    seen.add(l)
                    ds = g.whole_defs(l)
                    if len(ds) != 1:
                        break
                    d = ds[0]
                    if d[0] == "call":
                        if re.search(r"<impl str>::trim(_start|_end)?$", d[2].get("res") or ""):
                            trimmed = True
                            break
                        if re.search(r"Deref>?::deref$|::as_str$|::as_ref$", d[2].get("res") or "") and d[2]["args"]:
                            l = op_local(d[2]["args"][0])
                            continue
                        break
                    if d[0] == "assign" and d[3][0] == "use":
                        l = op_local(d[3][1])
                    elif d[0] == "assign" and d[3][0] == "ref":
                        l = place_local(d[3][2])
                    else:
                        break
                key = "R8i|%s|is_empty on an untrimmed line" % f.id
                if trimmed:
                    r.ok()
                else:
                    r.violate(key, "%s tests `is_empty()` on a line that was not trimmed (at %s)" % (f.id.split("::")[-1], crate.span_str(c["span"])))
    r.counts["blank_line_tests_in_the_docstring_dedenter"] = n  # no floor: the dedenter is recognised by its shape (lines + trim_start)
    return r
