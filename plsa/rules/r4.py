"""R4a/R4b: unordered iteration must not reach an answer unsorted (C08, C16, C20)."""
import re
from collections import defaultdict

from ..check import Result
from ..core import op_local, op_place, place_local, place_projs, proj_fields, value_preserving
from .. import sel
from ..reviewed import REVIEWED

S1_PAT = re.compile(r"dashmap::iter::Iter|std::collections::hash_map::|std::collections::hash_set::|dashmap::iter_set")
ORDERED_SINKS = re.compile(r"std::collections::(BTreeMap|BTreeSet|HashMap|HashSet|btree_map|btree_set|hash_map|hash_set)")


def _is_s1(targs):
    return bool(targs) and bool(S1_PAT.search(targs[0]))


def _root_local(f, op, depth=0):
    l = op_local(op)
    if l is None or depth > 10:
        return l
    for d in f.whole_defs(l):
        if d[0] == "assign" and d[3][0] == "ref":
            return place_local(d[3][2]) if not [e for e in place_projs(d[3][2]) if e != "*"] and isinstance(d[3][2], int) else _root_local(f, ["cp", d[3][2]], depth + 1)
        if d[0] == "assign" and d[3][0] == "use" and op_local(d[3][1]) is not None and not place_projs(op_place(d[3][1])):
            return _root_local(f, d[3][1], depth + 1)
        if d[0] == "call" and value_preserving(d[2]) and d[2]["args"]:
            return _root_local(f, d[2]["args"][0], depth + 1)
    return l


def loop_body(f, header_bb):
    c = f.blocks[header_bb]["t"][1]
    tgt = c["target"]
    sw = f.blocks[tgt]["t"] if tgt is not None else None
    if not sw or sw[0] != "switch":
        return set(), None
    some_bb = [t for v, t in sw[2] if v == 1]
    if not some_bb:
        return set(), None
    body = set()
    st = [some_bb[0]]
    while st:
        b = st.pop()
        if b in body or b == header_bb:
            continue
        body.add(b)
        st.extend(f.succs(b))
    # keep only blocks that can flow back to the header (loop body proper) or are exits carrying effects
    return body, some_bb[0]


def _iter_source_local(f, op, depth=0):
    """the collection local an iterator operand was created from (through into_iter / iter / adaptors / refs)"""
    l = op_local(op)
    if l is None or depth > 10:
        return None
    for d in f.whole_defs(l):
        if d[0] == "call" and d[2]["args"]:
            res = d[2].get("res") or ""
            if re.search(r"::(into_iter|iter|iter_mut|map|filter|cloned|copied|enumerate|rev|skip|take|chain|peekable)$", res) or "IntoIterator" in res:
                r0 = _iter_source_local(f, d[2]["args"][0], depth + 1)
                return r0 if r0 is not None else _root_local(f, d[2]["args"][0])
            return None
        if d[0] == "assign" and d[3][0] == "use":
            return _iter_source_local(f, d[3][1], depth + 1)
        if d[0] == "assign" and d[3][0] == "ref":
            return _iter_source_local(f, ["cp", d[3][2]], depth + 1)
    return _root_local(f, op)


def unordered_vectors(crate, f, returners=None):
    """locals (Vec) filled in the iteration order of an S1 source in f: {local: (source description, span)}"""
    out = {}
    # vectors collected from an S1 iterator and not sorted: iterating them is iterating in hash order
    tainted = {}
    for bb, c in f.calls():
        # the result of a local helper that returns such a vector unsorted is the same thing one call away
        if returners and c.get("res") in returners and c.get("res_local"):
            dl = place_local(c["dest"])
            if "std::vec::Vec<" in f.local_ty(dl) and not sort_blocks(f, dl):
                tainted[dl] = {"targs": ["the unsorted result of %s" % c["res"].split("::")[-1]], "span": c["span"]}
                out.setdefault(dl, ("unsorted result of %s" % c["res"].split("::")[-1], c["span"]))
        # a closure that returns such a vector, handed to a mapping adaptor (`opt.map(|e| e.iter().cloned().collect())`): the
        # adaptor's result carries it
        if returners and re.search(r"::(map|and_then|map_or|map_or_else|unwrap_or_else|or_else|then|get_or_insert_with)$", c.get("res") or ""):
            for cid, _loc in c.get("clos", []):
                if cid in returners:
                    dl = place_local(c["dest"])
                    if "std::vec::Vec<" in f.local_ty(dl):
                        out.setdefault(dl, ("result of closure %s" % cid.split("::")[-1], c["span"]))
    for bb, c in f.calls():
        if c.get("fn") == "std::iter::Iterator::collect" and _is_s1(c.get("targs", [])):
            dl = place_local(c["dest"])
            if "std::vec::Vec<" in f.local_ty(dl) and not sort_blocks(f, dl):
                tainted[dl] = c
        # `partition` / `unzip` of an S1 iterator: two vectors in hash order, moved out of the returned pair
        if c.get("fn") in ("std::iter::Iterator::partition", "std::iter::Iterator::unzip") and _is_s1(c.get("targs", [])):
            dl = place_local(c["dest"])
            for _b2, _si, pl, rv, _sp in f.assigns():
                if rv[0] == "use" and isinstance(pl, int) and op_place(rv[1]) is not None and place_local(op_place(rv[1])) == dl \
                        and place_projs(op_place(rv[1])) and "std::vec::Vec<" in f.local_ty(pl) and not sort_blocks(f, pl):
                    tainted[pl] = c
    # a vector extended with an unsorted one after its own sort is unsorted again
    grew = True
    while grew:
        grew = False
        for bb, c in f.calls():
            res = c.get("res") or ""
            if not (res.endswith("::extend") or res.endswith("::append") or res.endswith("::extend_from_slice")) or len(c["args"]) < 2:
                continue
            v = _root_local(f, c["args"][0])
            src = next((x for x in (op_local(c["args"][1]), _root_local(f, c["args"][1]), _iter_source_local(f, c["args"][1]))
                        if x in tainted), None)
            if v is None or v in tainted or src is None or "std::vec::Vec<" not in f.local_ty(v):
                continue
            if not any(_reaches_block(f, bb, sb) for sb in sort_blocks(f, v)):
                tainted[v] = tainted[src]
                grew = True
    for bb, c in f.calls():
        via_tainted = None
        if c.get("fn") == "std::iter::Iterator::next" and c["span"][4].startswith("desugar:ForLoop") and not _is_s1(c.get("targs", [])) and tainted:
            src = _iter_source_local(f, c["args"][0])
            if src in tainted:
                via_tainted = tainted[src]
        # for-loops over an S1 iterator
        if c.get("fn") == "std::iter::Iterator::next" and c["span"][4].startswith("desugar:ForLoop") and (_is_s1(c.get("targs", [])) or via_tainted):
            body, _ = loop_body(f, bb)
            # nested loops over ordered collections inside still run per outer element: pushes anywhere in the body count
            for b2 in body:
                t2 = f.blocks[b2]["t"]
                if t2[0] != "call":
                    continue
                c2 = t2[1]
                res = c2.get("res") or ""
                if res in ("std::vec::Vec::<T, A>::push", "std::vec::Vec::<T, A>::extend_from_slice", "std::vec::Vec::<T, A>::insert") \
                        or res.endswith("as std::iter::Extend<T>>::extend") or res.endswith("::extend"):
                    v = _root_local(f, c2["args"][0])
                    if v is not None and "std::vec::Vec<" in f.local_ty(v):
                        out.setdefault(v, ("for-loop over %s" % (c["targs"][0][:80] if not via_tainted else "an unsorted Vec collected from " + via_tainted["targs"][0][:60]), c["span"]))
        # iterator chains collected into a Vec
        if c.get("fn") in ("std::iter::Iterator::collect",) and _is_s1(c.get("targs", [])):
            dl = place_local(c["dest"])
            if "std::vec::Vec<" in f.local_ty(dl) and not ORDERED_SINKS.search(f.local_ty(dl).split("std::vec::Vec<")[0]):
                out.setdefault(dl, ("collect() of %s" % c["targs"][0][:80], c["span"]))
    return out


def sort_blocks(f, v):
    """blocks with a sort call whose receiver is local v (through refs / deref_mut / as_mut_slice)"""
    out = []
    for bb, c in f.calls():
        res = c.get("res") or ""
        if re.search(r"::(sort|sort_by|sort_by_key|sort_unstable|sort_unstable_by|sort_unstable_by_key|sort_by_cached_key)$", res):
            if c["args"] and _root_local(f, c["args"][0]) == v:
                out.append(bb)
    return out


def _moved_into(f, v):
    """locals that receive v (moves, Some/Ok/Arc wrapping, struct fields)"""
    out = {v}
    changed = True
    while changed:
        changed = False
        for bb, si, pl, rv, sp in f.assigns():
            srcs = [place_local(p) for p in sel._rv_places(rv) if p is not None]
            if any(s in out for s in srcs) and place_local(pl) not in out and rv[0] in ("use", "agg"):
                out.add(place_local(pl))
                changed = True
        for bb, c in f.calls():
            if any(op_local(a) in out for a in c["args"]) and place_local(c["dest"]) not in out:
                res = c.get("res") or ""
                if re.search(r"(Arc::<T>::new|Option::<T>::Some|::into_iter|::clone|::cloned|::into|::from|::unwrap_or_default|::unwrap_or|::unwrap|::expect|::unwrap_or_else|::ok_or|::ok_or_else)$", res):
                    out.add(place_local(c["dest"]))
                    changed = True
    return out


def r4a_unordered(ctx, only_fns=None, rule="R4a"):
    r = Result(rule, "a vector filled in the iteration order of a DashMap / default-hasher HashMap or HashSet (order differs "
                     "between runs and even between two databases of one process) and then returned or printed is sorted on "
                     "every path between the loop and that use, in the function itself or in every direct caller")
    crate = ctx.bin
    n = 0
    callers = defaultdict(list)
    for f in crate.real_fns():
        for bb, c in f.calls():
            if c.get("res_local"):
                callers[c["res"]].append((f, bb, c))
    # pass 1: local functions that return an unordered vector without sorting it on every path
    returners = {}
    for _round in range(3):
        before = len(returners)
        for f in crate.real_fns():
            if f.id in returners:
                continue
            for v, (src, span) in sorted(unordered_vectors(crate, f, returners).items()):
                holders = _moved_into(f, v)
                if 0 not in holders:
                    continue
                sb = [b for h in holders for b in sort_blocks(f, h)]
                if sb and not any(_value_reaches(f, v, rb, avoid=set(sb)) for rb in f.exits()):
                    continue
                returners[f.id] = (v, src, span)
                break
        if len(returners) == before:
            break
    for f in crate.real_fns():
        if only_fns is not None and not any(f.root.endswith("::" + x) or f.id.endswith("::" + x) for x in only_fns):
            continue
        uv = unordered_vectors(crate, f, returners)
        if not uv:
            continue
        for v, (src, span) in sorted(uv.items()):
            holders = _moved_into(f, v)
            returned = 0 in holders
            if not returned:
                # consumed locally (argument of a non-sorting call after the loop is not tracked: local use)
                continue
            n += 1
            key = "%s|%s|%s" % (rule, f.id, f.local_name(v) or "_")
            sb = [b for h in holders for b in sort_blocks(f, h)]
            rets = [b for b in f.exits()]
            ok = False
            if sb:
                # must-pass-through: no path from a block that fills v to a return avoids every sort block
                ok = not any(_value_reaches(f, v, rb, avoid=set(sb)) for rb in rets)
            if ok:
                r.ok(sample={"fn": f.id.split("::")[-1], "vector": f.local_name(v), "source": src, "sorted": "in function"})
                continue
            # every direct caller sorts the returned value, or consumes it locally (then the caller is examined in its own
            # right: the result is an unordered vector there, see unordered_vectors)
            cs = callers.get(f.id, [])
            if cs and all(_caller_sorts(cf, cbb, c) or (0 not in _moved_into(cf, place_local(c["dest"])) and
                                                        _order_free_uses(cf, place_local(c["dest"]))) for cf, cbb, c in cs):
                r.ok(sample={"fn": f.id.split("::")[-1], "vector": f.local_name(v), "sorted": "by every caller, or consumed there order-free"})
                continue
            def _caller_ok(cf, cbb, c):
                if _caller_sorts(cf, cbb, c):
                    return True
                dl = place_local(c["dest"])
                if 0 in _moved_into(cf, dl):
                    # passed on unsorted by a caller that is itself reported (or discharged) under its own name
                    return cf.id in returners
                return _order_free_uses(cf, dl)
            if cs and all(_caller_ok(cf, cbb, c) for cf, cbb, c in cs):
                r.ok(sample={"fn": f.id.split("::")[-1], "vector": f.local_name(v), "sorted": "answerable at the caller(s)"})
                continue
            if key in REVIEWED:
                r.review(key, REVIEWED[key])
                continue
            if f.kind == "closure" and f.id in returners:
                # the closure's result is an unordered vector of the function that receives it (followed there)
                r.ok(sample={"fn": f.id.split("::")[-1], "vector": "closure result", "sorted": "answerable where the closure's result lands"})
                continue
            r.violate(key, "%s returns `%s`, filled by a %s (at %s), without sorting: element order varies from run to run" % (
                f.id, f.local_name(v) or "_%d" % v, src, crate.span_str(span)))
    r.counts["returned_unordered_vectors"] = n
    # a hash-ordered loop that fills a returned vector runs to exhaustion: a `break` (a cap on the number of results) keeps
    # whichever elements the hash order visits first, and sorting afterwards does not bring the others back
    from .r1e import natural_loops
    for f in crate.real_fns():
        if only_fns is not None and not any(f.root.endswith("::" + x) or f.id.endswith("::" + x) for x in only_fns):
            continue
        heads = [bb for bb, c in f.calls() if c.get("fn") == "std::iter::Iterator::next" and c["span"][4].startswith("desugar:ForLoop") and _is_s1(c.get("targs", []))]
        if not heads:
            continue
        loops = natural_loops(f)
        for hb in heads:
            cands = [(h, body) for h, _l, body in loops if hb in body]
            if not cands:
                continue
            h, body = min(cands, key=lambda x: len(x[1]))
            nxt = f.blocks[hb]["t"][1].get("target")
            fills = set()
            for b in body:
                t = f.blocks[b]["t"]
                if t[0] == "call" and re.search(r"Vec::<T, A>::(push|extend|extend_from_slice)$", t[1].get("res") or "") and t[1]["args"]:
                    v = _root_local(f, t[1]["args"][0])
                    if v is not None and 0 in _moved_into(f, v):
                        fills.add(v)
            if not fills:
                continue
            early = [b for b in sorted(body) if b not in (hb, nxt) and any(s2 not in body and f.blocks[s2]["t"][0] != "unreachable" for s2 in f.succs(b))]
            # leaving by `return` of something else (an error) is not a truncation of the vector: only exits that still reach a
            # return of the vector count
            early = [b for b in early if any(_reaches_block(f, s2, rb) for s2 in f.succs(b) if s2 not in body for rb in f.exits())]
            key = "%s|%s|hash-ordered fill loop left early" % (rule, f.id)
            if early:
                r.violate(key, "%s leaves the loop over %s before it is exhausted (at block %d) while filling a vector it returns: "
                               "which elements make it into the result depends on the hash order" % (
                                   f.id, (f.blocks[hb]["t"][1].get("targs") or ["?"])[0][:60], early[0]))
            else:
                r.ok()
    return r


def _reaches_block(f, a, b):
    seen, st = {a}, [a]
    while st:
        x = st.pop()
        if x == b:
            return True
        for s2 in f.succs(x):
            if s2 not in seen:
                seen.add(s2)
                st.append(s2)
    return False


def _value_reaches(f, v, rb, avoid=frozenset()):
    """is return block rb reachable from a block that fills vector v?"""
    fills = set()
    for bb, c in f.calls():
        res = c.get("res") or ""
        if (res.endswith("::push") or res.endswith("::extend") or res.endswith("::collect") or res.endswith("::extend_from_slice")):
            if (c["args"] and _root_local(f, c["args"][0]) == v) or place_local(c["dest"]) == v:
                fills.add(bb)
    seen = set(fills)
    st = list(fills)
    while st:
        b = st.pop()
        if b == rb:
            return True
        for s2 in f.succs(b):
            if s2 not in seen and s2 not in avoid:
                seen.add(s2)
                st.append(s2)
    return False


ORDER_FREE = re.compile(r"::(len|is_empty|contains|iter|into_iter|deref|as_ref|as_slice|borrow|clone|any|all|count|sum|min|max|min_by|max_by|"
                        r"min_by_key|max_by_key|is_some|is_none|is_ok|is_err|unwrap_or_default|unwrap|expect|unwrap_or|as_deref|cloned|copied|"
                        r"sort\w*|collect|filter|map|filter_map|flat_map|flatten|chain|drop|eq|ne)$")


def _loop_effects_order_free(f, header_bb):
    """the body of the `for` loop headed at header_bb only performs effects whose combined outcome is independent of the
    iteration order: keyed removals / insertions into maps and sets, counters, logging; it appends to no vector, prints
    nothing, and is left only when the iterator is exhausted"""
    from .r1e import natural_loops
    loops = [(h, body) for h, _l, body in natural_loops(f) if header_bb in body]
    if not loops:
        return False
    h, body = min(loops, key=lambda x: len(x[1]))
    nxt = f.blocks[header_bb]["t"][1].get("target")
    for b in body:
        t = f.blocks[b]["t"]
        if b not in (header_bb, nxt):
            for s2 in f.succs(b):
                if s2 not in body:
                    return False          # early exit
        if t[0] == "call":
            res = t[1].get("res") or t[1].get("fn") or ""
            if t[1]["span"][4].startswith("macro:") and not re.search(r"_print|_eprint", res):
                continue
            if re.search(r"Vec::<T, A>::(push|extend|insert|extend_from_slice|append)$|::_print$|::_eprint$|io::Write|fmt::Write|String::push", res):
                return False
    return True


def _order_free_uses(cf, d, _depth=0):
    """every use of the unordered value (held in local d and what it is moved / borrowed into) is a call whose outcome cannot
    depend on the element order, and what is collected from it lands in a set / map or is itself sorted; a for-loop over it, a
    `first()` / `find()`, or handing it to another function of the crate is an order-sensitive use"""
    holders = set(_moved_into(cf, d))
    changed = True
    while changed:
        changed = False
        for bb, si, pl, rv, sp in cf.assigns():
            if rv[0] == "ref" and place_local(rv[2]) in holders and place_local(pl) not in holders:
                holders.add(place_local(pl))
                changed = True
        for bb, c in cf.calls():
            if c["args"] and op_local(c["args"][0]) in holders and place_local(c["dest"]) not in holders:
                res = c.get("res") or c.get("fn") or ""
                if re.search(r"::(iter|into_iter|deref|as_ref|as_slice|borrow|clone|filter|map|filter_map|flat_map|flatten|chain|cloned|copied|"
                             r"unwrap_or_default|unwrap|expect|unwrap_or|as_deref)$", res):
                    holders.add(place_local(c["dest"]))
                    changed = True
    for bb, c in cf.calls():
        used = [a for a in c["args"] if op_local(a) in holders]
        if not used:
            continue
        res = c.get("res") or c.get("fn") or ""
        if c["span"][4].startswith("desugar:ForLoop"):
            if (c.get("fn") or "").endswith("IntoIterator::into_iter"):
                continue  # the loop's iterator is created here; the loop itself is judged at its `next`
            if c.get("fn") == "std::iter::Iterator::next" and _loop_effects_order_free(cf, bb):
                continue  # a loop that removes / inserts keyed entries for each element: the final state does not depend on order
            return False
        if c.get("res_local") and c.get("res") in cf.crate.fns:
            # handed to another function of the crate: order-free there? (two levels)
            g = cf.crate.fns[c["res"]]
            idxs = [i for i, a in enumerate(c["args"]) if op_local(a) in holders]
            if _depth < 2 and g.kind in ("fn", "method") and all(i + 1 <= g.argc and _order_free_uses(g, i + 1, _depth + 1) for i in idxs):
                continue
            return False
        if not ORDER_FREE.search(res):
            return False
        if res.endswith("::collect"):
            dl = place_local(c["dest"])
            if "std::vec::Vec<" in cf.local_ty(dl) and not sort_blocks(cf, dl):
                return False
    return True


def _caller_sorts(cf, cbb, c):
    d = place_local(c["dest"])
    holders = _moved_into(cf, d)
    dom = cf.dominators()
    sb = [b for h in holders for b in sort_blocks(cf, h)]
    if not sb:
        return False
    return all(any(s in dom.get(rb, set()) for s in sb) for rb in cf.exits() if cbb in dom.get(rb, set()))


def r4b_unordered_pick(ctx):
    r = Result("R4b", "an element-carrying early exit from the iteration of a DashMap / hash map (the first match in hash order wins) "
                      "must be in the reviewed table with the argument why at most one element can match")
    crate = ctx.bin
    n = 0
    for s in ctx.memo("selsites", lambda: sel.all_sites(crate)):
        if s.kind != "loop":
            continue
        f = s.fn
        # is the loop nested in (or itself) an S1 loop?
        s1_headers = [bb for bb, c in f.calls() if c.get("fn") == "std::iter::Iterator::next" and c["span"][4].startswith("desugar:ForLoop") and _is_s1(c.get("targs", []))]
        inside = False
        for h in s1_headers:
            body, _ = loop_body(f, h)
            if s.bb in body:
                inside = True
        if not inside:
            continue
        n += 1
        key = "R4b|%s|%s|fields=%s" % (f.id, s.descr(), ",".join(sorted(s.fields)))
        if key in REVIEWED:
            r.review(key, REVIEWED[key])
        else:
            r.violate(key, "first match in hash order is returned by %s at %s (fields tested: %s)" % (f.id, crate.span_str(s.span), sorted(s.fields)))
    r.counts["sites"] = n
    # first-wins filter across the iterations of a hash-ordered loop: `if seen.insert(key) { out.push(record) }` where the record
    # carries more than the key keeps whichever element the hash order visits first (records of index types are R4c's business)
    m = 0
    for f in crate.real_fns():
        s1_headers = [bb for bb, c in f.calls() if c.get("fn") == "std::iter::Iterator::next" and c["span"][4].startswith("desugar:ForLoop") and _is_s1(c.get("targs", []))]
        if not s1_headers:
            continue
        dom = None
        for h in s1_headers:
            body, _ = loop_body(f, h)
            for b in sorted(body):
                t = f.blocks[b]["t"]
                if t[0] != "call" or not re.search(r"collections::(Hash|BTree)Set::<[^>]*>::insert$", t[1].get("res") or "") or len(t[1]["args"]) < 2:
                    continue
                c = t[1]
                setl = _root_local(f, c["args"][0])
                # the set lives across iterations: it is not created inside this loop
                if setl is None or any(d[1] in body for d in f.whole_defs(setl) if d[0] in ("call", "assign")):
                    continue
                sw = None
                tgt = c.get("target")
                if tgt is not None and f.blocks[tgt]["t"][0] == "switch" and op_local(f.blocks[tgt]["t"][1]) == place_local(c["dest"]):
                    sw = f.blocks[tgt]["t"]
                if sw is None:
                    continue
                true_t = sw[3] if sw[3] is not None else None
                if true_t is None:
                    continue
                dom = dom or f.dominators()
                keynames = _named_roots(f, c["args"][1], stop_at_named=True)
                for b2 in sorted(body):
                    t2 = f.blocks[b2]["t"]
                    if t2[0] != "call" or not re.search(r"Vec::<T, A>::push$", t2[1].get("res") or "") or true_t not in dom.get(b2, set()):
                        continue
                    ta = " ".join(t2[1].get("targs", []))
                    if sel.DEF in ta.split(",")[0] or sel.USAGE in ta.split(",")[0]:
                        continue
                    m += 1
                    extra = _named_roots(f, t2[1]["args"][1], stop_at_named=True) - keynames - {"self"}
                    key = "R4b|%s|first-wins filter in hash order" % f.id
                    if extra:
                        r.violate(key, "%s keeps, per key, the first record the hash-ordered loop at %s happens to visit (the record is "
                                       "built from %s, the filter key is not): which one is reported changes from run to run" % (
                                           f.id, crate.span_str(f.blocks[h]["t"][1]["span"]), sorted(extra)[:4]))
                    else:
                        r.ok()
    r.counts["first_wins_filters_in_hash_loops"] = m
    return r


def r4d_sort_keys_are_projections(ctx):
    r = Result("R4d", "the comparator / key closure of every sort compares projections of the elements themselves: the only calls in "
                      "it are cmp / partial_cmp / then / then_with / reverse and reference adaptors. A key that is computed from "
                      "the element (to_lowercase, len, trim, a lookup) maps different elements to equal keys, and since the "
                      "sort is stable, elements that tie keep the order they arrived in -- for vectors filled from DashMap / "
                      "HashMap iteration, the hash order of this process")
    crate = ctx.bin
    ALLOWED = re.compile(r"cmp::Ord(>)?::cmp$|cmp::PartialOrd(<.*>)?(>)?::partial_cmp$|cmp::Ordering::(then|then_with|reverse)$"
                         r"|ops::Deref(>)?::deref$|::as_str$|::as_ref$|::as_path$|::borrow$|cmp::Reverse|::cmp$|::partial_cmp$|::as_deref$|::as_slice$")

    def allcalls(cid, seen):
        f = crate.fns.get(cid)
        out = []
        if f is None or cid in seen:
            return out
        seen.add(cid)
        for bb, c in f.calls():
            out.append(c.get("res") or c.get("fn") or "?")
            for x, _l in c.get("clos", []):
                out += allcalls(x, seen)
        return out
    n = 0
    for f in crate.real_fns():
        for bb, c in f.calls():
            res = c.get("res") or ""
            if not re.search(r"::sort(_unstable)?(_by|_by_key|_by_cached_key)$", res):
                continue
            n += 1
            calls = []
            for cid, _l in c.get("clos", []):
                calls += allcalls(cid, set())
            bad = sorted({x.split("::")[-1] for x in calls if not ALLOWED.search(x)})
            key = "R4d|%s|%s" % (f.root, res.split("::")[-1])
            if bad:
                # ties only matter where the arrival order is not reproducible: the vector being sorted was filled in the
                # iteration order of a hash map / set (directly, from a helper that returns such a vector, or from a parameter
                # whose callers cannot be seen).  A stable sort of a list that is already in a reproducible order (the sorted
                # per-file view, source order) by a computed key is reproducible.
                vroot = _root_local(f, c["args"][0]) if c["args"] else None
                uv = unordered_vectors(crate, f, _returners(ctx))
                hash_ordered = vroot is None or vroot in uv or (1 <= vroot <= f.argc and f.kind != "closure" and not _param_always_ordered(ctx, f, vroot))
                if not hash_ordered:
                    r.ok(sample={"sort_at": crate.span_str(c["span"]), "computed_key_on": "a vector with a reproducible arrival order"})
                    continue
                r.violate(key + "|" + ",".join(bad), "the %s closure in %s at %s computes its key with %s: distinct elements can tie and "
                                                     "keep their arrival (hash) order" % (res.split("::")[-1], f.id, crate.span_str(c["span"]), bad))
            else:
                r.ok(sample={"sort_at": crate.span_str(c["span"]), "comparator_calls": sorted({x.split("::")[-1] for x in calls})})
    r.floor("sorts with a comparator / key closure", n, 4)
    return r


def _returners(ctx):
    """local functions that return a hash-ordered vector unsorted (as computed by R4a's first pass)"""
    def build():
        crate = ctx.bin
        returners = {}
        for _round in range(3):
            before = len(returners)
            for f in crate.real_fns():
                if f.id in returners:
                    continue
                for v, (src, span) in sorted(unordered_vectors(crate, f, returners).items()):
                    holders = _moved_into(f, v)
                    if 0 not in holders:
                        continue
                    sb = [b for h in holders for b in sort_blocks(f, h)]
                    if sb and not any(_value_reaches(f, v, rb, avoid=set(sb)) for rb in f.exits()):
                        continue
                    returners[f.id] = (v, src, span)
                    break
            if len(returners) == before:
                break
        return returners
    return ctx.memo("r4:returners", build)


def _param_always_ordered(ctx, f, pl):
    """every local call site hands parameter `pl` of f a vector that is not hash-ordered (one level)"""
    crate = ctx.bin
    sites = [(g, bb, c) for g in crate.real_fns() for bb, c in g.calls() if c.get("res") == f.id and c.get("res_local")]
    if not sites:
        return False
    for g, bb, c in sites:
        if pl - 1 >= len(c["args"]):
            return False
        root = _root_local(g, c["args"][pl - 1])
        if root is None or root in unordered_vectors(crate, g, _returners(ctx)) or (1 <= root <= g.argc):
            return False
    return True


# ------------------------------------------------------------------------------------------ R4e: local memo keys
def _named_roots(f, op, stop_at_named, limit=40):
    """names of the user variables in the backward slice of an operand; with stop_at_named the walk ends at the first
    named variable on each branch (the variables the expression is written in terms of)"""
    out = set()
    seen = set()
    st = [op_local(op)] if op_local(op) is not None else []
    while st and len(seen) < limit * 10:
        l = st.pop()
        if l is None or l in seen:
            continue
        seen.add(l)
        nm = f.local_name(l)
        if nm:
            out.add(nm)
            if stop_at_named:
                continue
        for d in f.whole_defs(l):
            if d[0] == "assign":
                rv = d[3]
                if rv[0] == "use":
                    st.append(op_local(rv[1]))
                elif rv[0] == "ref":
                    st.append(place_local(rv[2]))
                elif rv[0] in ("cast", "un"):
                    st.append(op_local(rv[-1]))
                elif rv[0] == "bin":
                    st += [op_local(rv[2]), op_local(rv[3])]
                elif rv[0] == "agg":
                    st += [op_local(o) for o in rv[2]]
            elif d[0] == "call":
                st += [op_local(a) for a in d[2]["args"]]
    return out


def _slice_local_calls(f, op, limit=400):
    out = []
    seen = set()
    st = [op_local(op)] if op_local(op) is not None else []
    while st and len(seen) < limit:
        l = st.pop()
        if l is None or l in seen:
            continue
        seen.add(l)
        for d in f.whole_defs(l):
            if d[0] == "assign":
                rv = d[3]
                if rv[0] == "use":
                    st.append(op_local(rv[1]))
                elif rv[0] == "ref":
                    st.append(place_local(rv[2]))
                elif rv[0] in ("cast", "un"):
                    st.append(op_local(rv[-1]))
                elif rv[0] == "agg":
                    st += [op_local(o) for o in rv[2]]
            elif d[0] == "call":
                out.append(d[2])
                st += [op_local(a) for a in d[2]["args"]]
    return out


def r4e_local_memo_keys(ctx):
    r = Result("R4e", "a local memo (a HashMap local of a function, filled with something derived from a resolver call) is keyed "
                      "by every variable the resolver call is written in terms of: `cache.insert(name, resolve(file, name))` "
                      "answers later files with the first file's resolution, and which file comes first is the hash order of the "
                      "usage map")
    crate = ctx.bin
    n = 0
    for f in crate.real_fns():
        for bb, c in f.calls():
            if not re.search(r"HashMap::<K, V, S(, A)?>::insert$", c.get("res") or "") or len(c["args"]) < 3:
                continue
            m = _root_local_of(f, c["args"][0])
            if m is None or not f.local_name(m) or m <= f.argc:
                continue
            resolver_calls = [c2 for c2 in _slice_local_calls(f, c["args"][2])
                              if c2.get("res_local") and c2.get("res") in crate.fns and "FixtureDefinition" in crate.fns[c2["res"]].ret
                              and not c2["res"].startswith("<") and crate.fns[c2["res"]].argc >= 3]
            if not resolver_calls:
                continue
            n += 1
            keynames = _named_roots(f, c["args"][1], stop_at_named=False)
            missing = set()
            for c2 in resolver_calls:
                g = crate.fns[c2["res"]]
                for i, a in enumerate(c2["args"]):
                    if i == 0 and g.argc >= 1 and "FixtureDatabase" in g.local_ty(1):
                        continue
                    for nm in _named_roots(f, a, stop_at_named=True):
                        if nm not in keynames and nm != "self":
                            missing.add(nm)
            if missing:
                # a memo that is created afresh inside a loop lives for one iteration: what is bound once per iteration before
                # the memo is created (the file of a per-file pass) is the same for every entry of that memo
                from .r1e import natural_loops
                made = [d[1] for d in f.whole_defs(m) if d[0] == "call" and re.search(r"::(new|default|with_capacity)$|with_capacity_and_hasher$", d[2].get("res") or d[2].get("fn") or "")]
                if len(made) == 1:
                    inner = [set(body) for _h, _l, body in natural_loops(f) if made[0] in body]
                    if inner:
                        body = min(inner, key=len)
                        dom = f.dominators().get(made[0], set())
                        for nm in list(missing):
                            defs = [d[1] for l in range(1, len(f.locals)) if f.local_name(l) == nm for d in f.whole_defs(l) if d[0] in ("assign", "call")]
                            if defs and all(b in body and b in dom for b in defs):
                                missing.discard(nm)
            key = "R4e|%s|%s" % (f.id, f.local_name(m))
            if missing:
                r.violate(key, "memo `%s` in %s is filled from %s but its key (%s) does not cover %s" % (
                    f.local_name(m), f.id, resolver_calls[0]["res"].split("::")[-1], sorted(keynames), sorted(missing)))
            else:
                r.ok(sample={"memo": f.local_name(m), "key_vars": sorted(keynames)})
    r.counts["local_memos"] = n  # no floor: a tree without such a memo has no obligation here
    return r


def _root_local_of(f, op, depth=0):
    l = op_local(op)
    if l is None or depth > 8:
        return None
    ds = f.whole_defs(l)
    if len(ds) == 1 and ds[0][0] == "assign" and ds[0][3][0] == "ref":
        p = ds[0][3][2]
        if not [e for e in place_projs(p) if e != "*"]:
            return _root_local_of(f, ["cp", place_local(p)], depth + 1) if place_local(p) != l else l
        return None
    if len(ds) == 1 and ds[0][0] == "assign" and ds[0][3][0] == "use" and op_local(ds[0][3][1]) is not None and not place_projs(op_place(ds[0][3][1])):
        return _root_local_of(f, ds[0][3][1], depth + 1)
    return l


# ------------------------------------------------------------------------------------------ R4f: no prefix adaptors over index vectors
def r4f_no_prefix_adaptors(ctx):
    r = Result("R4f", "no `take_while` / `skip_while` / `map_while` / `binary_search*` / `partition_point` over an iterator or slice of "
                      "index records (FixtureDefinition / FixtureUsage vectors): the element order of those vectors is the order in "
                      "which files and decorators happened to be analysed (not sorted by line, file or origin), so a prefix "
                      "adaptor silently stops before elements that qualify, and which ones depends on that order")
    crate = ctx.bin
    n = 0
    for f in crate.real_fns():
        for bb, c in f.calls():
            meth = (c.get("fn") or c.get("res") or "").rsplit("::", 1)[-1]
            if meth not in ("take_while", "skip_while", "map_while", "binary_search", "binary_search_by", "binary_search_by_key", "partition_point"):
                continue
            ta = " ".join(c.get("targs", []))
            if "rustpython" in ta and meth in ("take_while", "skip_while", "map_while"):
                # arguments / keywords / statements of the Python AST: a prefix adaptor stops at the first node of another shape
                # (a name among string literals, a starred argument) and silently drops what follows it
                n += 1
                key = "R4f|%s|%s over AST nodes" % (f.root, meth)
                if key in REVIEWED:
                    r.review(key, REVIEWED[key])
                else:
                    r.violate(key, "%s uses `%s` over nodes of the Python AST at %s: everything after the first node that fails the "
                                   "test is dropped" % (f.root.split("::")[-1], meth, crate.span_str(c["span"])))
                continue
            if sel.DEF not in ta and sel.USAGE not in ta:
                continue
            n += 1
            key = "R4f|%s|%s over index records" % (f.root, meth)
            if key in REVIEWED:
                r.review(key, REVIEWED[key])
            else:
                r.violate(key, "%s uses `%s` over index records at %s: their order is analysis order" % (f.root.split("::")[-1], meth, crate.span_str(c["span"])))
    r.counts["prefix_adaptors_over_index_records"] = n  # expected 0; positive examples: seeded changes C01-l, C20-n
    return r


# ------------------------------------------------------------------------------------------------------------------ R4g
NARROWING = r"::(filter|filter_map|skip|skip_while|take|take_while|step_by|flat_map|flatten|flat_map_iter|dedup\w*|retain|truncate|drain)(::<.*>)?$"
UNBOUNDED = r"::(repeat|repeat_with|repeat_n|cycle|successors|from_fn)(::<.*>)?$"


def _narrowed(crate, f, l, depth=0, seen=None):
    """(element-dropping steps between the sources and local l, unbounded?): each step is named by where it happens, so two
    sequences cut by the same step (two vectors filled under one condition of one loop) have the same history"""
    seen = seen if seen is not None else set()
    nar = set()
    unb = False
    st = [l]
    while st and len(seen) < 120:
        x = st.pop()
        if x is None or x in seen:
            continue
        seen.add(x)
        if "RangeFrom" in f.local_ty(x):
            unb = True
        for d in f.whole_defs(x):
            if d[0] == "call":
                c = d[2]
                res = c.get("res") or c.get("fn") or ""
                if re.search(NARROWING, res):
                    nar.add(("step", f.id, d[1]))
                if re.search(UNBOUNDED, res):
                    unb = True
                g = crate.fns.get(c.get("res")) if c.get("res_local") else None
                if g is not None and depth < 2 and g is not f:
                    n2, u2 = _narrowed(crate, g, 0, depth + 1)   # what the callee hands back
                    nar |= n2
                    unb = unb or u2
                st += [op_local(a) for a in c["args"][:2]]
            elif d[0] == "assign":
                rv = d[3]
                if rv[0] == "use":
                    st.append(op_local(rv[1]))
                elif rv[0] == "ref":
                    st.append(place_local(rv[2]))
                elif rv[0] in ("cast", "un"):
                    st.append(op_local(rv[-1]))
                elif rv[0] == "agg":
                    st += [op_local(o) for o in rv[2]]
        # a vector filled by pushes: narrowed when some trip round the filling loop makes no push
        if re.search(r"\bVec<", f.local_ty(x)) and not f.local_ty(x).startswith("&"):
            nar |= {("loop", f.id, h) for h in _conditionally_filled(f, x)}
    return nar, unb


def _conditionally_filled(f, v):
    from .r1e import natural_loops, _avoiding_path
    pushes = set()
    for b, c in f.calls():
        if re.search(r"Vec::<T, A>::push$|Vec::<T, A>::insert$", c.get("res") or ""):
            a0 = op_local(c["args"][0]) if c["args"] else None
            if a0 is None:
                continue
            for d in f.whole_defs(a0):
                if d[0] == "assign" and d[3][0] == "ref" and place_local(d[3][2]) == v and not place_projs(d[3][2]):
                    pushes.add(b)
    out = set()
    if not pushes:
        return out
    for h, latches, body in natural_loops(f):
        inl = pushes & set(body)
        if inl and _avoiding_path(f, h, set(latches), body, inl) is not None:
            out.add(h)
    return out


def r4g_zip_sides_agree(ctx):
    r = Result("R4g", "the two sequences handed to a `zip` have the same element-dropping history: when one side went through a "
                      "filter / filter_map / skip / take / a conditionally pushing loop and the other did not, the pairs are "
                      "shifted after the first dropped element and the tail is cut off silently -- which file, name or span is "
                      "attached to which then depends on what was dropped. An endless side (a `n..` range, repeat) pairs with "
                      "anything")
    crate = ctx.bin
    n = 0
    for f in crate.real_fns():
        if "_serde::" in f.id or f.id.startswith("<"):
            continue
        for b, c in f.calls():
            res = c.get("res") or c.get("fn") or ""
            if not re.search(r"(Iterator|IndexedParallelIterator|iter)::zip(::<.*>)?$", res) or len(c["args"]) < 2:
                continue
            if c["span"][4].startswith("macro:"):
                continue
            n += 1
            a, bside = (_narrowed(crate, f, op_local(o)) for o in c["args"][:2])
            key = "R4g|%s|zip of a narrowed and a full sequence" % f.id
            if a[0] != bside[0] and not (a[1] or bside[1]):
                r.violate(key, "zip at %s in %s pairs a sequence that lost elements on the way (filter / skip / conditional push) "
                               "with one that did not" % (crate.span_str(c["span"]), f.id))
            else:
                r.ok(sample={"zip in": f.id.split("::")[-1], "dropping steps per side": [len(a[0]), len(bside[0])]} if len(r.samples) < 4 else None)
    r.counts["zips"] = n
    return r


# ------------------------------------------------------------------------------------------------------------------ R4h
HASH_ORDERED = r"collections::hash_(map|set)::|dashmap::iter::|dashmap::iter_set::"
ORDER_PICKS = ("find", "find_map", "position", "rposition", "next", "next_back", "nth", "last", "take", "skip", "take_while",
               "skip_while", "map_while", "step_by", "rev", "min_by_key", "max_by_key", "min_by", "max_by", "reduce", "try_fold")


def r4h_no_pick_in_hash_order(ctx):
    r = Result("R4h", "no order-dependent selection from the iteration of a HashMap / HashSet / DashMap (the iterator type names a "
                      "hash container, through any adaptors): neither an adaptor (find / find_map / position / next / nth / last / "
                      "take / skip / *_while / min_by_key / max_by_key ...) nor a `for` loop over it that is left early with a "
                      "value. Which element comes first changes from run to run (per-process hash seed, shard layout), and a "
                      "first match keeps ONE of several matches. Order-free consumers (any, all, count, sum, collect, for_each, "
                      "filter, map; a loop that answers bool) are not picks; loops over index records are R4b's. Sites where any "
                      "element is right are in the reviewed table")
    from ..reviewed import settle
    from .r1e import natural_loops, _skip_goto
    crate = ctx.bin
    n = 0
    pending = []
    seen_keys = set()
    for f in crate.real_fns():
        if "_serde::" in f.id or f.id.startswith("<"):
            continue
        # (i) adaptors
        for bb, c in f.calls():
            meth = (c.get("fn") or c.get("res") or "").rsplit("::", 1)[-1]
            if meth not in ORDER_PICKS or not c["args"] or c["span"][4].startswith(("desugar:", "macro:")):
                continue
            a0 = op_local(c["args"][0])
            ty = f.local_ty(a0) if a0 is not None else ""
            if not re.search(HASH_ORDERED, " ".join(c.get("targs", [])[:1])) and not re.search(HASH_ORDERED, ty):
                continue
            n += 1
            key = "R4h|%s|pick in hash order" % f.root
            if key not in seen_keys:
                seen_keys.add(key)
                pending.append((key, "%s applies `%s` to a hash-ordered iteration at %s: the element picked depends on the hash order" % (
                    f.root.split("::")[-1], meth, crate.span_str(c["span"]))))
        # (ii) for loops left early with a value
        if f.ret == "bool":
            continue
        for h, latches, body in natural_loops(f):
            hb = _skip_goto(f, h)
            ht = f.blocks[hb]["t"]
            if ht[0] != "call" or not (ht[1].get("res") or "").endswith("::next") or not ht[1]["args"]:
                continue
            ta = " ".join(ht[1].get("targs", []))
            ty = f.local_ty(op_local(ht[1]["args"][0]) or 0)
            if not re.search(HASH_ORDERED, ta) and not re.search(HASH_ORDERED, ty):
                continue
            if sel.DEF in ta + ty or sel.USAGE in ta + ty:
                continue      # first-match exits over index records: R4b
            d = place_local(ht[1]["dest"])
            early = []
            for b in sorted(body):
                t = f.blocks[b]["t"]
                for s2 in f.succs(b):
                    if s2 in body:
                        continue
                    if t[0] == "switch" and any(dd[0] == "assign" and dd[3][0] == "discr" and place_local(dd[3][1]) == d
                                                for dd in f.whole_defs(op_local(t[1]) or -1)):
                        continue      # the iterator's own end (and the unreachable arm of that match)
                    if f.blocks[s2]["t"][0] in ("unreachable", "resume", "abort"):
                        continue
                    early.append(b)
            if not early:
                continue
            n += 1
            key = "R4h|%s|pick in hash order" % f.root
            if key not in seen_keys:
                seen_keys.add(key)
                pending.append((key, "%s leaves its loop over a hash-ordered iteration (%s) early with a value: which element gets "
                                     "there first depends on the hash order" % (f.root.split("::")[-1], crate.span_str(ht[1]["span"]))))
    settle(r, pending)
    r.counts["order_dependent_picks_over_hash_ordered_iterations"] = n  # no floor: an LRU eviction has no such pick
    return r
