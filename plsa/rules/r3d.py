"""R3d: cache invalidation (C07)."""
import re
from collections import defaultdict

from ..check import Result
from ..core import op_local, op_place, op_const, place_local, place_projs, proj_fields, resolve_operand
from ..facts import DbInfo, DB, split_top
from ..reviewed import REVIEWED
from .. import roles


def _db(ctx):
    return ctx.memo("dbinfo", lambda: DbInfo(ctx))


def stamped_caches(db):
    """map name -> number of leading u64 stamps in its value tuple"""
    out = {}
    for n, (k, v) in db.maps.items():
        if v.startswith("(") and v.endswith(")"):
            parts = split_top(v[1:-1])
            k_st = 0
            for p in parts:
                if p == "u64":
                    k_st += 1
                else:
                    break
            if k_st and k_st < len(parts):
                out[n] = k_st
    return out


def _same_local(f, a, b, depth=0):
    """do locals a and b denote the same value through plain copies?"""
    ra, rb = _root_copy(f, a), _root_copy(f, b)
    return ra == rb


def _root_copy(f, l, depth=0):
    if depth > 8:
        return l
    ds = f.whole_defs(l)
    if len(ds) == 1 and ds[0][0] == "assign":
        rv = ds[0][3]
        if rv[0] == "use" and op_place(rv[1]) is not None and not place_projs(op_place(rv[1])):
            return _root_copy(f, op_local(rv[1]), depth + 1)
    return l


def _tuple_field_of(f, l, depth=0):
    """if local l is (a copy of / ref to / deref of) field i of a tuple, return i"""
    if depth > 8:
        return None
    for d in f.whole_defs(l):
        if d[0] != "assign":
            continue
        rv = d[3]
        p = None
        if rv[0] == "use":
            p = op_place(rv[1])
        elif rv[0] == "ref":
            p = rv[2]
        if p is None:
            continue
        for e in place_projs(p):
            if isinstance(e, list) and e[0] == "f" and e[3] == "tuple":
                return e[1]
        r = _tuple_field_of(f, place_local(p), depth + 1)
        if r is not None:
            return r
    return None


def _closures_in(crate, f):
    """closure id -> (host fn, upvar operands) for the closures constructed in f and, recursively, in those closures"""
    out = {}
    work = [f]
    while work:
        h = work.pop()
        for bb, si, pl, rv, sp in h.assigns():
            if rv[0] == "agg" and rv[1][0] in ("closure", "coroutine", "coroutine_closure") and rv[1][1] not in out:
                cf = crate.fns.get(rv[1][1])
                if cf is not None:
                    out[rv[1][1]] = (h, rv[2])
                    work.append(cf)
    return out


def _through(fn, l, depth=0):
    """root local of l through plain copies, references and derefs (no field projections)"""
    if depth > 10:
        return l
    ds = fn.whole_defs(l)
    if len(ds) == 1 and ds[0][0] == "assign":
        rv = ds[0][3]
        p = op_place(rv[1]) if rv[0] == "use" else rv[2] if rv[0] == "ref" else None
        if p is not None and all(x == "*" for x in place_projs(p)):
            return _through(fn, place_local(p), depth + 1)
    return l


def _upvar_index(cf, l, depth=0):
    """index of the closure capture that local l of closure cf is a copy / deref / reborrow of"""
    if depth > 10:
        return None
    for d in cf.whole_defs(l):
        if d[0] != "assign":
            continue
        rv = d[3]
        p = op_place(rv[1]) if rv[0] == "use" else rv[2] if rv[0] == "ref" else None
        if p is None:
            continue
        if place_local(p) == 1:
            fs = [e for e in place_projs(p) if isinstance(e, list) and e[0] == "f"]
            if fs and str(fs[0][3]).startswith("closure:") and len(fs) == 1:
                return fs[0][1]
        elif all(x == "*" for x in place_projs(p)):
            r = _upvar_index(cf, place_local(p), depth + 1)
            if r is not None:
                return r
    return None


def _local_in_root(closures, f, host, l, depth=0):
    """the local of f that local l of `host` (f itself or a closure constructed under f) is a capture / copy of"""
    if depth > 6:
        return None
    if host is f:
        return _through(f, l)
    idx = _upvar_index(host, l)
    if idx is None or host.id not in closures:
        return None
    h2, ops = closures[host.id]
    if idx >= len(ops) or op_local(ops[idx]) is None:
        return None
    return _local_in_root(closures, f, h2, op_local(ops[idx]), depth + 1)


def _payload_reads(cf, k, vty):
    """(block, local) of the statements that read a payload position (>= k, an Arc) of a cached tuple"""
    out = []
    for bb, b in enumerate(cf.blocks):
        for st in b["s"]:
            if st[0] != "=" or st[2][0] not in ("ref", "use"):
                continue
            pp = st[2][2] if st[2][0] == "ref" else op_place(st[2][1])
            if pp is None:
                continue
            for e in place_projs(pp):
                if isinstance(e, list) and e[0] == "f" and e[3] == "tuple" and e[1] >= k and "Arc" in e[4]:
                    out.append((bb, place_local(st[1])))
    return out


def _uses_guarded(crate, cf, l, true_t, then_closures, dom, depth=0, seen=None):
    """every use of local l in closure cf is behind the test: in a block dominated by `true_t`, an operand of a closure
    handed to `bool::then(test)`, or a plain alias whose uses are"""
    seen = seen if seen is not None else set()
    if l in seen or depth > 8:
        return True
    seen.add(l)
    for bb, b in enumerate(cf.blocks):
        in_true = true_t is not None and true_t in dom.get(bb, set())
        for st in b["s"]:
            if st[0] != "=":
                continue
            rv = st[2]
            srcs = []
            if rv[0] == "use":
                srcs = [op_place(rv[1])]
            elif rv[0] == "ref":
                srcs = [rv[2]]
            elif rv[0] == "agg":
                srcs = [op_place(o) for o in rv[2]]
            elif rv[0] in ("bin",):
                srcs = [op_place(rv[2]), op_place(rv[3])]
            elif rv[0] == "cast":
                srcs = [op_place(rv[2])]
            if not any(p is not None and place_local(p) == l for p in srcs):
                continue
            if in_true:
                continue
            if rv[0] == "agg" and rv[1][0] == "closure" and rv[1][1] in then_closures:
                continue
            if rv[0] in ("use", "ref") and all(x == "*" for x in place_projs(srcs[0])):
                if _uses_guarded(crate, cf, place_local(st[1]), true_t, then_closures, dom, depth + 1, seen):
                    continue
            return False
        t = b["t"]
        if t[0] == "call" and any(op_local(a2) == l for a2 in t[1]["args"]) and not in_true:
            return False
    return True


def closure_guarded_hits(crate, f, k, stored, vty):
    """closures under f that read the cached payload only behind an equality test -- inside the closure -- of every
    stamp 0..k-1 of the cached tuple against the value f stores at that position (captured by the closure):
    `if *h == hash { .. payload .. }` in the closure, or `(*h == hash).then(|| payload)`.
    Returns (guarded closure ids, unguarded closure ids)."""
    closures = _closures_in(crate, f)
    guarded, unguarded = set(), set()
    for cid in closures:
        cf = crate.fns[cid]
        reads = _payload_reads(cf, k, vty)
        if not reads:
            continue
        dom = cf.dominators()
        ok_all = True
        for i in range(k):
            if stored[i] is None:
                ok_all = False
                break
            want = _through(f, stored[i])
            good = False
            for bb, b in enumerate(cf.blocks):
                for st in b["s"]:
                    if not (st[0] == "=" and st[2][0] == "bin" and st[2][1] == "Eq"):
                        continue
                    a, c = op_local(st[2][2]), op_local(st[2][3])
                    if a is None or c is None:
                        continue
                    for x, y in ((a, c), (c, a)):
                        if _tuple_field_of(cf, x) != i or _local_in_root(closures, f, cf, y) != want:
                            continue
                        e = place_local(st[1])
                        sw = _switch_of(cf, e)
                        true_t = sw[1] if sw and sw[1] != sw[2] else None
                        then_closures = set()
                        for b2, c2 in cf.calls():
                            if re.search(r"bool>::then$", c2.get("res") or "") and c2["args"] \
                                    and _through(cf, op_local(c2["args"][0]) or -1) == _through(cf, e):
                                then_closures |= {x2[0] for x2 in c2.get("clos", [])}
                        if all(_uses_guarded(crate, cf, l, true_t, then_closures, dom) for _rb, l in reads):
                            good = True
            if not good:
                ok_all = False
                break
        (guarded if ok_all else unguarded).add(cid)
    return guarded, unguarded


def fill_functions(db):
    """cache -> function that both looks the cache up and stores into it"""
    out = {}
    for m in stamped_caches(db):
        # by family: the store may sit in a closure of the function (`cached.unwrap_or_else(|| store(..))`)
        getters = {op.fn.root for op in db.ops_by_map.get(m, []) if op.method == "get"}
        setters = {op.fn.root for op in db.ops_by_map.get(m, []) if op.method == "insert"}
        both = sorted(getters & setters)
        if len(both) == 1:
            out[m] = both[0]
    return out


def stored_stamps(ctx, db, m, fid, as_operands=False):
    """the operands / locals (in terms of the fill function `fid`) of the tuple stored into cache m by fid or one of its closures"""
    crate = ctx.bin
    f = crate.fns[fid]
    closures = _closures_in(crate, f)
    for op in db.ops_by_map.get(m, []):
        if op.method != "insert" or op.fn.root != fid or len(op.call["args"]) < 3:
            continue
        g = op.fn
        vl = op_local(op.call["args"][2])
        for d in g.whole_defs(vl) if vl is not None else []:
            if d[0] == "assign" and d[3][0] == "agg" and d[3][1][0] == "tuple":
                ops_ = d[3][2]
                if g.id == fid:
                    return ops_ if as_operands else [op_local(o) for o in ops_]
                # stored in a closure: translate captured values to the locals of the fill function
                out = []
                for o in ops_:
                    l = op_local(o)
                    rl = _local_in_root(closures, f, g, l) if l is not None else None
                    out.append((["cp", rl] if rl is not None else None) if as_operands else rl)
                return out
    return None


def r3d_hit(ctx):
    r = Result("R3d-hit", "for every stamped cache (value tuple with leading u64 stamps) the cached payload is returned only on a "
                          "path dominated by the true edge of an equality test of EVERY stamp stored by the fill function against "
                          "the freshly computed value that the same function stores at that position")
    db = _db(ctx)
    caches = stamped_caches(db)
    fills = fill_functions(db)
    r.counts["stamped_caches"] = ",".join("%s:%d" % kv for kv in sorted(caches.items()))
    for m, k in sorted(caches.items()):
        fid = fills.get(m)
        key0 = "R3d-hit|%s" % m
        if fid is None:
            r.violate(key0 + "|no-fill-function", "cache `%s` has no single function that both reads and fills it" % m)
            continue
        f = ctx.bin.fns[fid]
        # stamps stored: aggregate tuple operand of the insert value
        stored = stored_stamps(ctx, db, m, fid)
        if stored is None or len(stored) <= k:
            r.violate(key0 + "|insert-shape", "cannot see the tuple stored into `%s` in %s" % (m, fid))
            continue
        # comparisons: Eq over (tuple field i of cached value, local)
        eqs = {}  # stamp idx -> (bb, true_target)
        eq_locals = {}  # stamp idx -> local holding the comparison result (also when no switch follows: `(a == b).then(..)`)
        for bb, b in enumerate(f.blocks):
            for s in b["s"]:
                if s[0] == "=" and s[2][0] == "bin" and s[2][1] == "Eq":
                    a, c = op_local(s[2][2]), op_local(s[2][3])
                    if a is None or c is None:
                        continue
                    for x, y in ((a, c), (c, a)):
                        i = _tuple_field_of(f, x)
                        if i is not None and i < k and stored[i] is not None and _same_local(f, y, stored[i]):
                            t = b["t"]
                            res = place_local(s[1])
                            eq_locals[i] = res
                            if t[0] == "switch" and op_local(t[1]) == res:
                                tt = [tg for v, tg in t[2] if v != 0] or [t[3]]
                                # switch [0 -> false], otherwise -> true
                                true_t = t[3] if any(v == 0 for v, _ in t[2]) else tt[0]
                                eqs[i] = (bb, true_t)
        # payload read sites: uses of tuple field >= k of the cached value
        payload_bbs = []
        then_guarded = []
        for bb, b in enumerate(f.blocks):
            for s in b["s"]:
                if s[0] == "=" and s[2][0] in ("ref", "use"):
                    p = s[2][2] if s[2][0] == "ref" else op_place(s[2][1])
                    if p is None:
                        continue
                    for e in place_projs(p):
                        if isinstance(e, list) and e[0] == "f" and e[3] == "tuple" and e[1] >= k and "Arc" in e[4]:
                            # where is it consumed? the block(s) that use the resulting local
                            payload_bbs.append((bb, place_local(s[1])))
        # payload references whose every use is behind the tests: on the true side of the switch, or handed to the closure of
        # `bool::then(<test>)` -- `(*h == hash).then(|| Arc::clone(v))` in the function body itself
        if payload_bbs and all(i in eq_locals for i in range(k)):
            domf = f.dominators()
            kept = []
            for bb, l in payload_bbs:
                okl = True
                for i in range(k):
                    e = eq_locals[i]
                    thens = set()
                    for b2, c2 in f.calls():
                        if re.search(r"bool>::then$", c2.get("res") or "") and c2["args"] and _through(f, op_local(c2["args"][0]) or -1) == _through(f, e):
                            thens |= {x2[0] for x2 in c2.get("clos", [])}
                    tt = eqs[i][1] if i in eqs else None
                    if not thens and tt is None:
                        okl = False
                        break
                    if not _uses_guarded(ctx.bin, f, l, tt, thens, domf):
                        okl = False
                        break
                if okl:
                    then_guarded.append(l)
                else:
                    kept.append((bb, l))
            payload_bbs = kept
        use_bbs = set()
        for bb, l in payload_bbs:
            for b2, b in enumerate(f.blocks):
                t = b["t"]
                if t[0] == "call" and any(op_local(a) == l or _root_copy(f, op_local(a) or -1) == l or
                                          any(d[0] == "assign" and d[3][0] == "ref" and place_local(d[3][2]) == l
                                              for d in f.whole_defs(op_local(a)) if op_local(a) is not None)
                                          for a in t[1]["args"]):
                    use_bbs.add(b2)
        # payload reads inside closures (e.g. `.map(|c| Arc::clone(&c.value().1))`): used at the call that runs the closure
        vty = db.maps[m][1]
        cl_guarded, cl_unguarded = closure_guarded_hits(ctx.bin, f, k, stored, vty)
        under_f = set(_closures_in(ctx.bin, f))
        for bb2, c2 in f.calls():
            for cid, loc in c2.get("clos", []):
                cf = ctx.bin.fns.get(cid)
                if cf is None or (cf.root != f.id and cid not in under_f) or cid in cl_guarded:
                    continue
                for b3 in cf.blocks:
                    for st in b3["s"]:
                        if st[0] != "=" or st[2][0] not in ("ref", "use"):
                            continue
                        pp = st[2][2] if st[2][0] == "ref" else op_place(st[2][1])
                        if pp is None:
                            continue
                        for e in place_projs(pp):
                            if isinstance(e, list) and e[0] == "f" and e[3] == "tuple" and e[1] >= k and "Arc" in e[4] and e[4] in vty:
                                use_bbs.add(bb2)
        if cl_unguarded:
            r.violate(key0 + "|stamp0", "cache `%s`: closure(s) %s read the cached payload without an equality test of every stamp" % (m, sorted(cl_unguarded)))
            continue
        if not use_bbs and then_guarded and not cl_unguarded:
            for i in range(k):
                r.ok(sample={"cache": m, "stamp": i, "fill": fid, "idiom": "payload handed to bool::then(<stamp test>)"})
            continue
        if not use_bbs and not cl_guarded:
            r.violate(key0 + "|payload-use", "cannot find where the cached payload of `%s` is used in %s" % (m, fid))
            continue
        dom = f.dominators()
        for i in range(k):
            key = "%s|stamp%d" % (key0, i)
            if not use_bbs and cl_guarded:
                r.ok(sample={"cache": m, "stamp": i, "fill": fid, "idiom": "equality test inside the closure that reads the payload"})
                continue
            if i not in eqs:
                r.violate(key, "cache `%s`: stamp #%d stored by %s is not compared on the hit path" % (m, i, fid))
                continue
            bb, true_t = eqs[i]
            if all(true_t in dom.get(u, set()) for u in use_bbs):
                r.ok(sample={"cache": m, "stamp": i, "fill": fid})
            else:
                r.violate(key, "cache `%s`: cached payload is used on a path that does not pass the equality test of stamp #%d" % (m, i))
    r.floor("stamped caches", len(caches), 5)
    return r


# ------------------------------------------------------------------------------------------ version bumps
def version_field(db):
    """the definitions version: the atomic counter of the database whose loads stamp the most caches (a database may grow
    further counters -- statistics, a second version for another index; they are not the anchor)"""
    if len(db.atomics) == 1:
        return db.atomics[0]
    if not db.atomics:
        return None
    if getattr(db, "_vf", None) is not None:
        return db._vf
    crate = db.crate
    score = defaultdict(int)
    for f in crate.real_fns():
        loads = set()
        for bb, c in f.calls():
            if (c.get("res") or "").endswith("::load") and "atomic" in (c.get("res") or "") and c["args"]:
                for p in resolve_operand(crate, f, c["args"][0]):
                    for o, n in p.fields:
                        if o == DB and n in db.atomics:
                            loads.add(n)
        if not loads:
            continue
        stamped = {op.ident.split(".")[-1] for op in db.fn_ops(f.id) if op.method == "insert" and op.ident.split(".")[-1] in stamped_caches(db)}
        for n in loads:
            score[n] += len(stamped)
    best = sorted(score.items(), key=lambda kv: -kv[1])
    db._vf = best[0][0] if best and best[0][1] > 0 and (len(best) == 1 or best[0][1] > best[1][1]) else None
    return db._vf


def bump_sites(ctx, db):
    """(fn id, bb) of fetch_add on the version counter; plus functions that always bump"""
    vf = version_field(db)
    sites = defaultdict(list)
    for f in ctx.bin.real_fns():
        for bb, c in f.calls():
            if (c.get("res") or "").endswith("::fetch_add") and "atomic" in (c.get("res") or ""):
                paths = resolve_operand(ctx.bin, f, c["args"][0])
                if any((DB, vf) in p.fields for p in paths):
                    sites[f.id].append(bb)
    always = set()
    changed = True
    while changed:
        changed = False
        for f in ctx.bin.real_fns():
            if f.id in always:
                continue
            pdom = f.postdominators()
            bbs = list(sites.get(f.id, []))
            for bb, c in f.calls():
                if c.get("res_local") and c.get("res") in always:
                    bbs.append(bb)
            if any(bb in pdom.get(0, set()) for bb in bbs):
                always.add(f.id)
                changed = True
    return sites, always


def covered_by_bump(ctx, db, f, bb, sites, always, depth=0, seen=None):
    """is the program point (f, bb) followed on every path to return by a version bump, in f or in all callers?"""
    seen = seen or set()
    if (f.id, bb) in seen or depth > 4:
        return False
    seen.add((f.id, bb))
    pdom = f.postdominators()
    cand = list(sites.get(f.id, []))
    for b2, c in f.calls():
        if c.get("res_local") and c.get("res") in always:
            cand.append(b2)
    if any(b2 in pdom.get(bb, set()) and b2 != bb for b2 in cand):
        return True
    callers = db.origins.callers.get(f.id, [])
    if not callers:
        return False
    return all(covered_by_bump(ctx, db, cf, cbb, sites, always, depth + 1, seen) for cf, cbb, _c in callers)


def r3d_bump(ctx):
    r = Result("R3d-i", "every operation that mutates the fixture-definition maps (the maps whose type mentions FixtureDefinition "
                        "or that index definitions by file) is followed on every path by an increment of the definitions version, "
                        "in the same function or in every caller")
    db = _db(ctx)
    vf = version_field(db)
    if vf is None:
        r.anchor_missing("version counter", "FixtureDatabase has %d atomic fields" % len(db.atomics))
        return r
    sites, always = bump_sites(ctx, db)
    r.counts["bump_sites"] = sum(len(v) for v in sites.values())
    r.counts["always_bumping_fns"] = len(always)
    def_maps = [n for n, (k, v) in db.maps.items() if "FixtureDefinition" in v and not v.startswith("(")]
    # the by-file reverse index of the definitions map: written in the same function as the definitions append
    appenders = {op.fn.id for op in db.append_ops() if op.ident.split(".")[-1] in def_maps}
    for op in db.append_ops():
        m = op.ident.split(".")[-1]
        if op.fn.id in appenders and m not in def_maps and db.maps[m][0] == "std::path::PathBuf":
            def_maps.append(m)
    r.counts["definition_maps"] = ",".join(sorted(set(def_maps)))
    by_fn = defaultdict(list)
    for m in sorted(set(def_maps)):
        for op in db.writes(m):
            by_fn[op.fn.id].append((m, op))
    n = 0
    for fid, lst in sorted(by_fn.items()):
        f = ctx.bin.fns[fid]
        unc = [(m, op) for m, op in lst if not covered_by_bump(ctx, db, f, op.bb, sites, always)]
        n += len(lst)
        key = "R3d-i|%s|mutates %s without version bump" % (fid, ",".join(sorted({m for m, _ in unc})))
        if unc:
            r.violate(key, "%s mutates %s (%s) and no increment of `%s` follows on every path: caches stamped with the version "
                           "(cycles, available fixtures, imported fixtures) stay valid although definitions changed" % (
                               fid, sorted({m for m, _ in unc}), ", ".join(sorted({op.method for _, op in unc})), vf), n=len(unc))
            r.examined += len(lst) - len(unc)
            r.discharged += len(lst) - len(unc)
        else:
            r.ok(len(lst), sample={"mutator": fid, "maps": sorted({m for m, _ in lst})})
    r.floor("definition-map mutation sites", n, 5)
    r.floor("version bump sites", sum(len(v) for v in sites.values()), 1)
    return r


def r3d_readset(ctx):
    r = Result("R3d-ii", "for every cache stamped with the definitions version, each database map read (transitively) by its fill "
                         "function is either itself a stamped cache, a reviewed transparent cache, or has every write followed by "
                         "a version increment; otherwise a write to that map leaves the cached result stale")
    db = _db(ctx)
    caches = stamped_caches(db)
    fills = fill_functions(db)
    sites, always = bump_sites(ctx, db)
    vf = version_field(db)
    evictable, evictors = evictable_maps(db)
    n = 0
    # which caches are version-stamped: the fill function stores a value loaded from the version counter
    for m, fid in sorted(fills.items()):
        f = ctx.bin.fns[fid]
        loads = [bb for bb, c in f.calls() if (c.get("res") or "").endswith("::load") and "atomic" in (c.get("res") or "")]
        if not loads:
            continue
        reads = set()
        for op in db.reach_ops(fid):
            if op.family == "dashmap" and op.ident.startswith("dashmap|%s." % DB):
                reads.add(op.ident.split(".")[-1])
        reads.discard(m)
        for rm in sorted(reads):
            n += 1
            key = "R3d-ii|%s|reads %s" % (m, rm)
            if rm in caches:
                r.ok()
                continue
            rk = "R3d-ii|transparent|%s" % rm
            if rk in REVIEWED:
                r.review(rk, REVIEWED[rk])
                continue
            unc = []
            for op in db.writes(rm):
                if rm in evictable and op.fn.id in evictors and op.method == "remove":
                    continue  # eviction: readers must fall back (R3d-iv), the cached value stays correct
                if not covered_by_bump(ctx, db, op.fn, op.bb, sites, always):
                    unc.append(op)
            if unc:
                r.violate(key, "cache `%s` (filled by %s) depends on map `%s`, which is written without a version increment by %s" % (
                    m, fid.split("::")[-1], rm, sorted({"%s.%s()" % (o.fn.id.split("::")[-1], o.method) for o in unc})))
            else:
                r.ok(sample={"cache": m, "reads": rm, "writes_covered": True})
    r.floor("cache/read-map pairs", n, 10)
    return r


def r3d_memo_context(ctx):
    r = Result("R3d-iii", "a function that stores its result in a cache does not consult a `&mut` context parameter (e.g. a "
                          "visited set that cuts recursion) that is not part of the cache key: the stored result would depend on "
                          "the caller's context")
    db = _db(ctx)
    fills = fill_functions(db)
    for m, fid in sorted(fills.items()):
        f = ctx.bin.fns[fid]
        muts = [i for i in range(1, f.argc + 1) if f.local_ty(i).startswith("&mut ")]
        key = "R3d-iii|%s|%s" % (m, fid)
        if not muts:
            r.ok(sample={"cache": m, "fill": fid, "mut_params": 0})
            continue
        # is the parameter read (a query call on it) in the function?
        bad = []
        for i in muts:
            for bb, c in f.calls():
                res = c.get("res") or ""
                if c["args"] and _derives(f, c["args"][0], i) and re.search(r"::(contains|get|len|is_empty|iter)$", res):
                    bad.append((f.local_name(i), res.split("::")[-1]))
        rooted = bad and all(_store_only_at_root(db, f, m, i) for i in muts)
        if rooted:
            # the result is stored only when the context was empty on entry: every stored value was computed from the
            # canonical (empty) context, whatever nested calls consult
            r.ok(sample={"cache": m, "fill": fid, "idiom": "store only when the context parameter is empty on entry"})
            r.counts["root_only_stores"] = r.counts.get("root_only_stores", 0) + 1
            continue
        if bad:
            r.violate(key, "%s memoises its result in `%s` but the result depends on context parameter(s) %s" % (fid, m, sorted(set(bad))))
        else:
            r.ok()
        # functions computing the memoised result (same call-graph SCC) that consult a forwarded context set
        for comp in db.cg.sccs():
            if fid not in comp:
                continue
            for gid in comp:
                if gid == fid:
                    continue
                g = ctx.bin.fns[gid]
                for i in [i for i in range(1, g.argc + 1) if g.local_ty(i).startswith("&mut ")]:
                    reads = sorted({(c.get("res") or "").split("::")[-1] for bb, c in g.calls()
                                    if c["args"] and _derives(g, c["args"][0], i) and re.search(r"::(contains|get|len|is_empty|iter)$", c.get("res") or "")})
                    key2 = "R3d-iii|%s|%s" % (m, gid)
                    if reads:
                        r.violate(key2, "%s (computing the result memoised in `%s`) consults context parameter `%s` (%s)" % (gid, m, g.local_name(i), reads))
                    else:
                        r.ok()
    r.floor("cache fill functions", len(fills), 5)
    return r


def _store_only_at_root(db, f, m, param):
    """every insert into cache m inside f lies behind the true edge of `<param>.is_empty()` evaluated before any other use
    of the context parameter (so: on entry)"""
    dom = f.dominators()
    uses = [(bb, c) for bb, c in f.calls() if any(_derives(f, a, param) for a in c["args"])]
    tests = [(bb, c) for bb, c in uses if re.search(r"::is_empty$", c.get("res") or "") and c.get("dest") is not None]
    ins = [op for op in db.ops_by_map.get(m, []) if op.method == "insert" and op.fn.id == f.id]
    if not tests or not ins:
        return False
    for tb, tc in tests:
        if not all(ub == tb and uc is tc or (tb in dom[ub] and ub != tb) for ub, uc in uses):
            continue
        sw = _switch_of(f, place_local(tc["dest"]))
        if not sw or sw[1] == sw[2]:
            continue
        t_true = sw[1]
        if all(t_true in dom[op.bb] for op in ins):
            return True
    return False


def _derives(f, op, param, depth=0):
    l = op_local(op)
    if l is None or depth > 8:
        return False
    if l == param:
        return True
    for d in f.whole_defs(l):
        if d[0] == "assign":
            rv = d[3]
            if rv[0] == "use" and _derives(f, rv[1], param, depth + 1):
                return True
            if rv[0] == "ref" and (place_local(rv[2]) == param or _derives(f, ["cp", rv[2]], param, depth + 1)):
                return True
    return False


def _closure(f, starts, limit=4):
    """blocks reachable from `starts` through at most `limit` straight-line hops (goto / call fallthrough)"""
    out = set(starts)
    frontier = set(starts)
    for _ in range(limit):
        nxt = set()
        for b in frontier:
            t = f.blocks[b]["t"]
            if t[0] in ("goto", "call", "drop"):
                for s2 in f.succs(b):
                    if s2 not in out:
                        nxt.add(s2)
        out |= nxt
        frontier = nxt
    return out


def _switch_of(f, l):
    """(bb, true_target, false_target) of the switch that tests bool local l (through plain copies)"""
    aliases = {l}
    changed = True
    while changed:
        changed = False
        for bb, si, pl, rv, sp in f.assigns():
            if rv[0] == "use" and isinstance(pl, int) and op_local(rv[1]) in aliases and not place_projs(op_place(rv[1])):
                if pl not in aliases:
                    aliases.add(pl)
                    changed = True
    for bb, b in enumerate(f.blocks):
        t = b["t"]
        if t[0] == "switch" and op_local(t[1]) in aliases:
            false_t = [tg for v, tg in t[2] if v == 0]
            if false_t:
                return (bb, t[3], false_t[0])
            true_t = [tg for v, tg in t[2] if v == 1]
            if true_t:
                return (bb, true_t[0], t[3])
    return None


def _skip_goto(f, bb, n=0):
    t = f.blocks[bb]["t"]
    if t[0] == "goto" and all(x[0] in ("live", "dead") for x in f.blocks[bb]["s"]) and n < 5:
        return _skip_goto(f, t[1], n + 1)
    return bb


def _reaches_from(f, start, target, avoid=None):
    seen = {start}
    st = [start]
    while st:
        b = st.pop()
        if b == target:
            return True
        for s2 in f.succs(b):
            if s2 not in seen and s2 != avoid:
                seen.add(s2)
                st.append(s2)
    return False


def evictable_maps(db):
    """maps that the close/evict routines remove from: functions removing from >= 2 stamped caches with one key"""
    caches = stamped_caches(db)
    removers = defaultdict(set)
    for op in db.lm.ops:
        if op.family == "dashmap" and op.method == "remove" and op.ident.startswith("dashmap|%s." % DB):
            removers[op.fn.id].add(op.ident.split(".")[-1])
    evictable, evictors = set(), set()
    for fid, ms in removers.items():
        if len(ms & set(caches)) >= 2:
            evictable |= ms
            evictors.add(fid)
    return evictable, evictors


def r3d_membership_gate(ctx):
    r = Result("R3d-iv", "a query does not use membership in an evictable cache (a map that the close/evict routines remove from) "
                         "as the only gate of a result: each `contains_key` on such a map that decides a branch must be combined "
                         "with a filesystem/content fallback (e.g. `path.exists() || cache.contains_key(path)`)")
    db = _db(ctx)
    evictable, evictors = evictable_maps(db)
    from .r3 import handler_roots
    query_fns = db.cg.reach([h.id for h in handler_roots(ctx.bin)], include_spawn=False)
    r.counts["evictable"] = ",".join(sorted(evictable))
    n = 0
    for m in sorted(evictable):
        for op in db.ops_by_map.get(m, []):
            if op.method != "contains_key":
                continue
            f = op.fn
            # scan-time functions (reachable only through the spawned workspace scan or the CLI) are not queries
            if f.root not in query_fns and f.id not in query_fns:
                continue
            n += 1
            key = "R3d-iv|%s|%s.contains_key" % (f.id, m)
            res_l = place_local(op.call["dest"])
            tgt = op.call["target"]
            t = f.blocks[tgt]["t"] if tgt is not None else None
            # Accept when the result is or-ed with an exists()/is_file() call: i.e. some Path::exists / is_file / try_exists
            # call whose true edge by-passes this lookup or whose result feeds the same decision.
            fs = [bb for bb, c in f.calls() if re.search(r"std::path::Path::(exists|is_file|try_exists|is_dir)$", c.get("res") or "")]
            combined = False
            dom = f.dominators()
            sw_m = _switch_of(f, place_local(op.call["dest"]))
            for fb in fs:
                sw_f = _switch_of(f, place_local(f.blocks[fb]["t"][1]["dest"]))
                if sw_f is None:
                    continue
                # (1) membership is consulted only after the filesystem said no
                if fb in dom.get(op.bb, set()) and not _reaches_from(f, sw_f[1], op.bb, avoid=fb):
                    combined = True
                # (2) `fs_test || member` (either order): both tests share the successor taken when true
                if sw_m is not None and _skip_goto(f, sw_m[1]) == _skip_goto(f, sw_f[1]):
                    combined = True
            rk = key
            if combined:
                r.ok(sample={"gate": key, "fallback": "filesystem test in the same decision"})
            elif rk in REVIEWED:
                r.review(rk, REVIEWED[rk])
            else:
                r.violate(key, "`%s.contains_key()` alone decides a branch in %s at %s: closing the document or cache eviction "
                               "changes the answer" % (m, f.id, ctx.bin.span_str(op.call["span"])))
    # ---- `get` on an evictable map that holds primary data (no stamp to recompute from): the None outcome must fall back
    #      to the filesystem, as the accessor does; a query that reads the text only from the cache answers differently after
    #      didClose / eviction
    caches = stamped_caches(db)
    ng = 0
    for m in sorted(evictable - set(caches)):
        for op in db.ops_by_map.get(m, []):
            if op.method != "get":
                continue
            f = op.fn
            if f.root not in query_fns and f.id not in query_fns:
                continue
            ng += 1
            key = "R3d-iv|%s|%s.get" % (f.id, m)
            reads = [bb for bb, c in f.calls() if re.search(r"std::fs::read_to_string", c.get("res") or "")]
            none_t = _none_target(f, op)
            korig = db.origins.of_operand(f, op.call["args"][1]) if len(op.call["args"]) > 1 else set()
            if none_t is not None and any(_reaches_from(f, none_t, rb) for rb in reads):
                r.ok(sample={"get": key, "fallback": "read_to_string on the None path"})
            elif korig and all(t[0] == "call" and (t[2] or "") in roles.uri_converters(ctx) for t in korig):
                # the request's own document: present in the cache from didOpen to didClose by protocol (eviction of an open
                # document's text is the stated undecided remainder of C07)
                r.ok(sample={"get": key, "key": "the request's own document (uri_to_path of the request)"})
            elif key in REVIEWED:
                r.review(key, REVIEWED[key])
            else:
                r.violate(key, "`%s.get()` in %s at %s has no filesystem fallback on its None path: after didClose / eviction the "
                               "query answers as if the file did not exist" % (m, f.id, ctx.bin.span_str(op.call["span"])))
    r.counts["gets_on_unstamped_evictable"] = ng
    r.floor("membership tests on evictable maps in query functions", n, 2)
    return r


def _none_target(f, op):
    """block taken when the Option returned by the map lookup `op` is None (discriminant switch on its destination, followed
    through moves and `Try::branch` / `map` style pass-throughs is not attempted: direct switch or the `?` desugaring)"""
    dest = place_local(op.call["dest"])
    aliases = {dest}
    for _ in range(4):
        for bb, si, pl, rv, sp in f.assigns():
            if isinstance(pl, int) and rv[0] == "use" and op_local(rv[1]) in aliases and not place_projs(op_place(rv[1])):
                aliases.add(pl)
        # Option -> Option adaptors that keep None as None (`get(k).map(|e| e.value().clone())`, cloned, as_ref ...)
        for bb, c in f.calls():
            if c["args"] and op_local(c["args"][0]) in aliases and place_local(c["dest"]) not in aliases and \
                    re.search(r"option::Option::<[^>]*>::(map|cloned|copied|as_ref|as_deref|inspect)$", c.get("res") or ""):
                aliases.add(place_local(c["dest"]))
    # `?` : <Option<T> as Try>::branch(dest) -> ControlFlow; Break arm = None
    for bb, c in f.calls():
        if (c.get("fn") or "").endswith("Try::branch") and c["args"] and op_local(c["args"][0]) in aliases:
            cf_l = place_local(c["dest"])
            for b2, b in enumerate(f.blocks):
                t = b["t"]
                if t[0] == "switch":
                    for bb3, si, pl, rv, sp in f.assigns():
                        if bb3 == b2 and rv[0] == "discr" and place_local(rv[1]) == cf_l and op_local(t[1]) == place_local(pl):
                            brk = [tg for v, tg in t[2] if v == 1]
                            return brk[0] if brk else t[3]
    for b2, b in enumerate(f.blocks):
        t = b["t"]
        if t[0] != "switch":
            continue
        for st in b["s"]:
            if st[0] == "=" and st[2][0] == "discr" and place_local(st[2][1]) in aliases and op_local(t[1]) == place_local(st[1]):
                none = [tg for v, tg in t[2] if v == 0]
                return none[0] if none else t[3]
    return None


def r3d_stamp_origin(ctx):
    r = Result("R3d-stamp", "a cache stamp that is not the definitions version is a hash of the whole content: the value stored (and "
                            "compared) is computed by a function that feeds the content to a Hasher and returns finish()")
    db = _db(ctx)
    caches = stamped_caches(db)
    fills = fill_functions(db)
    from .r3 import _slice_calls
    n = 0
    for m, k in sorted(caches.items()):
        fid = fills.get(m)
        if fid is None:
            continue
        f = ctx.bin.fns[fid]
        stored = stored_stamps(ctx, db, m, fid, as_operands=True)
        if stored is None or any(o is None for o in stored[:k]):
            continue
        for i in range(k):
            calls = _slice_calls(ctx.bin, f, stored[i])
            if any(re.search(r"atomic::.*::load$", x) for x in calls):
                continue  # version stamp
            n += 1
            key = "R3d-stamp|%s|stamp%d" % (m, i)
            # the stamp must come from a local function whose body hashes its argument and returns finish()
            hashers = [x for x in calls if x in ctx.bin.fns and _is_content_hash(ctx.bin.fns[x])]
            others = [x for x in calls if x in ctx.bin.fns and not _is_content_hash(ctx.bin.fns[x])]
            if not calls and _stamp_param_is_hash_of_content_param(ctx, db, f, stored[i]):
                r.ok(sample={"cache": m, "stamp": i, "hash_fn": "passed in by every caller as the hash of the content it passes"})
            elif hashers and not others:
                r.ok(sample={"cache": m, "stamp": i, "hash_fn": hashers[0].split("::")[-1]})
            else:
                r.violate(key, "stamp #%d of `%s` is computed by %s, not by a hash of the whole content: different contents can share a stamp" % (
                    i, m, sorted(x.split("::")[-1] for x in (others or calls))[:3]))
    r.floor("content stamps", n, 3)
    return r


def _stamp_param_is_hash_of_content_param(ctx, db, f, op, depth=0):
    """the stamp is a parameter of f, and every caller passes `content_hash(<x>)` for it together with that same `<x>` as another
    argument (the text the payload is computed from): hashing once and handing the hash down changes nothing"""
    from .r3 import _slice_calls
    from .r8 import _root
    l = op_local(op)
    pidx = None
    if l is not None:
        rl = _through(f, l)
        if 1 <= rl <= f.argc:
            pidx = rl
    if pidx is None or depth > 2:
        return False
    callers = db.origins.callers.get(f.id, [])
    if not callers:
        return False
    for cf, bb, c in callers:
        if pidx - 1 >= len(c["args"]):
            return False
        a = c["args"][pidx - 1]
        calls = _slice_calls(ctx.bin, cf, a)
        hs = [x for x in calls if x in ctx.bin.fns and _is_content_hash(ctx.bin.fns[x])]
        ot = [x for x in calls if x in ctx.bin.fns and not _is_content_hash(ctx.bin.fns[x])]
        if not calls:
            if not _stamp_param_is_hash_of_content_param(ctx, db, cf, a, depth + 1):
                return False
            continue
        if not hs or ot:
            return False
        # the hashed text is one of the other arguments of this very call
        hashed = set()
        al = op_local(a)
        for d in cf.whole_defs(_through(cf, al)) if al is not None else []:
            if d[0] == "call" and d[2].get("res") in hs and d[2]["args"]:
                hashed.add(_root(cf, d[2]["args"][-1]))
        others_roots = {_root(cf, x) for j, x in enumerate(c["args"]) if j != pidx - 1}
        if not (hashed & others_roots):
            return False
    return True


def _is_content_hash(g):
    """g feeds its str/String parameter -- the whole of it, on every path -- to a Hasher and returns finish(): no path from
    entry to finish() avoids a `Hash::hash(<the parameter>)` call"""
    feeds, fin = set(), []
    sparams = [i for i in range(1, g.argc + 1) if g.local_ty(i).lstrip("&") in ("str", "std::string::String")]
    for b, c in g.calls():
        if c.get("fn") == "std::hash::Hash::hash" and any(t in ("str", "std::string::String") for t in c.get("targs", [])[:1]) \
                and c["args"] and any(_derives(g, c["args"][0], i) for i in sparams):
            feeds.add(b)
        if c.get("fn") == "std::hash::Hasher::finish" and place_local(c["dest"]) == 0:
            fin.append(b)
    if not feeds or not fin:
        return False
    # must-pass-through: with the feeding blocks removed, finish() is unreachable from the entry
    seen, st = {0}, [0]
    while st:
        x = st.pop()
        if x in feeds:
            continue
        if x in fin:
            return False
        for s2 in g.succs(x):
            if s2 not in seen:
                seen.add(s2)
                st.append(s2)
    return True


def r3d_who_reads(ctx):
    r = Result("R3d-v", "a stamped cache is read (get / iter / contains) only by functions that also store into it (its fill "
                        "functions and the helpers spliced into them): a derived result consulted from elsewhere -- the resolver "
                        "answering from the per-file availability list -- brings the tie-breaks of the computation behind that cache "
                        "into an answer that is defined without it, and the answer then depends on which request came first")
    db = _db(ctx)
    n = 0
    for m in sorted(stamped_caches(db)):
        setters = {op.fn.root for op in db.ops_by_map.get(m, []) if op.method == "insert"}
        for op in db.ops_by_map.get(m, []):
            if op.mode != "S" or op.method in ("len", "is_empty", "capacity"):
                continue
            n += 1
            key = "R3d-v|%s|read by %s" % (m, op.fn.root)
            rootf = ctx.bin.fns.get(op.fn.root)
            payload = set(re.findall(r"[A-Za-z_][A-Za-z0-9_:]*::[A-Z][A-Za-z0-9_]*", db.maps[m][1])) - {"std::sync::Arc"}
            carries = rootf is None or any(pt in (rootf.ret or "") for pt in payload) or \
                any(pt in rootf.local_ty(i) and rootf.local_ty(i).startswith("&mut") for pt in payload for i in range(1, rootf.argc + 1))
            if op.fn.root in setters:
                r.ok(sample={"cache": m, "read_by": op.fn.root.split("::")[-1]} if len(r.samples) < 5 else None)
            elif key in REVIEWED:
                r.review(key, REVIEWED[key])
            elif not carries:
                # statistics / reports: nothing of the payload's types can leave through the reader's result
                r.ok(sample={"cache": m, "read_by": op.fn.root.split("::")[-1], "payload_cannot_leave": True} if len(r.samples) < 6 else None)
            else:
                r.violate(key, "%s reads `%s` (%s) at %s but never stores into it: only %s fill that cache" % (
                    op.fn.root, m, op.method, ctx.bin.span_str(op.call["span"]), sorted(x.split("::")[-1] for x in setters)))
    r.floor("reads of stamped caches", n, 3)
    return r
