"""Run plsa-driver over the repository's current working tree and return the fact directory.

Facts are cached per content hash of (src/**, Cargo.toml, Cargo.lock, driver binary); a changed tree
always re-extracts.  Cargo's freshness cache is defeated by removing the member's fingerprints and the
fact files are required to carry the run id of this extraction.
"""
import fcntl
import glob
import hashlib
import os
import shutil
import subprocess
import sys
import time

VERIF = os.path.dirname(os.path.dirname(os.path.abspath(__file__)))
# PLSA_WORK: a separate work directory (lock, cargo target dir, fact cache) for development runs that analyse many scratch
# variants in parallel (tools/regress.sh); the registered checks use the default
WORK = os.environ.get("PLSA_WORK") or os.path.join(VERIF, ".work")
DRIVER_DIR = os.path.join(VERIF, "driver")
DRIVER = os.path.join(DRIVER_DIR, "target", "release", "plsa-driver")
TARGET = os.path.join(WORK, "target")


def repo_root():
    return os.environ.get("PLSA_REPO", "/repo")


def _sysroot():
    return subprocess.check_output(["rustc", "+nightly", "--print", "sysroot"], text=True).strip()


def build_driver(force=False):
    srcs = glob.glob(os.path.join(DRIVER_DIR, "src", "*.rs")) + [os.path.join(DRIVER_DIR, "Cargo.toml")]
    if not force and os.path.exists(DRIVER):
        newest = max(os.path.getmtime(p) for p in srcs)
        if os.path.getmtime(DRIVER) >= newest:
            return
    env = dict(os.environ)
    env["CARGO_NET_OFFLINE"] = "true"
    r = subprocess.run(["cargo", "+nightly", "build", "--release", "--offline"], cwd=DRIVER_DIR, env=env,
                       stdout=subprocess.PIPE, stderr=subprocess.STDOUT, text=True)
    if r.returncode != 0:
        sys.stderr.write(r.stdout)
        raise SystemExit("plsa: cannot build driver")


def tree_hash(repo):
    h = hashlib.sha256()
    paths = []
    for root, _dirs, files in os.walk(os.path.join(repo, "src")):
        for f in files:
            paths.append(os.path.join(root, f))
    for f in ("Cargo.toml", "Cargo.lock", "build.rs"):
        p = os.path.join(repo, f)
        if os.path.exists(p):
            paths.append(p)
    for p in sorted(paths):
        h.update(os.path.relpath(p, repo).encode())
        h.update(b"\0")
        with open(p, "rb") as fh:
            h.update(fh.read())
        h.update(b"\0")
    with open(DRIVER, "rb") as fh:
        h.update(hashlib.sha256(fh.read()).digest())
    return h.hexdigest()[:24]


class ExtractError(Exception):
    pass


def extract(repo=None, quiet=True):
    """returns (facts_dir, info dict)"""
    repo = repo or repo_root()
    os.makedirs(WORK, exist_ok=True)
    t0 = time.time()
    with open(os.path.join(WORK, "lock"), "w") as lockf:
        fcntl.flock(lockf, fcntl.LOCK_EX)
        build_driver()
        th = tree_hash(repo)
        out = os.path.join(WORK, "facts", th)
        want = [os.path.join(out, "pytest_language_server-%s.json" % k) for k in ("bin", "lib")]
        if all(os.path.exists(p) for p in want) and os.path.exists(os.path.join(out, "ok")):
            return out, {"tree_hash": th, "cached": True, "extract_s": round(time.time() - t0, 2)}
        if os.path.exists(out):
            shutil.rmtree(out)
        os.makedirs(out)
        # defeat cargo freshness for the member crate
        for fp in glob.glob(os.path.join(TARGET, "debug", ".fingerprint", "pytest-language-server-*")):
            shutil.rmtree(fp, ignore_errors=True)
        env = dict(os.environ)
        env.update({
            "PLSA_OUT": out,
            "PLSA_RUN_ID": th,
            "LD_LIBRARY_PATH": os.path.join(_sysroot(), "lib"),
            "RUSTFLAGS": "-Zmir-opt-level=0 -Awarnings",
            "RUSTC_WORKSPACE_WRAPPER": DRIVER,
            "CARGO_TARGET_DIR": TARGET,
            "CARGO_NET_OFFLINE": "true",
        })
        env.pop("RUSTC_WRAPPER", None)
        r = subprocess.run(["cargo", "+nightly", "check", "--offline", "--lib", "--bins"], cwd=repo, env=env,
                           stdout=subprocess.PIPE, stderr=subprocess.STDOUT, text=True)
        if r.returncode != 0:
            tail = "\n".join(l for l in r.stdout.splitlines() if "--extern" not in l)[-6000:]
            shutil.rmtree(out, ignore_errors=True)
            raise ExtractError("cargo check failed on %s:\n%s" % (repo, tail))
        for p in want:
            if not os.path.exists(p):
                shutil.rmtree(out, ignore_errors=True)
                raise ExtractError("fact file missing after extraction (driver skipped?): %s" % p)
            with open(p) as fh:
                head = fh.read(400)
            if th not in head:
                shutil.rmtree(out, ignore_errors=True)
                raise ExtractError("fact file %s does not carry run id %s" % (p, th))
        with open(os.path.join(out, "ok"), "w") as fh:
            fh.write(repo + "\n")
        # keep the cache small
        dirs = sorted(glob.glob(os.path.join(WORK, "facts", "*")), key=os.path.getmtime)
        for d in dirs[:-6]:
            shutil.rmtree(d, ignore_errors=True)
        return out, {"tree_hash": th, "cached": False, "extract_s": round(time.time() - t0, 2)}


if __name__ == "__main__":
    try:
        d, info = extract()
    except ExtractError as e:
        print(e)
        sys.exit(2)
    print(d, info)
