"""setup: build the driver and warm the dependency artefacts (one extraction of /repo)."""
import sys
from . import extract

if __name__ == "__main__":
    extract.build_driver(force=False)
    try:
        d, info = extract.extract()
    except extract.ExtractError as e:
        print("plsa setup: extraction failed: %s" % e)
        sys.exit(1)
    print("plsa setup ok:", d, info)
