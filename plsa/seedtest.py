"""Run property checks against a scratch copy of the repository with one patch applied.

  python3 -m plsa.seedtest <patch.diff> C12 [C09 ...]      # ad-hoc
Used by the thorough tier (self-test variants under /verif/selftest and kept seeded changes under /verif/seeded).
The scratch copy lives under $(mktemp -d) outside /repo and /verif and is removed immediately.
"""
import os
import re
import shutil
import subprocess
import sys
import tempfile

from . import extract


def _src_only(patch, d):
    """a copy of the patch without the file sections outside src/ (and the Cargo files); the original when nothing is dropped"""
    text = open(patch, errors="replace").read()
    parts = re.split(r"(?m)^(?=diff --git )", text)
    keep, dropped = [], 0
    for part in parts:
        m = re.match(r"diff --git a/(\S+) b/(\S+)", part)
        if m and not (m.group(2).startswith("src/") or m.group(2) in ("Cargo.toml", "Cargo.lock", "build.rs")):
            dropped += 1
            continue
        keep.append(part)
    if not dropped:
        return patch
    out = os.path.join(d, "_src_only.diff")
    with open(out, "w") as f:
        f.write("".join(keep))
    return out


def make_scratch(repo, patch):
    d = tempfile.mkdtemp(prefix="plsa-scratch-")
    for name in ("src", "Cargo.toml", "Cargo.lock", "build.rs"):
        p = os.path.join(repo, name)
        if os.path.isdir(p):
            shutil.copytree(p, os.path.join(d, name))
        elif os.path.exists(p):
            shutil.copy(p, os.path.join(d, name))
    if patch:
        # only what the analysis reads: file sections for tests/ (a feature's own tests) have nothing to apply to in the scratch copy
        patch = _src_only(patch, d)
        r = subprocess.run(["git", "apply", "--unsafe-paths", "--directory", d, os.path.abspath(patch)], cwd="/",
                           stdout=subprocess.PIPE, stderr=subprocess.STDOUT, text=True)
        if r.returncode != 0:
            r2 = subprocess.run(["patch", "-p1", "-d", d, "-i", os.path.abspath(patch)], stdout=subprocess.PIPE,
                                stderr=subprocess.STDOUT, text=True)
            if r2.returncode != 0:
                shutil.rmtree(d, ignore_errors=True)
                raise RuntimeError("patch does not apply: %s\n%s\n%s" % (patch, r.stdout, r2.stdout))
    return d


def run_on_patch(patch, props, repo=None, quiet=True):
    """returns {prop: (rc, [new violation keys], [known keys])}; facts are extracted and loaded once for all properties"""
    from .check import run_property, Ctx
    from .core import load_crates
    repo = repo or extract.repo_root()
    d = make_scratch(repo, patch)
    out = {}
    try:
        try:
            facts, _info = extract.extract(d)
        except extract.ExtractError:
            return {p: (2, [], []) for p in props}
        ctx = Ctx(load_crates(facts), "quick", d)
        for p in props:
            rc, info = run_property(p, "quick", repo=d, write_evidence=False, quiet=quiet, ctx=ctx)
            if info is None:
                out[p] = (rc, [], [])
            else:
                out[p] = (rc, [k for _r, k, _m in info["new"]], [k for k, _ in info["known"]])
    finally:
        shutil.rmtree(d, ignore_errors=True)
    return out


if __name__ == "__main__":
    patch = sys.argv[1]
    props = sys.argv[2:]
    res = run_on_patch(patch, props, quiet=False)
    for p, (rc, new, known) in res.items():
        print("==", p, "rc", rc)
        for k in new:
            print("   NEW", k)
