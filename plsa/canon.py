"""Canonical names for the repository's types.

The rule layer names a handful of repository types (the database struct, the definition / usage / finding records, the
scope enum).  A refactoring may rename such a type or move it to another module; the analysed program is the same.  At load
time the types are found by ROLE (their shape and their place in the database struct) and, when a found type does not carry
the name the rule layer uses, its path is rewritten to the canonical one throughout the facts (types, function ids, callee
names) before anything else looks at them.  Violation keys therefore stay stable across such renames."""
import json
import re

CANON = {
    "DB": "fixtures::FixtureDatabase",
    "DEF": "fixtures::types::FixtureDefinition",
    "USAGE": "fixtures::types::FixtureUsage",
    "UNDECL": "fixtures::types::UndeclaredFixture",
    "SCOPE": "fixtures::types::FixtureScope",
    "CYCLE": "fixtures::types::FixtureCycle",
    "MISMATCH": "fixtures::types::ScopeMismatch",
    "IMPORT": "fixtures::imports::FixtureImport",
    "PARAMINFO": "fixtures::types::ParamInsertionInfo",
}


def _inner(ty, prefix):
    """T of `...prefix<T>...` with balanced brackets"""
    i = ty.find(prefix)
    if i < 0:
        return None
    j = i + len(prefix)
    depth = 1
    k = j
    while k < len(ty) and depth:
        if ty[k] == "<":
            depth += 1
        elif ty[k] == ">":
            depth -= 1
        k += 1
    return ty[j:k - 1]


def _split_top(s):
    out, depth, cur = [], 0, ""
    for ch in s:
        if ch in "<(":
            depth += 1
        elif ch in ">)":
            depth -= 1
        if ch == "," and depth == 0:
            out.append(cur.strip())
            cur = ""
        else:
            cur += ch
    if cur.strip():
        out.append(cur.strip())
    return out


def discover(adts):
    """role -> actual path, for the roles that can be identified"""
    by_path = {a["path"]: a for a in adts}
    found = {}
    structs = [a for a in adts if a.get("kind") == "struct" and a["variants"]]

    def fields(a):
        return a["variants"][0]["fields"]
    # the database: the struct with the most concurrent-map fields
    best = None
    for a in structs:
        n = sum(1 for f in fields(a) if "dashmap::DashMap<" in f["ty"])
        if n >= 6 and (best is None or n > best[0]):
            best = (n, a)
    if best is None:
        return found
    db = best[1]
    found["DB"] = db["path"]
    kv = []
    for f in fields(db):
        inner = _inner(f["ty"], "dashmap::DashMap<")
        if inner:
            parts = _split_top(inner)
            if len(parts) == 2:
                kv.append((parts[0], parts[1]))
    S, P = "std::string::String", "std::path::PathBuf"
    # definition record: String -> Vec<T>, T a struct of the crate
    for k, v in kv:
        if k == S and v.startswith("std::vec::Vec<") and _inner(v, "std::vec::Vec<") in by_path:
            found["DEF"] = _inner(v, "std::vec::Vec<")
    # usage record: PathBuf -> Vec<U> with a reverse index String -> Vec<(PathBuf, U)>
    rev = set()
    for k, v in kv:
        if k == S and v.startswith("std::vec::Vec<("):
            parts = _split_top(_inner(v, "std::vec::Vec<")[1:-1])
            if len(parts) == 2 and parts[0] == P:
                rev.add(parts[1])
    others = []
    for k, v in kv:
        if k == P and v.startswith("std::vec::Vec<"):
            t = _inner(v, "std::vec::Vec<")
            if t in rev:
                found["USAGE"] = t
            elif t in by_path:
                others.append(t)
    if len(set(others)) == 1:
        found["UNDECL"] = others[0]
    d = by_path.get(found.get("DEF"))
    if d is not None:
        for f in fields(d):
            e = by_path.get(f["ty"])
            if e is not None and e.get("kind") == "enum" and len(e["variants"]) >= 4 and all(not v["fields"] for v in e["variants"]):
                found["SCOPE"] = f["ty"]
        for a in structs:
            tys = sorted(f["ty"] for f in fields(a))
            if tys == [found["DEF"], found["DEF"]]:
                found["MISMATCH"] = a["path"]
            if len(tys) == 2 and found["DEF"] in tys and "std::vec::Vec<std::string::String>" in tys:
                found["CYCLE"] = a["path"]
    skip = set(found.values())
    cands = []
    for a in structs:
        if a["path"] in skip:
            continue
        tys = [f["ty"] for f in fields(a)]
        if "bool" in tys and "std::vec::Vec<std::string::String>" in tys and P in tys and S in tys and len(tys) <= 8:
            cands.append(a["path"])
    if len(cands) == 1:
        found["IMPORT"] = cands[0]
    # the insertion point handed to the completion provider: a small struct of positions and a flag (usize, usize, bool)
    cands = []
    for a in structs:
        if a["path"] in skip or a["path"] in found.values():
            continue
        tys = sorted(f["ty"] for f in fields(a))
        if tys == ["bool", "usize", "usize"]:
            cands.append(a["path"])
    if len(cands) == 1:
        found["PARAMINFO"] = cands[0]
    return found


def canonicalise_text(text):
    """returns (text', {role: (actual, canonical)}) -- text' has every found type path replaced by its canonical path"""
    try:
        d = json.loads(text)
    except Exception:
        return text, {}
    found = discover(d.get("adts", []))
    ren = {}
    taken = {a["path"] for a in d.get("adts", [])}
    for role, actual in found.items():
        canon = CANON[role]
        if actual != canon and canon not in taken:
            ren[role] = (actual, canon)
    if not ren:
        return text, {}
    for role, (actual, canon) in sorted(ren.items(), key=lambda kv: -len(kv[1][0])):
        esc = json.dumps(actual)[1:-1]
        text = re.sub(r"(?<![A-Za-z0-9_])%s(?![A-Za-z0-9_])" % re.escape(esc), json.dumps(canon)[1:-1].replace("\\", "\\\\"), text)
    return text, ren
