"""Repository-specific fact helpers shared by the rules: database maps and their classes, the analysis
entry point, clearing / appending summaries, closure predicate shapes."""
import re
from collections import defaultdict

from .core import (Origins, op_local, op_place, op_const, place_local, place_projs, proj_fields)

DB = "fixtures::FixtureDatabase"
SCALAR_VALUE = re.compile(r"^(u8|u16|u32|u64|u128|usize|i8|i16|i32|i64|i128|isize|bool|f32|f64|std::time::Instant|std::time::SystemTime|std::time::Duration|std::sync::atomic::Atomic\w+)$")


def split_top(s):
    """split generic argument list at top-level commas"""
    out, depth, cur = [], 0, ""
    for ch in s:
        if ch in "<([":
            depth += 1
        elif ch in ">)]":
            depth -= 1
        if ch == "," and depth == 0:
            out.append(cur.strip())
            cur = ""
        else:
            cur += ch
    if cur.strip():
        out.append(cur.strip())
    return out


class DbInfo:
    def __init__(self, ctx, crate=None):
        self.ctx = ctx
        self.crate = crate or ctx.bin
        self.lm = ctx.lock_model(self.crate)
        self.cg = self.lm.cg
        adt = self.crate.adts.get(DB)
        self.maps = {}  # field -> (key_ty, val_ty)
        self.bookkeeping = {}
        self.mutexes = {}
        self.atomics = []
        self.missing = adt is None
        if adt:
            for f in adt["variants"][0]["fields"]:
                ty = f["ty"]
                m = re.match(r"^std::sync::Arc<dashmap::DashMap<(.*)>>$", ty)
                if m:
                    args = split_top(m.group(1))
                    val = args[1] if len(args) > 1 else ""
                    if SCALAR_VALUE.match(val):
                        # bookkeeping (ticks, counters, timestamps per key): carries no analysis fact; the index / cache rules
                        # do not look at it (the lock rules still do)
                        self.bookkeeping[f["name"]] = (args[0], val)
                        continue
                    self.maps[f["name"]] = (args[0], val)
                elif "std::sync::Mutex<" in ty:
                    self.mutexes[f["name"]] = ty
                elif "Atomic" in ty:
                    self.atomics.append(f["name"])
        self.ops_by_map = defaultdict(list)
        for op in self.lm.ops:
            if op.family == "dashmap" and op.ident.startswith("dashmap|%s." % DB) and op.ident.split(".")[-1] not in self.bookkeeping:
                self.ops_by_map[op.ident.split(".")[-1]].append(op)
        self.origins = Origins(self.crate, self.cg)

    # ---- classes (by type, not by name)
    def maps_where(self, pred):
        """names of the maps whose (key type, value type) satisfy pred"""
        return sorted(n for n, (k, v) in self.maps.items() if pred(k, v))

    def text_store(self):
        """the map holding the analysed text of each file: PathBuf -> Arc<String>"""
        ms = self.maps_where(lambda k, v: k == "std::path::PathBuf" and v == "std::sync::Arc<std::string::String>")
        return ms[0] if len(ms) == 1 else None

    def shared_by_name(self):
        return sorted(n for n, (k, v) in self.maps.items() if k == "std::string::String" and v.startswith("std::vec::Vec<"))

    def per_file_index(self):
        """PathBuf-keyed maps holding records of one analysed file (not tuples stamped with a hash/version)"""
        out = []
        for n, (k, v) in self.maps.items():
            if k != "std::path::PathBuf":
                continue
            if v.startswith("std::vec::Vec<") or v.startswith("std::collections::HashSet<"):
                out.append(n)
        return sorted(out)

    def caches(self):
        return sorted(n for n, (k, v) in self.maps.items() if v.startswith("(") and n not in self.per_file_index())

    def ident(self, name):
        return "dashmap|%s.%s" % (DB, name)

    def writes(self, name):
        return [op for op in self.ops_by_map.get(name, []) if op.mode == "X"]

    # ---- analysis entry: calls the Python parser and stores the file text
    def analysis_entry(self):
        cands = []
        for f in self.crate.real_fns():
            if f.kind not in ("method", "fn"):
                continue
            has_parse = any((c.get("res") or "").startswith("rustpython_parser::parse") or c.get("res") == "rustpython_parser::parser::parse"
                            for _bb, c in f.calls())
            if not has_parse:
                continue
            if any(op.fn.id == f.id and op.method == "insert" for op in self.ops_by_map.get(self.text_store() or "?", [])):
                cands.append(f)
        return cands[0] if len(cands) == 1 else None

    def parse_call(self, f):
        for bb, c in f.calls():
            r = c.get("res") or ""
            if r.startswith("rustpython_parser::parse") or r == "rustpython_parser::parser::parse":
                return bb, c
        return None, None

    # ---- summaries
    def fn_ops(self, fid):
        return [op for op in self.lm.ops if op.fn.id == fid]

    def reach_ops(self, fid):
        """lock ops in fid and everything reachable from it (spawned tasks excluded)"""
        reach = self.cg.reach([fid])
        return [op for op in self.lm.ops if op.fn.id in reach]

    def append_ops(self):
        """entry()-based appends (entry -> or_default/or_insert -> in-place mutation)"""
        return [op for op in self.lm.ops if op.family == "dashmap" and op.method in ("entry", "try_entry")
                and op.ident.startswith("dashmap|%s." % DB) and op.ident.split(".")[-1] not in self.bookkeeping]

    def clears_by_file(self, f, mapname):
        """does function f clear map `mapname` for a file given by one of its parameters?
        returns (kind, param_index) or None.  kinds: 'remove' (whole per-file entry removed, key = param),
        'retain' (get_mut + Vec::retain comparing the element's file with the param + remove_if(is_empty))"""
        ops = [op for op in self.fn_ops(f.id) if op.ident == self.ident(mapname)]
        for op in ops:
            if op.method == "remove" and len(op.call["args"]) > 1:
                o = self.local_param_origin(f, op.call["args"][1])
                if o is not None:
                    return ("remove", o)
        gm = [op for op in ops if op.method == "get_mut"]
        ri = [op for op in ops if op.method == "remove_if"]
        if gm and ri:
            for host, bb, c in retain_sites(self.crate, f):
                shp = retain_predicate_shape(self.crate, f, host, c)
                if shp and shp["cmp"] == "ne" and shp["capture_param"] is not None:
                    if host is f:
                        # the sweep is unconditional: the loop that retains is entered on every path through f (an early
                        # return that depends on what some other map currently holds makes the clear miss entries a
                        # concurrent analysis of the same file has just written)
                        from .rules.r1e import natural_loops
                        loops = [(h, body) for h, _l, body in natural_loops(f) if bb in body]
                        if loops:
                            h = max(loops, key=lambda x: len(x[1]))[0]
                            if h not in f.postdominators().get(0, set()) and not self._bypass_only_after_take(f, h):
                                continue
                    return ("retain", shp["capture_param"])
        return None

    def _closure_of_operand(self, f, op, depth=0):
        l = op_local(op)
        if l is None or depth > 8:
            return []
        out = []
        for d in f.whole_defs(l):
            if d[0] == "assign":
                rv = d[3]
                if rv[0] == "agg" and rv[1][0] == "closure":
                    out.append(rv[1][1])
                elif rv[0] == "use":
                    out += self._closure_of_operand(f, rv[1], depth + 1)
                elif rv[0] == "ref":
                    out += self._closure_of_operand(f, ["cp", rv[2]], depth + 1)
        return out

    def _bypass_only_after_take(self, f, h):
        """every branch that lets f return without entering the loop at h is decided by the outcome of an exclusive
        `remove(..)` on a database map (an atomic take of the companion index: `let Some(names) = idx.remove(file) else
        return`), not by a read-only peek"""
        def reach(a, avoid):
            seen, st = {a}, [a]
            while st:
                x = st.pop()
                for s2 in f.succs(x):
                    if s2 not in seen and s2 != avoid:
                        seen.add(s2)
                        st.append(s2)
            return seen
        before = reach(0, h)            # blocks reachable from the entry without passing the loop
        deciding = []
        for b in before:
            t = f.blocks[b]["t"]
            if t[0] != "switch":
                continue
            succ = f.succs(b)
            can = [any(x == h for x in reach(s2, None) | {s2}) for s2 in succ]
            if any(can) and not all(can):
                deciding.append(b)
        if not deciding:
            return False
        takes = {place_local(op.call["dest"]) for op in self.fn_ops(f.id) if op.method == "remove" and op.family == "dashmap"}
        for b in deciding:
            t = f.blocks[b]["t"]
            src = None
            for st in f.blocks[b]["s"]:
                if st[0] == "=" and st[2][0] == "discr" and place_local(st[1]) == op_local(t[1]):
                    src = place_local(st[2][1])
            # follow plain moves back to the call that produced the Option
            seen = set()
            while src is not None and src not in seen and src not in takes:
                seen.add(src)
                ds = f.whole_defs(src)
                if len(ds) == 1 and ds[0][0] == "assign" and ds[0][3][0] == "use" and op_local(ds[0][3][1]) is not None:
                    src = op_local(ds[0][3][1])
                else:
                    break
            if src not in takes:
                return False
        return True

    def local_param_origin(self, f, op):
        """index of the parameter of f this operand is (a value-preserving view of), else None"""
        seen = set()

        def go(op, depth=0):
            l = op_local(op)
            if l is None or depth > 12 or l in seen:
                return None
            seen.add(l)
            res = set()
            for d in f.whole_defs(l):
                if d[0] == "arg":
                    res.add(d[1])
                elif d[0] == "assign":
                    rv = d[3]
                    if rv[0] == "use":
                        r = go(rv[1], depth + 1)
                        res.add(r)
                    elif rv[0] == "ref":
                        r = go(["cp", rv[2]], depth + 1)
                        res.add(r)
                    else:
                        res.add(None)
                elif d[0] == "call":
                    from .core import value_preserving
                    if value_preserving(d[2]) and d[2]["args"]:
                        res.add(go(d[2]["args"][0], depth + 1))
                    else:
                        res.add(None)
                else:
                    res.add(None)
            if len(res) == 1:
                return next(iter(res))
            return None
        return go(op)


def closure_predicate_shape(crate, cf):
    """Recognise `|elem| elem.<field> != captured` / `== captured` predicates.
    returns {"cmp": 'ne'|'eq', "elem_field": (owner, name), "capture": upvar name, "capture_param": index of the
    parent's parameter the capture denotes (or None)} or None"""
    calls = [(bb, c) for bb, c in cf.calls() if not c["span"][4].startswith("macro:")]
    if len(calls) != 1:
        return None
    bb, c = calls[0]
    fnn = c.get("fn")
    if fnn not in ("std::cmp::PartialEq::ne", "std::cmp::PartialEq::eq"):
        return None
    if place_local(c["dest"]) != 0:
        # result must be the closure's return value (possibly negated)
        return None
    sides = []
    for a in c["args"]:
        sides.append(_side(cf, a))
    elem = [s for s in sides if s and s[0] == "elem"]
    cap = [s for s in sides if s and s[0] == "cap"]
    if len(elem) != 1 or len(cap) != 1:
        return None
    capture_param = None
    site = crate.closure_sites().get(cf.id)
    if site is not None:
        pf, _bb, _si, ops, _dl = site
        idx = cap[0][2]
        if idx < len(ops):
            from .facts import DbInfo  # noqa
            capture_param = _param_of(pf, ops[idx])
    return {"cmp": "ne" if fnn.endswith("::ne") else "eq", "elem_field": elem[0][1], "capture": cap[0][1],
            "capture_param": capture_param}


def retain_predicate_shape(crate, f, host, call):
    """shape of the predicate of a `Vec::retain` call found in `host` (the function f itself or a closure built under f):
    the closure handed to retain compares directly (closure_predicate_shape), or it is a wrapper `|e| !pred(e)` / `|e| pred(e)`
    around a predicate closure that reached it as a captured value / parameter of a generic helper spliced into f."""
    from .rules.r3d import _closures_in, _local_in_root
    clos = [cid for cid, loc in call.get("clos", []) if cid in crate.fns]
    if not clos and len(call["args"]) > 1:
        clos = _closure_aggs(host, call["args"][1])
    if len(clos) != 1:
        return None
    P = crate.fns[clos[0]]
    shp = closure_predicate_shape(crate, P)
    if shp:
        return shp
    # wrapper around another predicate
    calls = [(bb, c) for bb, c in P.calls() if not c["span"][4].startswith("macro:")]
    if len(calls) != 1 or calls[0][1].get("fn") not in ("std::ops::Fn::call", "std::ops::FnMut::call_mut", "std::ops::FnOnce::call_once"):
        return None
    bb, c = calls[0]
    negated = False
    res_l = place_local(c["dest"])
    for b2, si, pl, rv, sp in P.assigns():
        if place_local(pl) == 0 and rv[0] == "un" and rv[1] == "Not" and op_local(rv[2]) == res_l:
            negated = True
    if not negated and res_l != 0:
        return None
    # which closure is called?  a capture of P -> value in the enclosing closures -> local of f -> closure aggregate
    closures = _closures_in(crate, f)
    inner = None
    root_local = _local_in_root(closures, f, P, op_local(c["args"][0])) if c["args"] and op_local(c["args"][0]) is not None else None
    if root_local is not None:
        qs = _closure_aggs(f, ["cp", root_local])
        if len(qs) == 1:
            inner = crate.fns.get(qs[0])
    if inner is None:
        return None
    q = closure_predicate_shape(crate, inner)
    if not q:
        return None
    if negated:
        q = dict(q)
        q["cmp"] = "ne" if q["cmp"] == "eq" else "eq"
    return q


def _closure_aggs(f, op, depth=0):
    l = op_local(op)
    if l is None or depth > 10:
        return []
    out = []
    for d in f.whole_defs(l):
        if d[0] == "assign":
            rv = d[3]
            if rv[0] == "agg" and rv[1][0] == "closure":
                out.append(rv[1][1])
            elif rv[0] == "use":
                out += _closure_aggs(f, rv[1], depth + 1)
            elif rv[0] == "ref":
                out += _closure_aggs(f, ["cp", rv[2]], depth + 1)
    return out


def retain_sites(crate, f):
    """(host fn, block, call) of every Vec::retain in f and in the closures built under f"""
    from .rules.r3d import _closures_in
    out = []
    for g in [f] + [crate.fns[c] for c in _closures_in(crate, f) if c in crate.fns]:
        for bb, c in g.calls():
            if c.get("res") == "std::vec::Vec::<T, A>::retain":
                out.append((g, bb, c))
    return out


def _param_of(f, op, depth=0, seen=None):
    seen = seen or set()
    l = op_local(op)
    if l is None or depth > 12 or l in seen:
        return None
    seen.add(l)
    res = set()
    from .core import value_preserving
    for d in f.whole_defs(l):
        if d[0] == "arg":
            res.add(d[1])
        elif d[0] == "assign" and d[3][0] == "use":
            res.add(_param_of(f, d[3][1], depth + 1, seen))
        elif d[0] == "assign" and d[3][0] == "ref":
            res.add(_param_of(f, ["cp", d[3][2]], depth + 1, seen))
        elif d[0] == "call" and value_preserving(d[2]) and d[2]["args"]:
            res.add(_param_of(f, d[2]["args"][0], depth + 1, seen))
        else:
            res.add(None)
    return next(iter(res)) if len(res) == 1 else None


def _side(cf, op, depth=0):
    """('elem', (owner, field)) if the operand is a field of the closure's element parameter (_2),
    ('cap', name, idx) if it is a captured variable"""
    p = op_place(op)
    if p is None or depth > 10:
        return None
    l = place_local(p)
    fs = proj_fields(place_projs(p))
    if l == 2 and fs:
        return ("elem", fs[-1])
    if l == 1 and fs and fs[0][0].startswith("closure:"):
        idx = [e[1] for e in place_projs(p) if isinstance(e, list) and e[0] == "f"][0]
        return ("cap", fs[0][1], idx)
    if l in (1, 2) and not fs:
        return None
    for d in cf.whole_defs(l):
        if d[0] == "assign":
            rv = d[3]
            if rv[0] == "use":
                return _side(cf, rv[1], depth + 1)
            if rv[0] == "ref":
                return _side(cf, ["cp", rv[2]], depth + 1)
        if d[0] == "call":
            from .core import value_preserving
            if value_preserving(d[2]) and d[2]["args"]:
                return _side(cf, d[2]["args"][0], depth + 1)
    return None
