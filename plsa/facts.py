"""Repository-specific fact helpers shared by the rules: database maps and their classes, the analysis
entry point, clearing / appending summaries, closure predicate shapes."""
import re
from collections import defaultdict

from .core import (Origins, op_local, op_place, op_const, place_local, place_projs, proj_fields)

DB = "fixtures::FixtureDatabase"


def split_top(s):
    """split generic argument list at top-level commas"""
    out, depth, cur = [], 0, ""
    for ch in s:
        if ch in "<([":
            depth += 1
        elif ch in ">)]":
            depth -= 1
        if ch == "," and depth == 0:
            out.append(cur.strip())
            cur = ""
        else:
            cur += ch
    if cur.strip():
        out.append(cur.strip())
    return out


class DbInfo:
    def __init__(self, ctx, crate=None):
        self.ctx = ctx
        self.crate = crate or ctx.bin
        self.lm = ctx.lock_model(self.crate)
        self.cg = self.lm.cg
        adt = self.crate.adts.get(DB)
        self.maps = {}  # field -> (key_ty, val_ty)
        self.mutexes = {}
        self.atomics = []
        self.missing = adt is None
        if adt:
            for f in adt["variants"][0]["fields"]:
                ty = f["ty"]
                m = re.match(r"^std::sync::Arc<dashmap::DashMap<(.*)>>$", ty)
                if m:
                    args = split_top(m.group(1))
                    self.maps[f["name"]] = (args[0], args[1] if len(args) > 1 else "")
                elif "std::sync::Mutex<" in ty:
                    self.mutexes[f["name"]] = ty
                elif "Atomic" in ty:
                    self.atomics.append(f["name"])
        self.ops_by_map = defaultdict(list)
        for op in self.lm.ops:
            if op.family == "dashmap" and op.ident.startswith("dashmap|%s." % DB):
                self.ops_by_map[op.ident.split(".")[-1]].append(op)
        self.origins = Origins(self.crate, self.cg)

    # ---- classes (by type, not by name)
    def maps_where(self, pred):
        """names of the maps whose (key type, value type) satisfy pred"""
        return sorted(n for n, (k, v) in self.maps.items() if pred(k, v))

    def text_store(self):
        """the map holding the analysed text of each file: PathBuf -> Arc<String>"""
        ms = self.maps_where(lambda k, v: k == "std::path::PathBuf" and v == "std::sync::Arc<std::string::String>")
        return ms[0] if len(ms) == 1 else None

    def shared_by_name(self):
        return sorted(n for n, (k, v) in self.maps.items() if k == "std::string::String" and v.startswith("std::vec::Vec<"))

    def per_file_index(self):
        """PathBuf-keyed maps holding records of one analysed file (not tuples stamped with a hash/version)"""
        out = []
        for n, (k, v) in self.maps.items():
            if k != "std::path::PathBuf":
                continue
            if v.startswith("std::vec::Vec<") or v.startswith("std::collections::HashSet<"):
                out.append(n)
        return sorted(out)

    def caches(self):
        return sorted(n for n, (k, v) in self.maps.items() if v.startswith("(") and n not in self.per_file_index())

    def ident(self, name):
        return "dashmap|%s.%s" % (DB, name)

    def writes(self, name):
        return [op for op in self.ops_by_map.get(name, []) if op.mode == "X"]

    # ---- analysis entry: calls the Python parser and stores the file text
    def analysis_entry(self):
        cands = []
        for f in self.crate.real_fns():
            if f.kind not in ("method", "fn"):
                continue
            has_parse = any((c.get("res") or "").startswith("rustpython_parser::parse") or c.get("res") == "rustpython_parser::parser::parse"
                            for _bb, c in f.calls())
            if not has_parse:
                continue
            if any(op.fn.id == f.id and op.method == "insert" for op in self.ops_by_map.get(self.text_store() or "?", [])):
                cands.append(f)
        return cands[0] if len(cands) == 1 else None

    def parse_call(self, f):
        for bb, c in f.calls():
            r = c.get("res") or ""
            if r.startswith("rustpython_parser::parse") or r == "rustpython_parser::parser::parse":
                return bb, c
        return None, None

    # ---- summaries
    def fn_ops(self, fid):
        return [op for op in self.lm.ops if op.fn.id == fid]

    def reach_ops(self, fid):
        """lock ops in fid and everything reachable from it (spawned tasks excluded)"""
        reach = self.cg.reach([fid])
        return [op for op in self.lm.ops if op.fn.id in reach]

    def append_ops(self):
        """entry()-based appends (entry -> or_default/or_insert -> in-place mutation)"""
        return [op for op in self.lm.ops if op.family == "dashmap" and op.method in ("entry", "try_entry")
                and op.ident.startswith("dashmap|%s." % DB)]

    def clears_by_file(self, f, mapname):
        """does function f clear map `mapname` for a file given by one of its parameters?
        returns (kind, param_index) or None.  kinds: 'remove' (whole per-file entry removed, key = param),
        'retain' (get_mut + Vec::retain comparing the element's file with the param + remove_if(is_empty))"""
        ops = [op for op in self.fn_ops(f.id) if op.ident == self.ident(mapname)]
        for op in ops:
            if op.method == "remove" and len(op.call["args"]) > 1:
                o = self.local_param_origin(f, op.call["args"][1])
                if o is not None:
                    return ("remove", o)
        gm = [op for op in ops if op.method == "get_mut"]
        ri = [op for op in ops if op.method == "remove_if"]
        if gm and ri:
            for bb, c in f.calls():
                if c.get("res") == "std::vec::Vec::<T, A>::retain":
                    clos = [cid for cid, loc in c.get("clos", []) if cid in self.crate.fns]
                    if not clos and len(c["args"]) > 1:
                        # generic helper spliced into f: the predicate is a parameter there; follow the operand back to the
                        # closure the caller built
                        clos = self._closure_of_operand(f, c["args"][1])
                    for cid in clos:
                        cf = self.crate.fns.get(cid)
                        if cf is None:
                            continue
                        shp = closure_predicate_shape(self.crate, cf)
                        if shp and shp["cmp"] == "ne" and shp["capture_param"] is not None:
                            # the sweep is unconditional: the loop that retains is entered on every path through f (an early
                            # return that depends on what some other map currently holds makes the clear miss entries a
                            # concurrent analysis of the same file has just written)
                            from .rules.r1e import natural_loops
                            loops = [(h, body) for h, _l, body in natural_loops(f) if bb in body]
                            if loops:
                                h = max(loops, key=lambda x: len(x[1]))[0]
                                if h not in f.postdominators().get(0, set()) and not self._bypass_only_after_take(f, h):
                                    continue
                            return ("retain", shp["capture_param"])
        return None

    def _closure_of_operand(self, f, op, depth=0):
        l = op_local(op)
        if l is None or depth > 8:
            return []
        out = []
        for d in f.whole_defs(l):
            if d[0] == "assign":
                rv = d[3]
                if rv[0] == "agg" and rv[1][0] == "closure":
                    out.append(rv[1][1])
                elif rv[0] == "use":
                    out += self._closure_of_operand(f, rv[1], depth + 1)
                elif rv[0] == "ref":
                    out += self._closure_of_operand(f, ["cp", rv[2]], depth + 1)
        return out

    def _bypass_only_after_take(self, f, h):
        """every branch that lets f return without entering the loop at h is decided by the outcome of an exclusive
        `remove(..)` on a database map (an atomic take of the companion index: `let Some(names) = idx.remove(file) else
        return`), not by a read-only peek"""
        def reach(a, avoid):
            seen, st = {a}, [a]
            while st:
                x = st.pop()
                for s2 in f.succs(x):
                    if s2 not in seen and s2 != avoid:
                        seen.add(s2)
                        st.append(s2)
            return seen
        before = reach(0, h)            # blocks reachable from the entry without passing the loop
        deciding = []
        for b in before:
            t = f.blocks[b]["t"]
            if t[0] != "switch":
                continue
            succ = f.succs(b)
            can = [any(x == h for x in reach(s2, None) | {s2}) for s2 in succ]
            if any(can) and not all(can):
                deciding.append(b)
        if not deciding:
            return False
        takes = {place_local(op.call["dest"]) for op in self.fn_ops(f.id) if op.method == "remove" and op.family == "dashmap"}
        for b in deciding:
            t = f.blocks[b]["t"]
            src = None
            for st in f.blocks[b]["s"]:
                if st[0] == "=" and st[2][0] == "discr" and place_local(st[1]) == op_local(t[1]):
                    src = place_local(st[2][1])
            # follow plain moves back to the call that produced the Option
            seen = set()
            while src is not None and src not in seen and src not in takes:
                seen.add(src)
                ds = f.whole_defs(src)
                if len(ds) == 1 and ds[0][0] == "assign" and ds[0][3][0] == "use" and op_local(ds[0][3][1]) is not None:
                    src = op_local(ds[0][3][1])
                else:
                    break
            if src not in takes:
                return False
        return True

    def local_param_origin(self, f, op):
        """index of the parameter of f this operand is (a value-preserving view of), else None"""
        seen = set()

        def go(op, depth=0):
            l = op_local(op)
            if l is None or depth > 12 or l in seen:
                return None
            seen.add(l)
            res = set()
            for d in f.whole_defs(l):
                if d[0] == "arg":
                    res.add(d[1])
                elif d[0] == "assign":
                    rv = d[3]
                    if rv[0] == "use":
                        r = go(rv[1], depth + 1)
                        res.add(r)
                    elif rv[0] == "ref":
                        r = go(["cp", rv[2]], depth + 1)
                        res.add(r)
                    else:
                        res.add(None)
                elif d[0] == "call":
                    from .core import value_preserving
                    if value_preserving(d[2]) and d[2]["args"]:
                        res.add(go(d[2]["args"][0], depth + 1))
                    else:
                        res.add(None)
                else:
                    res.add(None)
            if len(res) == 1:
                return next(iter(res))
            return None
        return go(op)


def closure_predicate_shape(crate, cf):
    """Recognise `|elem| elem.<field> != captured` / `== captured` predicates.
    returns {"cmp": 'ne'|'eq', "elem_field": (owner, name), "capture": upvar name, "capture_param": index of the
    parent's parameter the capture denotes (or None)} or None"""
    calls = [(bb, c) for bb, c in cf.calls() if not c["span"][4].startswith("macro:")]
    if len(calls) != 1:
        return None
    bb, c = calls[0]
    fnn = c.get("fn")
    if fnn not in ("std::cmp::PartialEq::ne", "std::cmp::PartialEq::eq"):
        return None
    if place_local(c["dest"]) != 0:
        # result must be the closure's return value (possibly negated)
        return None
    sides = []
    for a in c["args"]:
        sides.append(_side(cf, a))
    elem = [s for s in sides if s and s[0] == "elem"]
    cap = [s for s in sides if s and s[0] == "cap"]
    if len(elem) != 1 or len(cap) != 1:
        return None
    capture_param = None
    site = crate.closure_sites().get(cf.id)
    if site is not None:
        pf, _bb, _si, ops, _dl = site
        idx = cap[0][2]
        if idx < len(ops):
            from .facts import DbInfo  # noqa
            capture_param = _param_of(pf, ops[idx])
    return {"cmp": "ne" if fnn.endswith("::ne") else "eq", "elem_field": elem[0][1], "capture": cap[0][1],
            "capture_param": capture_param}


def _param_of(f, op, depth=0, seen=None):
    seen = seen or set()
    l = op_local(op)
    if l is None or depth > 12 or l in seen:
        return None
    seen.add(l)
    res = set()
    from .core import value_preserving
    for d in f.whole_defs(l):
        if d[0] == "arg":
            res.add(d[1])
        elif d[0] == "assign" and d[3][0] == "use":
            res.add(_param_of(f, d[3][1], depth + 1, seen))
        elif d[0] == "assign" and d[3][0] == "ref":
            res.add(_param_of(f, ["cp", d[3][2]], depth + 1, seen))
        elif d[0] == "call" and value_preserving(d[2]) and d[2]["args"]:
            res.add(_param_of(f, d[2]["args"][0], depth + 1, seen))
        else:
            res.add(None)
    return next(iter(res)) if len(res) == 1 else None


def _side(cf, op, depth=0):
    """('elem', (owner, field)) if the operand is a field of the closure's element parameter (_2),
    ('cap', name, idx) if it is a captured variable"""
    p = op_place(op)
    if p is None or depth > 10:
        return None
    l = place_local(p)
    fs = proj_fields(place_projs(p))
    if l == 2 and fs:
        return ("elem", fs[-1])
    if l == 1 and fs and fs[0][0].startswith("closure:"):
        idx = [e[1] for e in place_projs(p) if isinstance(e, list) and e[0] == "f"][0]
        return ("cap", fs[0][1], idx)
    if l in (1, 2) and not fs:
        return None
    for d in cf.whole_defs(l):
        if d[0] == "assign":
            rv = d[3]
            if rv[0] == "use":
                return _side(cf, rv[1], depth + 1)
            if rv[0] == "ref":
                return _side(cf, ["cp", rv[2]], depth + 1)
        if d[0] == "call":
            from .core import value_preserving
            if value_preserving(d[2]) and d[2]["args"]:
                return _side(cf, d[2]["args"][0], depth + 1)
    return None
