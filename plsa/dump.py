"""debug helper: python3 -m plsa.dump <fn-suffix> [bin|lib]"""
import glob, json, sys
from .core import Crate
from . import extract

def dump(fn):
    print(fn.id, fn.kind, fn.phase, "%s:%d" % (fn.file, fn.line), "argc", fn.argc, "ret", fn.ret, "upvars", fn.upvars)
    for i, l in enumerate(fn.locals):
        print("  _%d: %s%s" % (i, l["ty"], (" // " + l["name"]) if "name" in l else ""))
    for i, b in enumerate(fn.blocks):
        print(" bb%d%s" % (i, " (cleanup)" if b["c"] else ""))
        for s in b["s"]:
            if s[0] in ("live", "dead"):
                continue
            print("    ", json.dumps(s[:3]), "@%d%s" % (s[3][1], (" " + s[3][4]) if s[3][4] else "") if len(s) > 3 else "")
        t = b["t"]
        if t[0] == "call":
            c = t[1]
            print("    CALL %s(%s) -> %s  then bb%s  [%s] clos=%s @%d %s" % (
                c.get("res") or c.get("fnptr"), ", ".join(json.dumps(a) for a in c["args"]), json.dumps(c["dest"]), c["target"],
                c.get("fn"), [x[0].split("::")[-1] for x in c.get("clos", [])], c["span"][1], c["span"][4]))
        else:
            print("    ", json.dumps(t))

if __name__ == "__main__":
    d, _ = extract.extract()
    cr = Crate(d + "/pytest_language_server-%s.json" % (sys.argv[2] if len(sys.argv) > 2 else "bin"))
    for f in cr.fns_named(sys.argv[1]):
        dump(f)
