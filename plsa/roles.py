"""Role finders: functions of the repository identified by what they do (types, effects, literals), never by their names.
Every finder is memoised in the Ctx."""
import re

from .core import op_local, op_str, place_local


def _lits(g):
    from .rules.r8 import literals_reaching
    out = set()
    for bb, c in g.calls():
        if "PartialEq" in (c.get("fn") or "") or (c.get("res") or "").endswith("str>::eq"):
            for a in c["args"]:
                out |= {x for x in literals_reaching(g, a) if x}
    return out


def families(ctx):
    def build():
        fam = {}
        for f in ctx.bin.real_fns():
            fam.setdefault(f.root, []).append(f)
        return fam
    return ctx.memo("role:families", build)


def canonicalisers(ctx):
    """local functions / closures whose result is computed from Path::canonicalize (transitively)"""
    from .rules.r2 import _canonicalizing_fns
    return ctx.memo("role:canon", lambda: _canonicalizing_fns(ctx))


def uri_converters(ctx):
    """functions that turn an LSP Uri into a path: a parameter type mentions `Uri`, the result is Option<PathBuf>"""
    def build():
        out = set()
        for f in ctx.bin.real_fns():
            if f.kind in ("fn", "method") and "PathBuf" in f.ret and "Option" in f.ret \
                    and any(re.search(r"\bUri\b", f.local_ty(i)) for i in range(1, f.argc + 1)):
                out.add(f.id)
        return out
    return ctx.memo("role:uri", build)


def diagnostics_publishers(ctx):
    """roots of the functions whose body hands diagnostics to the LSP client (`Client::publish_diagnostics`)"""
    def build():
        out = set()
        for f in ctx.bin.real_fns():
            if any(re.search(r"Client::publish_diagnostics$", c.get("res") or "") for _b, c in f.calls()):
                out.add(f.root)
        return out
    return ctx.memo("role:publishers", build)


def unused_list_fns(ctx):
    """the database queries behind `fixtures unused`: methods returning Vec<(PathBuf, String)> -- (file, fixture name) pairs;
    a filtered variant that takes parameters is one of them"""
    def build():
        return {f.id for f in ctx.bin.real_fns() if f.kind == "method" and f.argc >= 1
                and f.ret == "std::vec::Vec<(std::path::PathBuf, std::string::String)>"}
    return ctx.memo("role:unused", build)


def import_extractors(ctx):
    """functions whose family constructs FixtureImport records from the AST (the `from x import ..` edge kind)"""
    def build():
        out = set()
        for root, fam in families(ctx).items():
            if " as std::clone::Clone>" in root or root.endswith("::clone"):
                continue  # derived impls rebuild the record, they do not read the AST
            for g in fam:
                if any(rv[0] == "agg" and rv[1][0] == "adt" and rv[1][1].endswith("::FixtureImport") for _b, _s, _p, rv, _sp in g.assigns()):
                    out.add(root)
        return out
    return ctx.memo("role:import_extractors", build)


def plugin_decl_extractors(ctx):
    """functions whose family compares an identifier with the literal "pytest_plugins" (the pytest_plugins edge kind)"""
    def build():
        out = set()
        for root, fam in families(ctx).items():
            f0 = ctx.bin.fns.get(root)
            if f0 is None or f0.kind not in ("fn", "method"):
                continue
            if any("pytest_plugins" in _lits(g) for g in fam):
                out.add(root)
        return out
    return ctx.memo("role:plugin_extractors", build)
