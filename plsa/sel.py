"""Selection sites: places where one element of a collection of FixtureDefinition (or FixtureUsage) is picked.

kinds:  'call'  -- first/last/find/find_map/position/next/nth/max_by_key/min_by_key ... on a slice/iterator of the element type
        'loop'  -- `for e in coll { if cond(e) { return/break with e } }`  (element-carrying early exit)
        'push'  -- `for e in coll { if cond(e) && !seen.contains(k) { out.push(e.clone()); seen.insert(k) } }` (first wins per key)
"""
import re
from collections import defaultdict

from .core import (op_local, op_place, op_const, op_str, place_local, place_projs, proj_fields, value_preserving)

DEF = "fixtures::types::FixtureDefinition"
USAGE = "fixtures::types::FixtureUsage"

FIRST_MATCH = {"first", "find", "find_map", "position", "next", "nth", "rposition"}
LAST = {"last", "next_back", "rfind"}
EXTREMUM = {"max_by_key", "min_by_key", "max_by", "min_by"}
SEL_METHODS = FIRST_MATCH | LAST | EXTREMUM


def _elem_of(targs):
    s = " ".join(targs)
    if DEF in s and "HashMap" not in s and "DashMap" not in s:
        return DEF
    if USAGE in s and "HashMap" not in s and "DashMap" not in s:
        return USAGE
    return None


def callee_method(c):
    r = c.get("fn") or ""
    return r.rsplit("::", 1)[-1]


class SelSite:
    def __init__(self, fn, kind, selector, bb, span, elem):
        self.fn = fn
        self.kind = kind
        self.selector = selector
        self.bb = bb
        self.span = span
        self.elem = elem
        self.fields = set()  # element fields tested by the predicate / dominating conditions
        self.filter_param = False  # the caller-supplied filter closure is invoked on the candidate
        self.path_cmp = []  # classification of the value the element's file_path is compared with
        self.to_return = False
        self.dedup = False
        self.key_field = None  # for extremum selectors: field used as key
        self.owner = fn.root
        self.from_param = False  # the collection selected from is a parameter of the enclosing function

    @property
    def klass(self):
        if self.kind == "push":
            return "first-match"
        if self.selector in EXTREMUM or self.selector.startswith("sorted-"):
            return "extremum"
        if self.selector in LAST:
            return "last"
        return "first-match"

    def descr(self):
        return "%s:%s" % (self.kind, self.selector)

    def as_dict(self, crate):
        return {"fn": self.fn.id, "site": self.descr(), "at": crate.span_str(self.span), "elem": self.elem.split("::")[-1],
                "fields": sorted(self.fields), "filter_param": self.filter_param, "path_cmp": sorted(set(self.path_cmp)),
                "to_return": self.to_return, "dedup": self.dedup}


def elem_fields_in(fn, elem, aliases=None):
    """fields of the element ADT read in fn (through given alias locals, or anywhere if aliases is None)"""
    out = set()

    def visit(place):
        if place is None:
            return
        l = place_local(place)
        if aliases is not None and l not in aliases:
            return
        for o, n in proj_fields(place_projs(place)):
            if o == elem:
                out.add(n)
    for b in fn.blocks:
        for s in b["s"]:
            if s[0] == "=":
                rv = s[2]
                for p in _rv_places(rv):
                    visit(p)
        t = b["t"]
        if t[0] == "call":
            for a in t[1]["args"]:
                visit(op_place(a))
        elif t[0] == "switch":
            visit(op_place(t[1]))
    return out


def _rv_places(rv):
    k = rv[0]
    if k in ("use", "repeat"):
        return [op_place(rv[1])]
    if k == "ref":
        return [rv[2]]
    if k in ("rawptr", "discr"):
        return [rv[1]]
    if k == "cast":
        return [op_place(rv[2])]
    if k == "bin":
        return [op_place(rv[2]), op_place(rv[3])]
    if k == "un":
        return [op_place(rv[2])]
    if k == "agg":
        return [op_place(o) for o in rv[2]]
    return []


def calls_fn_param(fn):
    """does fn invoke a closure it received as a generic parameter (Fn::call on a non-local callee type)?"""
    for bb, c in fn.calls():
        if c.get("fn") in ("std::ops::Fn::call", "std::ops::FnMut::call_mut", "std::ops::FnOnce::call_once"):
            if not [x for x in c.get("clos", []) if x[1]]:
                ta = c.get("targs", [])
                if ta and not ta[0].lstrip("&").startswith("{closure@/"):
                    return True
    return False


def classify_path_value(crate, fn, op, depth=0, seen=None):
    """what is the file_path of an element compared with?
    'request:<param name>' -- a Path parameter of the enclosing (root) function
    'conftest'             -- <dir>.join("conftest.py")
    'elem-field:<f>'       -- a field of another record (e.g. usage.file_path / definition.file_path)
    'other'"""
    seen = seen or set()
    p = op_place(op)
    if p is None:
        return {"other"}
    l = place_local(p)
    key = (fn.id, l)
    if key in seen or depth > 25:
        return set()
    seen.add(key)
    fs = proj_fields(place_projs(p))
    # closure capture
    if l == 1 and fn.kind in ("closure", "coroutine") and fs and fs[0][0].startswith("closure:"):
        idx = [e[1] for e in place_projs(p) if isinstance(e, list) and e[0] == "f"][0]
        site = crate.closure_sites().get(fn.id)
        if site is not None and idx < len(site[3]):
            return classify_path_value(crate, site[0], site[3][idx], depth + 1, seen)
        return {"other"}
    named = [(o, n) for o, n in fs if not o.startswith(("std::", "tuple", "closure:", "core::"))]
    if named:
        return {"elem-field:%s.%s" % (named[-1][0].split("::")[-1], named[-1][1])}
    out = set()
    ds = fn.whole_defs(l)
    if not ds:
        return {"other"}
    for d in ds:
        if d[0] == "arg":
            if fn.kind in ("closure", "coroutine"):
                out.add("closure-param")
            else:
                out.add("request:%s" % (fn.local_name(d[1]) or d[1]))
        elif d[0] == "call":
            c = d[2]
            if (c.get("res") or "").endswith("std::path::Path::join") and len(c["args"]) > 1:
                s = None
                a1 = c["args"][1]
                s = op_str(a1)
                if s is None and op_local(a1) is not None:
                    for d2 in fn.whole_defs(op_local(a1)):
                        if d2[0] == "assign" and d2[3][0] == "use":
                            s = op_str(d2[3][1])
                        elif d2[0] == "call" and d2[2]["args"]:
                            s = op_str(d2[2]["args"][0])
                out.add("conftest" if s == "conftest.py" else "join:%s" % s)
            elif value_preserving(c) and c["args"]:
                out |= classify_path_value(crate, fn, c["args"][0], depth + 1, seen)
            elif (c.get("res") or "").endswith("::get_canonical_path") and c["args"]:
                out |= classify_path_value(crate, fn, c["args"][-1], depth + 1, seen)
            else:
                out.add("call:%s" % (c.get("res") or "?").split("::")[-1])
        elif d[0] == "assign":
            rv = d[3]
            if rv[0] == "use":
                out |= classify_path_value(crate, fn, rv[1], depth + 1, seen)
            elif rv[0] == "ref":
                out |= classify_path_value(crate, fn, ["cp", rv[2]], depth + 1, seen)
            else:
                out.add("other")
        else:
            out.add("other")
    return out


def path_comparisons(crate, fn, elem, aliases=None):
    """for PartialEq::eq/ne calls in fn where one side is <elem>.file_path (or tuple.0 of a (PathBuf, _) element):
    classification of the other side"""
    out = []
    for bb, c in fn.calls():
        if c.get("fn") not in ("std::cmp::PartialEq::eq", "std::cmp::PartialEq::ne"):
            continue
        sides = []
        for a in c["args"]:
            sides.append(_is_elem_path(fn, a, elem, aliases))
        if sides.count(True) >= 1 and len(c["args"]) == 2:
            other = c["args"][1] if sides[0] else c["args"][0]
            if sides[0] and sides[1]:
                out.append("elem-field:both")
            else:
                out.extend(sorted(classify_path_value(crate, fn, other)))
    return out


def _is_elem_path(fn, op, elem, aliases, depth=0):
    p = op_place(op)
    if p is None or depth > 6:
        return False
    l = place_local(p)
    for o, n in proj_fields(place_projs(p)):
        if o == elem and n == "file_path" and (aliases is None or l in aliases):
            return True
    if not place_projs(p) or place_projs(p) == ["*"]:
        for d in fn.whole_defs(l):
            if d[0] == "assign" and d[3][0] == "ref":
                if _is_elem_path(fn, ["cp", d[3][2]], elem, aliases, depth + 1):
                    return True
            if d[0] == "assign" and d[3][0] == "use":
                if _is_elem_path(fn, d[3][1], elem, aliases, depth + 1):
                    return True
    return False


def _aliases_of(fn, e):
    al = {e}
    changed = True
    while changed:
        changed = False
        for bb, si, pl, rv, sp in fn.assigns():
            if not isinstance(pl, int) or pl in al:
                continue
            src = None
            if rv[0] == "use":
                src = op_place(rv[1])
            elif rv[0] == "ref":
                src = rv[2]
            if src is None:
                continue
            if place_local(src) in al and all(x == "*" for x in place_projs(src)):
                al.add(pl)
                changed = True
    return al


def _flows_to_return(fn, l, depth=0, seen=None):
    """does local l flow (through moves, Some/Ok wrapping, clones) into the return place?"""
    seen = seen or set()
    if l in seen or depth > 12:
        return False
    seen.add(l)
    if l == 0:
        return True
    for bb, si, pl, rv, sp in fn.assigns():
        srcs = [place_local(p) for p in _rv_places(rv) if p is not None]
        if l in srcs:
            if _flows_to_return(fn, place_local(pl), depth + 1, seen):
                return True
    for bb, c in fn.calls():
        if any(op_local(a) == l for a in c["args"]):
            res = c.get("res") or ""
            if value_preserving(c) or re.search(r"::(cloned|copied|map|unwrap_or|unwrap_or_default|ok_or|as_ref|clone|into_iter|collect|filter|chain|rev|enumerate|then_some|or_else|and_then|flatten)$", res) or c.get("clos"):
                if _flows_to_return(fn, place_local(c["dest"]), depth + 1, seen):
                    return True
    return False


def _vec_root(fn, op, depth=0):
    """the Vec local a slice / reference operand views (through refs, copies and Deref)"""
    l = op_local(op)
    if l is None or depth > 10:
        return None
    ds = fn.whole_defs(l)
    if len(ds) == 1 and ds[0][0] == "assign":
        rv = ds[0][3]
        if rv[0] == "ref" and all(e == "*" for e in place_projs(rv[2])):
            return _vec_root(fn, ["cp", rv[2]], depth + 1) if place_local(rv[2]) != l else l
        if rv[0] == "use" and op_place(rv[1]) is not None and all(e == "*" for e in place_projs(op_place(rv[1]))):
            return _vec_root(fn, rv[1], depth + 1)
    if len(ds) == 1 and ds[0][0] == "call" and ds[0][2]["args"] and re.search(r"Deref(Mut)?>?::deref(_mut)?$|::as_slice$|::as_mut_slice$", ds[0][2].get("res") or ""):
        return _vec_root(fn, ds[0][2]["args"][0], depth + 1)
    return l


def find_sites(crate, fn):
    sites = []
    dom = None
    # ---- call-based selectors
    for bb, c in fn.calls():
        m = callee_method(c)
        if m not in SEL_METHODS:
            continue
        if c["span"][4].startswith("desugar:ForLoop"):
            continue
        elem = _elem_of(c.get("targs", []))
        if elem is None:
            continue
        s = SelSite(fn, "call", m, bb, c["span"], elem)
        for cid, loc in c.get("clos", []):
            cf = crate.fns.get(cid)
            if cf is None:
                continue
            fl = elem_fields_in(cf, elem)
            # tuple elements: (PathBuf, FixtureUsage)
            if m in EXTREMUM and cf.id == c["clos"][-1][0]:
                s.key_field = ",".join(sorted(fl)) or None
            else:
                s.fields |= fl
            if m in EXTREMUM and len(c["clos"]) == 1:
                s.key_field = ",".join(sorted(fl)) or None
            if calls_fn_param(cf):
                s.filter_param = True
            s.path_cmp += path_comparisons(crate, cf, elem)
        if m in EXTREMUM and s.key_field:
            # key closure fields are not visibility tests
            s.fields -= set(s.key_field.split(",")) - _pred_fields(crate, c, elem)
        s.to_return = _flows_to_return(fn, place_local(c["dest"]))
        s.from_param = bool(c["args"]) and _collection_is_param(fn, c["args"][0], elem)
        if m in ("first", "last") and c["args"]:
            # `v.sort_by_key(|d| d.k); v.first()` is a minimum by k, not a first match
            root = _vec_root(fn, c["args"][0])
            if root is not None:
                if dom is None:
                    dom = fn.dominators()
                for bb2, c2 in fn.calls():
                    if re.search(r"::sort(_unstable)?_by(_key|_cached_key)?$", c2.get("res") or "") and c2["args"] \
                            and _vec_root(fn, c2["args"][0]) == root and bb2 in dom.get(bb, set()):
                        fl = set()
                        for cid, _loc in c2.get("clos", []):
                            cf = crate.fns.get(cid)
                            if cf is not None:
                                fl |= elem_fields_in(cf, elem)
                        s.selector = "sorted-" + m
                        s.key_field = ",".join(sorted(fl)) or None
        sites.append(s)
    # ---- loops
    dom = None
    for bb, c in fn.calls():
        if c.get("fn") != "std::iter::Iterator::next" or not c["span"][4].startswith("desugar:ForLoop"):
            continue
        elem = _elem_of(c.get("targs", []))
        if elem is None:
            continue
        opt = place_local(c["dest"])
        tgt = c["target"]
        if tgt is None:
            continue
        sw = fn.blocks[tgt]["t"]
        if sw[0] != "switch":
            continue
        some_bb = [t for v, t in sw[2] if v == 1]
        if not some_bb:
            continue
        some_bb = some_bb[0]
        # element local
        e = None
        for s_ in fn.blocks[some_bb]["s"]:
            if s_[0] == "=" and s_[2][0] == "use":
                p = op_place(s_[2][1])
                if p is not None and place_local(p) == opt and isinstance(s_[1], int):
                    e = s_[1]
                    break
        if e is None:
            continue
        al = _aliases_of(fn, e)
        # loop body: blocks reachable from some_bb without passing the header bb
        body = set()
        st = [some_bb]
        while st:
            b = st.pop()
            if b in body or b == bb:
                continue
            body.add(b)
            for s2 in fn.succs(b):
                st.append(s2)
        # blocks that can return to the header
        back = {b for b in body if bb in fn.succs(b) or any(_reach(fn, s2, bb, body) for s2 in fn.succs(b))}
        if dom is None:
            dom = fn.dominators()
        # the element itself (a reference) handed to the return place: `return Some(def)` in a helper returning a borrow
        for b2 in sorted(body):
            hit = None
            for st_ in fn.blocks[b2]["s"]:
                if st_[0] != "=":
                    continue
                srcs = [place_local(p) for p in _rv_places(st_[2]) if p is not None and all(x == "*" for x in place_projs(p))]
                if any(x in al for x in srcs) and place_local(st_[1]) not in al and st_[2][0] in ("agg", "use") \
                        and _flows_to_return(fn, place_local(st_[1])) and not _reaches_header_only(fn, b2, bb, body):
                    hit = st_
            if hit is not None and "&" in fn.ret:
                s = SelSite(fn, "loop", "early-exit", b2, hit[3], elem)
                s.from_param = bool(c["args"]) and _collection_is_param(fn, c["args"][0], elem)
                doms = {x for x in dom.get(b2, set()) if x in body} | {b2}
                s.fields = _fields_in_blocks(fn, elem, al, doms)
                s.filter_param = _filter_called_in(fn, al, doms)
                s.path_cmp = _path_cmp_in_blocks(crate, fn, elem, al, doms)
                s.to_return = True
                sites.append(s)
        # uses of the element value: clone(e) / push
        for b2 in sorted(body):
            t2 = fn.blocks[b2]["t"]
            if t2[0] != "call":
                continue
            c2 = t2[1]
            res = c2.get("res") or ""
            if not (res.endswith("as std::clone::Clone>::clone") and c2["args"] and _derived(fn, c2["args"][0], al)):
                continue
            d = place_local(c2["dest"])
            # where does the clone go?
            kind = None
            if _flows_to_return(fn, d) and not _reaches_header_only(fn, b2, bb, body):
                kind = "loop"
            pushed = _pushed(fn, d)
            if pushed:
                kind = "push"
            if kind is None:
                continue
            s = SelSite(fn, kind, "early-exit" if kind == "loop" else "push", b2, c2["span"], elem)
            s.from_param = bool(c["args"]) and _collection_is_param(fn, c["args"][0], elem)
            doms = {x for x in dom.get(b2, set()) if x in body} | {b2}
            s.fields = _fields_in_blocks(fn, elem, al, doms)
            s.filter_param = _filter_called_in(fn, al, doms)
            s.path_cmp = _path_cmp_in_blocks(crate, fn, elem, al, doms)
            s.to_return = kind == "loop" or _flows_to_return(fn, pushed) if pushed else kind == "loop"
            if kind == "push":
                s.dedup = any(fn.blocks[x]["t"][0] == "call" and re.search(r"HashSet::<.*>::contains", fn.blocks[x]["t"][1].get("res") or "")
                              for x in doms)
            sites.append(s)
    return sites


def _pred_fields(crate, c, elem):
    out = set()
    for cid, loc in c.get("clos", [])[:-1]:
        cf = crate.fns.get(cid)
        if cf is not None:
            out |= elem_fields_in(cf, elem)
    return out


def _reach(fn, a, b, within):
    seen = {a}
    st = [a]
    while st:
        x = st.pop()
        if x == b:
            return True
        for s in fn.succs(x):
            if s not in seen and (s in within or s == b):
                seen.add(s)
                st.append(s)
    return False


def _reaches_header_only(fn, b, header, body):
    """every path from b leads back to the loop header (no exit)"""
    seen = {b}
    st = [b]
    while st:
        x = st.pop()
        for s in fn.succs(x):
            if s == header:
                continue
            if s not in body:
                return False
            if s not in seen:
                seen.add(s)
                st.append(s)
        if fn.blocks[x]["t"][0] == "ret":
            return False
    return True


def _derived(fn, op, aliases, depth=0):
    l = op_local(op)
    if l is None or depth > 6:
        return False
    if l in aliases:
        return True
    for d in fn.whole_defs(l):
        if d[0] == "assign":
            rv = d[3]
            if rv[0] == "use" and _derived(fn, rv[1], aliases, depth + 1):
                return True
            if rv[0] == "ref" and place_local(rv[2]) in aliases:
                return True
    return False


def _pushed(fn, d):
    """local of the Vec the value d is pushed into, if any"""
    for bb, c in fn.calls():
        if (c.get("res") or "") == "std::vec::Vec::<T, A>::push" and len(c["args"]) == 2 and op_local(c["args"][1]) == d:
            l = op_local(c["args"][0])
            for dd in fn.whole_defs(l):
                if dd[0] == "assign" and dd[3][0] == "ref":
                    return place_local(dd[3][2])
            return l
    return None


def _fields_in_blocks(fn, elem, aliases, blocks):
    out = set()

    def visit(place):
        if place is None or place_local(place) not in aliases:
            return
        for o, n in proj_fields(place_projs(place)):
            if o == elem:
                out.add(n)
    for b in blocks:
        blk = fn.blocks[b]
        for s in blk["s"]:
            if s[0] == "=":
                for p in _rv_places(s[2]):
                    visit(p)
        t = blk["t"]
        if t[0] == "call":
            for a in t[1]["args"]:
                visit(op_place(a))
        elif t[0] == "switch":
            visit(op_place(t[1]))
    return out


def _filter_called_in(fn, aliases, blocks):
    for b in blocks:
        t = fn.blocks[b]["t"]
        if t[0] == "call" and t[1].get("fn") in ("std::ops::Fn::call", "std::ops::FnMut::call_mut"):
            if not [x for x in t[1].get("clos", []) if x[1]]:
                return True
    return False


def _path_cmp_in_blocks(crate, fn, elem, aliases, blocks):
    out = []
    for b in blocks:
        t = fn.blocks[b]["t"]
        if t[0] != "call":
            continue
        c = t[1]
        if c.get("fn") not in ("std::cmp::PartialEq::eq", "std::cmp::PartialEq::ne") or len(c["args"]) != 2:
            continue
        sides = [_is_elem_path(fn, a, elem, aliases) for a in c["args"]]
        if any(sides):
            other = c["args"][1] if sides[0] else c["args"][0]
            out.extend(sorted(classify_path_value(crate, fn, other)))
    return out


def _collection_is_param(fn, op, elem, depth=0, seen=None):
    """does the iterator / slice operand derive from a parameter of fn whose type mentions the element type?"""
    seen = seen or set()
    l = op_local(op)
    if l is None or l in seen or depth > 14:
        return False
    seen.add(l)
    if 1 <= l <= fn.argc and fn.kind in ("fn", "method"):
        return elem in fn.local_ty(l)
    for d in fn.whole_defs(l):
        if d[0] == "call" and d[2]["args"]:
            if classify_is_map_op(d[2]):
                return False
            if _collection_is_param(fn, d[2]["args"][0], elem, depth + 1, seen):
                return True
        elif d[0] == "assign":
            rv = d[3]
            if rv[0] == "use" and _collection_is_param(fn, rv[1], elem, depth + 1, seen):
                return True
            if rv[0] == "ref" and _collection_is_param(fn, ["cp", rv[2]], elem, depth + 1, seen):
                return True
    return False


def classify_is_map_op(c):
    return (c.get("res") or "").startswith("dashmap::")


def all_sites(crate):
    """all selection sites; each site gets an `owner`: the function it is attributed to in violation keys.  A site in a
    private helper that has exactly one calling function is attributed to that caller (transitively), so that extracting a
    stage of a resolver into a helper does not rename the site."""
    out = []
    for f in crate.real_fns():
        out.extend(find_sites(crate, f))
    callers = defaultdict(set)
    for f in crate.real_fns():
        for bb, c in f.calls():
            if c.get("res_local") and c.get("res") in crate.fns and c["res"] != f.root:
                callers[c["res"]].add(f.root)
            for cid, loc in c.get("clos", []):
                g = crate.fns.get(cid)
                if g is not None and g.kind in ("fn", "method") and cid != f.root:
                    callers[cid].add(f.root)

    # a site in a helper that applies a predicate it received as a generic parameter, all of whose call sites lie in ONE
    # calling function, is one stage of that function per call site: the fields / path comparisons of the closure handed
    # in at that call are the stage's own tests (extracting `for … if pred(def) && !seen …` into a helper changes nothing)
    expanded = []
    for s in out:
        h = s.fn
        cs = callers.get(h.root, set()) - {h.root}
        if not (s.filter_param and h.kind in ("fn", "method") and len(cs) == 1):
            expanded.append(s)
            continue
        (gid,) = tuple(cs)
        g_fns = [f for f in crate.real_fns() if f.root == gid]
        calls = [(f, bb, c) for f in g_fns for bb, c in f.calls() if c.get("res") == h.root and c.get("clos")]
        if not calls:
            expanded.append(s)
            continue
        for f, bb, c in calls:
            s2 = SelSite(h, s.kind, s.selector, s.bb, s.span, s.elem)
            s2.fields = set(s.fields)
            s2.path_cmp = list(s.path_cmp)
            s2.to_return, s2.dedup, s2.key_field, s2.from_param = s.to_return, s.dedup, s.key_field, s.from_param
            s2.filter_param = False
            for cid, loc in c["clos"]:
                cf = crate.fns.get(cid)
                if cf is None:
                    continue
                s2.fields |= elem_fields_in(cf, s.elem)
                s2.path_cmp += path_comparisons(crate, cf, s.elem)
                if calls_fn_param(cf):
                    s2.filter_param = True
            s2.via_caller = gid
            expanded.append(s2)
    out = expanded

    def lift(fid, depth=0):
        cs = callers.get(fid, set())
        if len(cs) == 1 and depth < 1:
            (c,) = tuple(cs)
            if c != fid:
                return lift(c, depth + 1)
        return fid
    for s in out:
        # only a helper that is handed the collection lifts its site to the function that fetched the collection
        s.owner = getattr(s, "via_caller", None) or (lift(s.fn.root) if s.from_param else s.fn.root)
        # where the site would have been attributed before its function was split off its single caller
        alts = []
        cur = s.owner
        for _ in range(2):
            cs = callers.get(cur, set()) - {cur}
            if len(cs) != 1:
                break
            (cur,) = tuple(cs)
            alts.append(cur)
        s.owner_alts = alts
    return out
