"""Entry point: python3 -m plsa.check <PROPERTY> [--tier quick|thorough]

Extracts facts from /repo's current working tree (or $PLSA_REPO), evaluates the rules registered for the
property, writes /verif/evidence/<id>.json, prints KNOWN-FINDING / VIOLATION lines, exit 0/1.
Exit 2 = the tree could not be analysed at all (does not build).
"""
import argparse
import importlib
import json
import os
import sys
import time

from . import extract
from .core import load_crates
from .reviewed import norm_key

VERIF = extract.VERIF
KNOWN = os.path.join(VERIF, "known_findings.txt")


class Result:
    def __init__(self, rule, text):
        self.rule = rule
        self.text = text
        self.examined = 0
        self.discharged = 0
        self.violations = []  # (key, message)
        self.reviewed = []  # (key, reason)
        self.samples = []
        self.counts = {}
        self.aliases = {}
        self.floors = {}  # name -> (seen, floor)

    def ok(self, n=1, sample=None):
        self.examined += n
        self.discharged += n
        if sample is not None and len(self.samples) < 6:
            self.samples.append(sample)

    def violate(self, key, msg, n=1, aliases=()):
        """aliases: the keys the same construct would have had before being moved into a helper with a single caller; they
        are consulted only when matching the known-findings file (a relocated known finding is still that finding)"""
        self.examined += n
        self.violations.append((key, msg))
        if aliases:
            self.aliases[key] = list(aliases)

    def review(self, key, reason):
        self.examined += 1
        self.discharged += 1
        self.reviewed.append((key, reason))

    def floor(self, name, seen, floor):
        """fail closed when fewer instances than counted by hand on the pinned tree are found"""
        self.floors[name] = (seen, floor)
        if seen < floor:
            self.violations.append(("floor|%s|%s" % (self.rule, name),
                                    "anchor/floor: %s found %d instance(s), expected at least %d -- the rule lost its "
                                    "anchor and would pass vacuously" % (name, seen, floor)))

    def anchor_missing(self, name, why):
        self.violations.append(("anchor|%s|%s" % (self.rule, name), "anchor missing: %s (%s)" % (name, why)))


class Ctx:
    def __init__(self, crates, tier, repo):
        self.crates = crates
        self.bin = crates.get("bin")
        self.lib = crates.get("lib")
        self.tier = tier
        self.repo = repo
        self._cache = {}

    def memo(self, key, fn):
        if key not in self._cache:
            self._cache[key] = fn()
        return self._cache[key]

    def inl(self, f, depth=2, max_blocks=250, pred=None, tag=None):
        """inlined view of f (local non-recursive callees spliced in): anchor-based rules use it so that extracting a
        helper function out of an anchor does not change what the rule sees"""
        from .core import inline_fn
        return self.memo(("inl", f.id, depth, max_blocks, tag), lambda: inline_fn(f.crate, f, depth=depth, max_blocks=max_blocks, pred=pred))

    def lock_model(self, crate=None):
        from .locks import LockModel
        crate = crate or self.bin
        return self.memo(("lock", crate.label), lambda: LockModel(crate))

    def callgraph(self, crate=None):
        crate = crate or self.bin
        return self.lock_model(crate).cg


def load_known():
    known = {}
    fixed = []
    if os.path.exists(KNOWN):
        for line in open(KNOWN):
            line = line.strip()
            if not line or line.startswith("#"):
                continue
            if line.startswith("known:"):
                rest = line[len("known:"):].strip()
                prop, rest = rest.split(" ", 1)
                prop = prop.split("=", 1)[1]
                assert rest.startswith("key="), "known_findings.txt: malformed line: %s" % line
                rest = rest[4:]
                key, _, desc = rest.partition(" -- ")
                known.setdefault(prop, {})[norm_key(key.strip())] = desc.strip()
            elif line.startswith("fixed:"):
                fixed.append(line)
    return known, fixed


def _caller_aliases(ctx, key):
    """the key with a function id replaced by the root of its only calling function (up to two levels)"""
    crate = ctx.bin
    if crate is None:
        return []
    callers = ctx.memo("callers-by-root", lambda: _callers_by_root(crate))
    out = []
    parts = key.split("|")
    for i, seg in enumerate(parts):
        if seg not in crate.fns and norm_key(seg) not in callers:
            continue
        cur = crate.fns[seg].root if seg in crate.fns else seg
        for _level in range(2):
            cs = callers.get(norm_key(cur), set())
            if len(cs) != 1:
                break
            cur = next(iter(cs))
            out.append(norm_key("|".join(parts[:i] + [cur] + parts[i + 1:])))
    return out


def _callers_by_root(crate):
    m = {}
    for f in crate.real_fns():
        for _bb, c in f.calls():
            if c.get("res_local") and c.get("res") in crate.fns:
                callee = norm_key(crate.fns[c["res"]].root)
                caller = norm_key(f.root)
                if caller != callee:
                    m.setdefault(callee, set()).add(caller)
    return m


PROPERTY_RULES = {
    # property -> (module, [rule function names])
}


def registry():
    from . import rules
    return rules.REGISTRY


def run_property(prop, tier, repo=None, write_evidence=True, quiet=False, ctx=None):
    t0 = time.time()
    repo = repo or extract.repo_root()
    try:
        facts, info = extract.extract(repo)
    except extract.ExtractError as e:
        print("plsa: cannot analyse tree: %s" % e)
        return 2, None
    if ctx is None:
        crates = load_crates(facts)
        ctx = Ctx(crates, tier, repo)
    else:
        crates = ctx.crates
    from . import reviewed as _rv, sigkeys as _sk
    _rv.bind(ctx.bin)
    reg = registry()
    if prop not in reg:
        print("plsa: no rules registered for %s" % prop)
        return 2, None
    spec = reg[prop]
    results = []
    for rule_fn in spec["rules"]:
        # a rule shared by several properties is evaluated once per analysed tree
        r = ctx.memo(("rule", id(rule_fn)), lambda: rule_fn(ctx))
        if isinstance(r, list):
            results.extend(r)
        else:
            results.append(r)
    selftest_failures = []
    if tier == "thorough" and write_evidence:
        from . import thorough
        extra = [thorough.lib_bin_agreement(ctx), thorough.selftests(ctx, prop), thorough.seeded(ctx, prop)]
        if prop == "C11":
            extra.append(thorough.clippy_cross_check(ctx))
        for r in extra:
            selftest_failures += getattr(r, "selftest_failures", [])
        results.extend(extra)
    known, _fixed = load_known()
    kn = known.get(prop, {})
    new_viol = []
    known_hits = []
    primary = {norm_key(k) for r in results for k, _m in r.violations}
    for r in results:
        al = {norm_key(k): [norm_key(a) for a in v] for k, v in getattr(r, "aliases", {}).items()}
        r.violations = [(norm_key(k), m) for k, m in r.violations]
        for key, msg in r.violations:
            if key in kn:
                known_hits.append((key, kn[key] or msg))
                continue
            # relocated known finding: an alias matches a listed key that no construct answers to under its own name any more
            hit = [a for a in al.get(key, []) if a in kn and a not in primary]
            if hit:
                known_hits.append((hit[0], (kn[hit[0]] or msg) + " [now at %s]" % key.split("|")[1].split("::")[-1]))
                continue
            # renamed function: the recorded finding is matched through its committed signature alias, provided the function
            # it names is gone from the tree and no construct answers to the recorded key itself
            e = _sk.alias_match(ctx.bin, key, [k2 for k2 in kn if k2 not in primary], _rv._BOUND["table"])
            if e is not None:
                known_hits.append((e, (kn[e] or msg) + " [function renamed: now %s]" % key.split("|")[1].split("::")[-1]))
                continue
            # the construct was extracted into a helper with a single calling function: the recorded finding is matched under
            # the caller's name (two levels), provided no construct answers to the recorded key itself any more
            moved = [a for a in _caller_aliases(ctx, key) if a in kn and a not in primary]
            if moved:
                known_hits.append((moved[0], (kn[moved[0]] or msg) + " [now in helper %s]" % key.split("|")[1].split("::")[-1]))
            else:
                new_viol.append((r.rule, key, msg))
    wall = round(time.time() - t0, 2)
    # ---- output
    if not quiet:
        for r in results:
            print("[%s] %s: examined=%d discharged=%d reviewed=%d violations=%d %s" % (
                prop, r.rule, r.examined, r.discharged, len(r.reviewed), len(r.violations),
                " ".join("%s=%s" % kv for kv in sorted(r.counts.items()))))
    seen = set()
    for key, desc in known_hits:
        if key in seen:
            continue
        seen.add(key)
        if write_evidence:
            print("KNOWN-FINDING: property=%s %s -- %s" % (prop, key, desc))
    rc = 0
    if new_viol and not write_evidence:
        rc = 1
        if not quiet:
            for a, b, c in new_viol:
                print("  (scratch) violation %s: %s" % (b, c))
    elif new_viol:
        rc = 1
        os.makedirs(os.path.join(VERIF, ".work", "replay"), exist_ok=True)
        rp = os.path.join(VERIF, ".work", "replay", "%s.json" % prop)
        with open(rp, "w") as fh:
            json.dump({"property": prop, "tree_hash": info["tree_hash"], "repo": repo,
                       "violations": [{"rule": a, "key": b, "message": c} for a, b, c in new_viol]}, fh, indent=1)
        for a, b, c in new_viol:
            print("  violation %s: %s" % (b, c))
        print("VIOLATION property=%s replay=%s" % (prop, rp))
    if selftest_failures:
        for m in selftest_failures:
            print("SELFTEST-FAILED property=%s %s" % (prop, m))
        rc = 1
    if write_evidence:
        ev = {
            "property_id": prop,
            "tier": tier,
            "seed": int(os.environ.get("VERIF_SEED", "0") or 0),
            "level": "other",
            "coverage": {
                "explanation": spec["explanation"],
                "obligations": sum(r.examined for r in results),
                "discharged": sum(r.discharged for r in results),
                "evaluations": max(1, sum(r.examined for r in results)),
                "distinct_nontrivial": sum(r.examined for r in results),
                "rule": "one obligation per enumerated rule instance (call site, lock-graph edge, visitor field, selection "
                        "site ...) found in the MIR of /repo's current tree; distinct by violation key",
                "samples": [s for r in results for s in r.samples][:12] or ["(no instance samples)"],
                "checker_cmd": "python3 -m plsa.check %s --tier %s" % (prop, tier),
                "trusted_base": ["rustc nightly MIR construction and callee resolution", "plsa-driver serialisation",
                                 "plsa rule layer", "reviewed tables in plsa/reviewed.py"],
                "rules": [{
                    "rule": r.rule, "text": r.text, "examined": r.examined, "discharged": r.discharged,
                    "reviewed_table_hits": [k for k, _ in r.reviewed], "violations": [k for k, _ in r.violations],
                    "counts": r.counts, "floors": {k: {"seen": v[0], "floor": v[1]} for k, v in r.floors.items()},
                } for r in results],
                "analysed": {
                    "tree_hash": info["tree_hash"], "facts_cached": info["cached"],
                    "crates": {k: {"functions": len(c.real_fns()), "promoted_bodies": len(c.fns) - len(c.real_fns()),
                                   "blocks": sum(len(f.blocks) for f in c.real_fns()),
                                   "call_sites": sum(1 for f in c.real_fns() for _ in f.calls())}
                               for k, c in crates.items()},
                },
                "known_findings_matched": sorted(seen),
                "exhaustive": True,
            },
            "assumptions": spec.get("assumptions", []),
            "wall_s": wall,
            "violations": len(new_viol),
        }
        os.makedirs(os.path.join(VERIF, "evidence"), exist_ok=True)
        with open(os.path.join(VERIF, "evidence", "%s.json" % prop), "w") as fh:
            json.dump(ev, fh, indent=1, sort_keys=True)
    if not quiet:
        print("[%s] tier=%s new_violations=%d known=%d wall=%.1fs tree=%s%s" % (
            prop, tier, len(new_viol), len(seen), wall, info["tree_hash"], " (facts cached)" if info["cached"] else ""))
    return rc, {"new": new_viol, "known": known_hits, "results": results}


def main():
    ap = argparse.ArgumentParser()
    ap.add_argument("property")
    ap.add_argument("--tier", default=os.environ.get("VERIF_TIER") or "quick")
    ap.add_argument("--repo", default=None)
    a = ap.parse_args()
    rc, _ = run_property(a.property, a.tier, a.repo)
    sys.exit(rc)


if __name__ == "__main__":
    main()
