"""Lock facts: lock operations, lock identities, may-held guard sets per program point,
transitive acquisition summaries and the lock-order graph."""
import re
from collections import defaultdict

from .core import (CallGraph, op_local, op_place, place_local, place_projs, proj_fields,
                   resolve_operand, is_spawn)

# method -> (mode, returns_guard)
DASHMAP_OPS = {
    "get": ("S", True), "get_mut": ("X", True), "entry": ("X", True), "iter": ("S", True),
    "iter_mut": ("X", True), "try_get": ("S", True), "try_get_mut": ("X", True), "try_entry": ("X", True),
    "contains_key": ("S", False), "len": ("S", False), "is_empty": ("S", False), "view": ("S", False),
    "insert": ("X", False), "remove": ("X", False), "remove_if": ("X", False), "remove_if_mut": ("X", False),
    "retain": ("X", False), "clear": ("X", False), "alter": ("X", False), "alter_all": ("X", False),
    "shrink_to_fit": ("X", False), "capacity": ("S", False), "clone": ("S", False),
}
DASHMAP_NOT_LOCKING = {"new", "with_capacity", "with_hasher", "with_capacity_and_hasher", "default", "hasher",
                       "with_shard_amount", "with_capacity_and_shard_amount"}
STD_OPS = {
    "std::sync::Mutex::<T>::lock": ("X", True), "std::sync::Mutex::<T>::try_lock": ("X", True),
    "std::sync::RwLock::<T>::read": ("S", True), "std::sync::RwLock::<T>::write": ("X", True),
    "std::sync::RwLock::<T>::try_read": ("S", True), "std::sync::RwLock::<T>::try_write": ("X", True),
}
TOKIO_OPS = {
    "tokio::sync::RwLock::<T>::read": ("S", True), "tokio::sync::RwLock::<T>::write": ("X", True),
    "tokio::sync::Mutex::<T>::lock": ("X", True), "tokio::sync::RwLock::<T>::try_read": ("S", True),
    "tokio::sync::RwLock::<T>::try_write": ("X", True), "tokio::sync::Mutex::<T>::try_lock": ("X", True),
    "tokio::sync::RwLock::<T>::blocking_read": ("S", True), "tokio::sync::RwLock::<T>::blocking_write": ("X", True),
    "tokio::sync::Mutex::<T>::blocking_lock": ("X", True),
}

GUARD_ADTS = {
    "dashmap::Entry", "dashmap::OccupiedEntry", "dashmap::VacantEntry", "dashmap::mapref::entry::Entry",
    "dashmap::mapref::entry::OccupiedEntry", "dashmap::mapref::entry::VacantEntry",
    "dashmap::iter::Iter", "dashmap::iter::IterMut", "dashmap::mapref::multiple::RefMulti",
    "dashmap::mapref::multiple::RefMutMulti", "dashmap::mapref::one::Ref", "dashmap::mapref::one::RefMut",
    "dashmap::mapref::one::MappedRef", "dashmap::mapref::one::MappedRefMut",
    "std::sync::MutexGuard", "std::sync::RwLockReadGuard", "std::sync::RwLockWriteGuard",
    "tokio::sync::MutexGuard", "tokio::sync::RwLockReadGuard", "tokio::sync::RwLockWriteGuard",
    "tokio::sync::OwnedMutexGuard", "tokio::sync::OwnedRwLockReadGuard", "tokio::sync::OwnedRwLockWriteGuard",
    "tokio::sync::RwLockMappedWriteGuard", "tokio::sync::MappedMutexGuard",
}


def lock_kind(lock_id):
    return lock_id.split("|")[0]


class LockOp:
    __slots__ = ("fn", "bb", "call", "family", "method", "mode", "guard", "ident", "exp")

    def __init__(self, fn, bb, call, family, method, mode, guard, ident):
        self.fn = fn
        self.bb = bb
        self.call = call
        self.family = family
        self.method = method
        self.mode = mode
        self.guard = guard
        self.ident = ident
        self.exp = call["span"][4]


def classify_call(c):
    """(family, method, mode, guard) or None; raises KeyError-like tuple ('unknown', method) for an
    unclassified DashMap method"""
    res = c.get("res") or ""
    m = re.match(r"^dashmap::DashMap::<K, V(?:, S)?>::(\w+)$", res)
    if m:
        meth = m.group(1)
        if meth in DASHMAP_NOT_LOCKING:
            return None
        if meth in DASHMAP_OPS:
            mode, g = DASHMAP_OPS[meth]
            return ("dashmap", meth, mode, g)
        return ("dashmap", meth, "?", False)
    if res in STD_OPS:
        mode, g = STD_OPS[res]
        return ("std", res.rsplit("::", 1)[1], mode, g)
    if res in TOKIO_OPS:
        mode, g = TOKIO_OPS[res]
        return ("tokio", res.rsplit("::", 1)[1], mode, g)
    return None


def owns_guard(fn, l):
    ld = fn.locals[l]
    ty = ld["ty"]
    if ty.startswith("&") or ty.startswith("*"):
        return False
    return any(a in GUARD_ADTS for a in ld.get("adts", []))


def refs_guard(fn, l):
    ld = fn.locals[l]
    return any(a in GUARD_ADTS for a in ld.get("adts", []))


class LockModel:
    def __init__(self, crate):
        self.crate = crate
        self.cg = CallGraph(crate)
        self.ops = []  # LockOp
        self.unresolved = []  # (fn id, span, reason)
        self.unclassified = []
        self.op_at = {}  # (fn id, bb) -> LockOp
        self._find_ops()
        self.held = {}  # fn id -> {bb: frozenset((lock, mode))} state *before* the terminator
        self.yield_held = []  # (fn id, bb, set)
        for f in crate.real_fns():
            self._dataflow(f)
        self._summaries()
        self._edges()

    # ------------------------------------------------------------------ lock ops & identities
    def identity(self, fn, op):
        paths = resolve_operand(self.crate, fn, op)
        ids = set()
        why = []
        for p in paths:
            fs = [(o, n) for (o, n) in p.fields
                  if not o.startswith(("std::", "core::", "alloc::", "tuple", "closure:", "?", "tokio::", "dashmap::"))]
            if fs:
                o, n = fs[-1]
                ids.add("%s.%s" % (o, n))
            else:
                why.append(repr(p))
        return ids, why

    def _find_ops(self):
        skip = getattr(self.crate, "lock_param_helpers", set())
        for f in self.crate.real_fns():
            if f.id in skip:
                continue  # handed its lock as a parameter; its operations are accounted for in every caller (inlined there)
            for bb, c in f.calls():
                k = classify_call(c)
                if k is None:
                    continue
                family, meth, mode, guard = k
                if mode == "?":
                    self.unclassified.append((f.id, self.crate.span_str(c["span"]), c.get("res")))
                    mode = "X"
                ids, why = self.identity(f, c["args"][0]) if c["args"] else (set(), ["no receiver"])
                if len(ids) != 1 or why:
                    self.unresolved.append((f.id, self.crate.span_str(c["span"]), c.get("res"), sorted(ids), why))
                    ident = "%s|?%s" % (family, "+".join(sorted(ids)) or "unknown")
                else:
                    ident = "%s|%s" % (family, next(iter(ids)))
                op = LockOp(f, bb, c, family, meth, mode, guard, ident)
                self.ops.append(op)
                self.op_at[(f.id, bb)] = op

    # ------------------------------------------------------------------ held-guard dataflow
    def _dataflow(self, f):
        nb = len(f.blocks)
        # quick exit: no guard-typed local and no lock op
        if not any(refs_guard(f, l) for l in range(len(f.locals))) and not any((f.id, bb) in self.op_at for bb in range(nb)):
            self.held[f.id] = {}
            return
        # tokio: the future returned by read()/write()/lock() carries the pending identity
        IN = [None] * nb
        IN[0] = ({}, {})
        work = [0]
        inq = {0}
        before_term = {}

        def merge(a, b):
            if a is None:
                return ({k: set(v) for k, v in b[0].items()}, {k: set(v) for k, v in b[1].items()}), True
            ch = False
            for i in (0, 1):
                for k, v in b[i].items():
                    cur = a[i].get(k)
                    if cur is None:
                        a[i][k] = set(v)
                        ch = True
                    elif not v <= cur:
                        cur |= v
                        ch = True
            return a, ch

        def ids_of_operand(st, op):
            l = op_local(op)
            if l is None:
                return set(), None
            s = set()
            s |= st[0].get(l, set())
            s |= st[1].get(l, set())
            return s, l

        while work:
            bb = work.pop()
            inq.discard(bb)
            st = IN[bb]
            owned = {k: set(v) for k, v in st[0].items()}
            borrowed = {k: set(v) for k, v in st[1].items()}
            cur = (owned, borrowed)
            blk = f.blocks[bb]
            for s in blk["s"]:
                if s[0] == "dead":
                    owned.pop(s[1], None)
                    borrowed.pop(s[1], None)
                elif s[0] == "=":
                    dst, rv = s[1], s[2]
                    dl = place_local(dst)
                    whole = isinstance(dst, int)
                    k = rv[0]
                    ids = set()
                    is_borrow = False
                    if k == "use":
                        ids, sl = ids_of_operand(cur, rv[1])
                        if sl is not None:
                            is_borrow = sl not in owned
                            if rv[1][0] == "mv" and sl in owned and "*" not in place_projs(rv[1][1]):
                                if owns_guard(f, dl) or not whole:
                                    owned.pop(sl, None)
                    elif k == "ref":
                        sl = place_local(rv[2])
                        ids = set(owned.get(sl, set())) | set(borrowed.get(sl, set()))
                        is_borrow = True
                    elif k == "agg":
                        for o in rv[2]:
                            i2, sl = ids_of_operand(cur, o)
                            ids |= i2
                            if o[0] == "mv" and sl in owned:
                                owned.pop(sl, None)
                    elif k == "cast":
                        ids, sl = ids_of_operand(cur, rv[2])
                        if sl in owned and rv[2][0] == "mv":
                            owned.pop(sl, None)
                    if whole:
                        owned.pop(dl, None)
                        borrowed.pop(dl, None)
                        if ids:
                            if is_borrow or not owns_guard(f, dl):
                                if refs_guard(f, dl) or is_borrow:
                                    borrowed[dl] = set(ids)
                            else:
                                owned[dl] = set(ids)
                    else:
                        if ids and not is_borrow:
                            owned.setdefault(dl, set()).update(ids)
            t = blk["t"]
            before_term[bb] = frozenset(x for v in owned.values() for x in v)
            edge_kill = {}
            if t[0] == "drop":
                dl = place_local(t[1])
                owned.pop(dl, None)
                borrowed.pop(dl, None)
            elif t[0] == "yield":
                held = frozenset(x for v in owned.values() for x in v)
                self.yield_held.append((f.id, bb, held))
            elif t[0] == "switch":
                # refinement: Option<Guard>::None edge holds nothing
                dl = op_local(t[1])
                if dl is not None:
                    src = None
                    for s in reversed(blk["s"]):
                        if s[0] == "=" and place_local(s[1]) == dl and s[2][0] == "discr":
                            src = s[2][1]
                            break
                    if src is not None and isinstance(src, int) and f.locals[src]["ty"].startswith("std::option::Option<"):
                        for val, tgt in t[2]:
                            if val == 0:
                                edge_kill[tgt] = src
            elif t[0] == "call":
                c = t[1]
                op = self.op_at.get((f.id, bb))
                dest = c["dest"]
                dl = place_local(dest)
                ids = set()
                arg_ids = set()
                for a in c["args"]:
                    i2, sl = ids_of_operand(cur, a)
                    arg_ids |= i2
                    if a[0] == "mv" and sl is not None and sl in owned and "*" not in place_projs(a[1]):
                        owned.pop(sl, None)
                if op is not None and op.guard:
                    ids = {(op.ident, op.mode)}
                elif arg_ids:
                    ids = arg_ids
                owned.pop(dl, None)
                borrowed.pop(dl, None)
                if ids:
                    if op is not None and op.family == "tokio" and not owns_guard(f, dl):
                        # pending acquisition carried by the future: tracked as borrowed (not held)
                        borrowed[dl] = ids
                    elif owns_guard(f, dl):
                        owned[dl] = ids
                    elif refs_guard(f, dl) or (dl in borrowed) or self._is_carrier_ty(f, dl):
                        borrowed[dl] = ids
            for s in f.succs(bb):
                o2, b2 = owned, borrowed
                if s in edge_kill:
                    o2 = dict(owned)
                    o2.pop(edge_kill[s], None)
                new, ch = merge(IN[s], (o2, b2))
                IN[s] = new
                if ch and s not in inq:
                    inq.add(s)
                    work.append(s)
        self.held[f.id] = before_term

    @staticmethod
    def _is_carrier_ty(f, l):
        ty = f.locals[l]["ty"]
        # futures of tokio lock acquisitions and pins/refs to them
        return ("tokio::sync::RwLock" in ty or "tokio::sync::Mutex" in ty or "tokio::sync::rwlock" in ty
                or "tokio::sync::mutex" in ty)

    # ------------------------------------------------------------------ summaries
    def _summaries(self):
        """Acq(f): set of (lock, mode) acquired by f or anything it calls (spawned tasks excluded)."""
        direct = defaultdict(set)
        for op in self.ops:
            direct[op.fn.id].add((op.ident, op.mode))
        acq = {fid: set(direct.get(fid, ())) for fid in self.crate.fns}
        changed = True
        while changed:
            changed = False
            for fid in self.crate.fns:
                cur = acq[fid]
                n0 = len(cur)
                for _bb, t, via in self.cg.callees(fid):
                    cur |= acq.get(t, set())
                if len(cur) != n0:
                    changed = True
        self.acq = acq

    def acq_at_call(self, f, bb):
        """locks that may be acquired while this call executes, with witness callee"""
        res = []
        op = self.op_at.get((f.id, bb))
        if op is not None:
            res.append(((op.ident, op.mode), "%s()" % op.method))
        for b2, t, via in self.cg.callees(f.id):
            if b2 == bb:
                for x in self.acq.get(t, ()):
                    res.append((x, t))
        return res

    # ------------------------------------------------------------------ lock-order graph
    def _edges(self):
        edges = defaultdict(list)  # ((held, hm), (want, wm)) -> [witness]
        n_sites = 0
        for f in self.crate.real_fns():
            h = self.held.get(f.id) or {}
            for bb, c in f.calls():
                held = h.get(bb, frozenset())
                op = self.op_at.get((f.id, bb))
                # closures executed by a DashMap method run under that method's shard lock
                extra = set()
                if op is not None and not op.guard and op.family == "dashmap":
                    for b2, t, via in self.cg.callees(f.id):
                        if b2 == bb:
                            for x in self.acq.get(t, ()):
                                edges[((op.ident, op.mode), x)].append(
                                    (f.id, self.crate.span_str(c["span"]), "closure of %s: %s" % (op.method, t)))
                if not held:
                    continue
                n_sites += 1
                for (want, via) in self.acq_at_call(f, bb):
                    for hm in held:
                        edges[(hm, want)].append((f.id, self.crate.span_str(c["span"]), via))
        self.edges = edges
        self.sites_with_held = n_sites

    def lock_ids(self):
        return sorted({op.ident for op in self.ops})
