"""Reviewed tables: instances confirmed safe by reading, one named site per entry (no line numbers).
An entry suppresses exactly that key; if the construct changes, the key changes and the entry no longer matches."""

import re as _re


def norm_key(k):
    """violation keys are compared modulo closure numbering (`::{closure#N}` segments): moving a site into or out of a
    closure, or adding a closure before it, does not make it a different site"""
    return _re.sub(r"::\{closure#\d+\}", "", k)


_BOUND = {"crate": None, "table": None}


def bind(crate):
    """the tree being analysed: lets a reviewed entry follow its function through a rename (plsa/sigkeys.py)"""
    from . import sigkeys
    _BOUND["crate"] = crate
    if _BOUND["table"] is None:
        _BOUND["table"] = sigkeys.load()


class _Reviewed(dict):
    def __init__(self, d):
        super().__init__({norm_key(k): v for k, v in d.items()})

    def _resolve(self, k):
        nk = norm_key(k)
        if dict.__contains__(self, nk):
            return nk
        if _BOUND["crate"] is not None:
            from . import sigkeys
            return sigkeys.alias_match(_BOUND["crate"], nk, dict.keys(self), _BOUND["table"])
        return None

    def moved(self, k, present):
        """a reviewed entry of the same rule with the same site description (everything after the function segment) whose own
        key no pending site answers to any more: the construct was moved into another function (extract / inline)"""
        nk = norm_key(k)
        parts = nk.split("|")
        if len(parts) < 3:
            return None
        for e in dict.keys(self):
            ep = e.split("|")
            if len(ep) == len(parts) and ep[0] == parts[0] and ep[2:] == parts[2:] and ep[1] != parts[1] and e not in present:
                return e
        return None

    def __contains__(self, k):
        return self._resolve(k) is not None

    def __getitem__(self, k):
        e = self._resolve(k)
        if e is None:
            raise KeyError(k)
        v = dict.__getitem__(self, e)
        return v if e == norm_key(k) else v + " [the function was renamed; matched by signature]"


_RAW = {
    "R7e|fixtures::analyzer::<impl fixtures::FixtureDatabase>::get_line_from_offset|its result - 1":
        "contract of the offset-to-line converter: it returns binary_search's Ok(i) + 1 or Err(i) over the line index, whose first "
        "entry is offset 0, so Err(0) would need an offset below 0: the result is a 1-based line >= 1 wherever it is used "
        "(same argument as the entry for get_char_position_from_offset, which receives such a line as a parameter)",
    "R4h|fixtures::FixtureDatabase::evict_cache_if_needed|pick in hash order":
        "`file_cache.iter().take(n)` picks the n entries to evict when the text cache is over its capacity: any n entries do; "
        "an evicted text is re-read from disk on demand, no answer depends on which ones went",
    "R1d|fixtures::cli::<impl fixtures::FixtureDatabase>::has_visible_fixtures+fixtures::cli::<impl fixtures::FixtureDatabase>::has_visible_fixtures::{closure#1}":
        "walk over the parent->children map built in print_fixtures_tree from Path::parent(): a child path is strictly "
        "longer than its key, so the map is acyclic; a map lookup is deliberately not accepted as destructuring",
    "R1d|fixtures::cli::<impl fixtures::FixtureDatabase>::print_tree_node":
        "same parent->children map as has_visible_fixtures (built from Path::parent(), acyclic by path length)",
    "R3d-ii|transparent|canonical_path_cache":
        "memo of Path::canonicalize keyed by the path itself: its value is a function of the key and the file system, never of "
        "index state, so cached computations that read it cannot go stale through it",
    "R3a-cond|definitions":
        "definitions are deliberately not cleaned on the initial-scan path (performance); the consequence when a document is "
        "opened before the scan reaches it is the recorded C10 known finding (R3e2), not a second finding here",
    "R3a-cond|file_definitions":
        "reverse index of `definitions`, cleared by the same conditional call (see R3a-cond|definitions)",
    "R4b|fixtures::resolver::<impl fixtures::FixtureDatabase>::get_fixture_definition_at_line|loop:early-exit|fields=file_path,line":
        "match key (file, line): one `def` statement per line, so at most one definition matches (the only exception, an "
        "assignment-style fixture with several targets on one line, yields same-line definitions that differ in name only)",
    "R4b|fixtures::resolver::<impl fixtures::FixtureDatabase>::find_fixture_at_position|loop:early-exit|fields=file_path,line,name":
        "match key (file, line, name == word under the cursor): unique per file",
    "R7a|fixtures::scanner::<impl fixtures::FixtureDatabase>::extract_package_name_from_dist_info::{closure#1}|RangeFrom|`_`[start=sum `_` + constant 1 without a starts_with guard]":
        "`name_version[i + 1..]` inside the char_indices() predicate: `i` is the byte offset of the current char and the slice is "
        "evaluated only after `c == '-'` (short-circuit &&), a one-byte char, so i + 1 is the next boundary",
    "R7a|fixtures::resolver::<impl fixtures::FixtureDatabase>::get_completion_context_from_text|RangeFrom|`def_line`[start=len() of another string (`_`)]":
        "`def_line[name_start..]`: name_start is \"async def \".len() or \"def \".len(); def_line is the trimmed line selected by the "
        "backward scan whose condition is starts_with(\"def \") || starts_with(\"async def \"), and the async prefix is tested first",
    "R7d|providers::code_action::<impl providers::Backend>::handle_code_action::{closure#0}|`func_line_content`":
        "`func_line_content[param_start..paren_pos]`: evaluated only when `func_line_content[..paren_pos].contains('(')`; param_start "
        "is find('(') + 1 on the whole line, i.e. the FIRST '(' which is at or before the one inside [..paren_pos], so find('(') < "
        "paren_pos and param_start <= paren_pos",
    "R7d|fixtures::string_utils::extract_word_at_position|`line`":
        "`line[start_byte..end_byte]`: start_idx only decreases from `character`, end_idx only increases from `character + 1`, both "
        "index the char_indices() vector whose byte offsets increase strictly; end_byte is the offset at end_idx > start_idx or line.len()",
    "R7e|providers::references::<impl providers::Backend>::handle_references::{closure#0}|len() - `skipped_count`":
        "`references.len() - skipped_count`: skipped_count is incremented at most once per element of the loop over `references`",
    "R7e|fixtures::analyzer::<impl fixtures::FixtureDatabase>::get_char_position_from_offset|`line` - 1":
        "`line_index[line - 1]`: get_line_from_offset returns binary_search's Ok(i) + 1 or Err(i); the line index always starts with "
        "offset 0, so Err(0) would need offset < 0: line >= 1",
    "R7e|fixtures::analyzer::<impl fixtures::FixtureDatabase>::visit_stmt|`end_char` - 1":
        "`end_char - 1` (three sites, same shape): end_char is the column just after the closing quote of a string literal "
        "(range.end() of an Expr::Constant(Str)), which is at least 1 on whatever line the literal ends",
    "R7f|fixtures::resolver::<impl fixtures::FixtureDatabase>::compute_fixture_cycles|`path`[`cycle_start_idx`..]":
        "`path[cycle_start_idx..]` (two sites, same shape): cycle_start_idx is `path.iter().position(..)` (< path.len()) or 0; a "
        "RangeFrom needs start <= len",
    "R7f|fixtures::resolver::<impl fixtures::FixtureDatabase>::compute_fixture_cycles|`cycle_path`[..(len() - 1)]":
        "`cycle_path[..cycle_path.len() - 1]` (two sites): a RangeTo with end <= len; len() >= 1 after the push (R7e proves the subtraction)",
    "R7f|fixtures::resolver::<impl fixtures::FixtureDatabase>::get_completion_context_from_text|`lines`[`i`]":
        "`lines[i]` in the backward scan: i starts at cursor_idx = target_line - 1 and the function returned None when target_line == 0 "
        "or target_line > lines.len(); i only decreases",
    "R7f|fixtures::resolver::<impl fixtures::FixtureDatabase>::get_completion_context_from_text|`lines`[`def_line_idx`]":
        "def_line_idx is a value `i` of the backward scan (see `lines`[`i`])",
    "R7f|fixtures::resolver::<impl fixtures::FixtureDatabase>::get_completion_context_from_text|`lines`[`def_line_idx`..=`cursor_idx`]":
        "`lines[def_line_idx..=cursor_idx]` (two sites): def_line_idx <= cursor_idx because the scan only decrements from cursor_idx, "
        "and cursor_idx < lines.len() by the early return on target_line",
    "R7f|fixtures::string_utils::extract_word_at_position|`char_indices`[(`start_idx` - 1)]":
        "inside `while start_idx > 0`; start_idx <= character < char_indices.len() (early return otherwise)",
    "R7f|fixtures::string_utils::extract_word_at_position|`char_indices`[`start_idx`]":
        "start_idx only decreases from `character`, which is < char_indices.len() by the early return",
    "R7f|fixtures::string_utils::format_docstring|`lines`[(`end` - 1)]":
        "`end` starts at lines.len() and only decreases; the loop condition `end > start` is evaluated first (short-circuit &&)",
    "R7f|fixtures::string_utils::format_docstring|`lines`[`start`..`end`]":
        "reached only when `start < end` (early return on start >= end); end <= lines.len()",
    "R7c|fixtures::scanner::<impl fixtures::FixtureDatabase>::load_plugin_from_entry_point|expect on parent":
        "path.parent() of a path whose file_name() was just matched against Some(\"__init__.py\"): a path with a file name has a parent",
    "R7c|main|expect on build":
        "tokio runtime construction at process start-up, before any request is served (not reachable from document content or requests)",
}

REVIEWED = _Reviewed(_RAW)


# ---- reviewed arguments that rest on a guard -------------------------------------------------------------------------------
# The key of a reviewed site names the function and the expression, not the test the argument starts from ("reached only when
# ...", "returned early otherwise").  Removing that test leaves the key unchanged (seeded change C11-q did exactly that), so an
# entry whose argument starts from a dominating test names it here, and `settle` accepts the entry only while a test of that
# kind still dominates the site:  ("call", regex) = the true edge of a call whose callee matches;  ("len-cmp",) = an edge of an
# integer comparison one operand of which comes from a `len()`;  ("char-eq",) = the true edge of a comparison with a char literal.
RESTS_ON = {
    "R7d|providers::code_action::<impl providers::Backend>::handle_code_action|`func_line_content`":
        ("a dominating `contains(..)` test", ("call", r"str>?::contains$")),
    "R7a|fixtures::scanner::<impl fixtures::FixtureDatabase>::extract_package_name_from_dist_info|RangeFrom|`_`[start=sum `_` + constant 1 without a starts_with guard]":
        ("the `c == '-'` test before the slice", ("char-eq",)),
    "R7f|fixtures::resolver::<impl fixtures::FixtureDatabase>::get_completion_context_from_text|`lines`[`i`]":
        ("the early return on `target_line > lines.len()`", ("len-cmp",)),
    "R7f|fixtures::resolver::<impl fixtures::FixtureDatabase>::get_completion_context_from_text|`lines`[`def_line_idx`]":
        ("the early return on `target_line > lines.len()`", ("len-cmp",)),
    "R7f|fixtures::resolver::<impl fixtures::FixtureDatabase>::get_completion_context_from_text|`lines`[`def_line_idx`..=`cursor_idx`]":
        ("the early return on `target_line > lines.len()`", ("len-cmp",)),
    "R7f|fixtures::string_utils::extract_word_at_position|`char_indices`[(`start_idx` - 1)]":
        ("the early return on `character >= char_indices.len()`", ("len-cmp",)),
    "R7f|fixtures::string_utils::extract_word_at_position|`char_indices`[`start_idx`]":
        ("the early return on `character >= char_indices.len()`", ("len-cmp",)),
    "R7f|fixtures::string_utils::format_docstring|`lines`[(`end` - 1)]":
        ("the `end > start` loop condition", ("len-cmp",)),
    "R7f|fixtures::string_utils::format_docstring|`lines`[`start`..`end`]":
        ("the early return on `start >= end`", ("len-cmp",)),
}
RESTS_ON = {norm_key(k): v for k, v in RESTS_ON.items()}


def _guard_dominates(f, bb, spec):
    from .core import op_local, place_local
    import re
    dom = f.dominators().get(bb, set())

    def edges_of(sw_bb):
        t = f.blocks[sw_bb]["t"]
        return [x for _v, x in t[2]] + ([t[3]] if len(t) > 3 and t[3] is not None else [])

    def tested_locals(sw_bb):
        """locals the switch operand is computed from (through copies / Not)"""
        out, st = set(), [op_local(f.blocks[sw_bb]["t"][1])]
        while st and len(out) < 12:
            x = st.pop()
            if x is None or x in out:
                continue
            out.add(x)
            for d in f.whole_defs(x):
                if d[0] == "assign" and d[3][0] in ("use", "un"):
                    st.append(op_local(d[3][1] if d[3][0] == "use" else d[3][2]))
        return out

    def from_len(l, depth=0, seen=None):
        seen = seen if seen is not None else set()
        if l is None or l in seen or depth > 8:
            return False
        seen.add(l)
        for d in f.defs().get(l, []):
            if d[0] == "call":
                if re.search(r"::len$", d[2].get("res") or d[2].get("fn") or ""):
                    return True
                if not d[2].get("res_local") and any(from_len(op_local(a), depth + 1, seen) for a in d[2]["args"]):
                    return True
            elif d[0] == "assign":
                rv = d[3]
                if rv[0] == "len" or (rv[0] == "un" and str(rv[1]) == "PtrMetadata"):
                    return True
                ops = [rv[1]] if rv[0] == "use" else [rv[2], rv[3]] if rv[0] == "bin" else [rv[-1]] if rv[0] in ("cast", "un") else []
                if any(from_len(op_local(o), depth + 1, seen) for o in ops if isinstance(o, list)):
                    return True
        return False

    for sw_bb, blk in enumerate(f.blocks):
        t = blk["t"]
        if t[0] != "switch" or sw_bb not in dom:
            continue
        # one of its edges dominates the site (the site lies on one side of the test)
        sides = [e for e in edges_of(sw_bb) if e in dom]
        if not sides:
            continue
        for l in tested_locals(sw_bb):
            for d in f.whole_defs(l):
                if spec[0] == "call" and d[0] == "call" and re.search(spec[1], d[2].get("res") or d[2].get("fn") or ""):
                    return True
                if d[0] != "assign" or d[3][0] != "bin":
                    continue
                rv = d[3]
                if spec[0] == "len-cmp" and rv[1] in ("Lt", "Le", "Gt", "Ge") and \
                        (from_len(op_local(rv[2])) or from_len(op_local(rv[3]))):
                    return True
                if spec[0] == "char-eq" and rv[1] in ("Eq", "Ne"):
                    for o in (rv[2], rv[3]):
                        if isinstance(o, list) and o[0] == "c" and isinstance(o[1], dict) and o[1].get("t") == "char":
                            return True
    return False


def settle(r, pending):
    """decide the unproven sites of a prover-style rule: exact / renamed reviewed entry, else an entry whose site moved here
    (its own key is vacated), else a violation.  pending: [(key, message)] or [(key, message, (fn, block))]"""
    present = {norm_key(p[0]) for p in pending}
    used = set()
    for item in pending:
        key, msg = item[0], item[1]
        site = item[2] if len(item) > 2 else None
        need = RESTS_ON.get(REVIEWED._resolve(key) or norm_key(key)) if key in REVIEWED else None
        if need and site is not None and not _guard_dominates(site[0], site[1], need[1]):
            r.violate(key + "|without " + need[0], msg + " -- the reviewed argument for this site starts from %s, which no longer "
                                                         "dominates it" % need[0])
            continue
        if key in REVIEWED:
            r.review(key, REVIEWED[key])
            continue
        e = REVIEWED.moved(key, present | used)
        if e is not None and e in RESTS_ON and site is not None and not _guard_dominates(site[0], site[1], RESTS_ON[e][1]):
            e = None
        if e is not None:
            used.add(e)
            r.review(key, dict.__getitem__(REVIEWED, e) + " [site moved here from %s]" % e.split("|")[1].split("::")[-1])
        else:
            r.violate(key, msg)
