"""Reviewed tables: instances confirmed safe by reading, one named site per entry (no line numbers).
An entry suppresses exactly that key; if the construct changes, the key changes and the entry no longer matches."""

REVIEWED = {
    "R1d|fixtures::cli::<impl fixtures::FixtureDatabase>::has_visible_fixtures+fixtures::cli::<impl fixtures::FixtureDatabase>::has_visible_fixtures::{closure#1}":
        "walk over the parent->children map built in print_fixtures_tree from Path::parent(): a child path is strictly "
        "longer than its key, so the map is acyclic; a map lookup is deliberately not accepted as destructuring",
    "R1d|fixtures::cli::<impl fixtures::FixtureDatabase>::print_tree_node":
        "same parent->children map as has_visible_fixtures (built from Path::parent(), acyclic by path length)",
    "R3d-ii|transparent|canonical_path_cache":
        "memo of Path::canonicalize keyed by the path itself: its value is a function of the key and the file system, never of "
        "index state, so cached computations that read it cannot go stale through it",
    "R3a-cond|definitions":
        "definitions are deliberately not cleaned on the initial-scan path (performance); the consequence when a document is "
        "opened before the scan reaches it is the recorded C10 known finding (R3e2), not a second finding here",
    "R3a-cond|file_definitions":
        "reverse index of `definitions`, cleared by the same conditional call (see R3a-cond|definitions)",
    "R4b|fixtures::resolver::<impl fixtures::FixtureDatabase>::get_fixture_definition_at_line|loop:early-exit|fields=file_path,line":
        "match key (file, line): one `def` statement per line, so at most one definition matches (the only exception, an "
        "assignment-style fixture with several targets on one line, yields same-line definitions that differ in name only)",
    "R4b|fixtures::resolver::<impl fixtures::FixtureDatabase>::find_fixture_at_position|loop:early-exit|fields=file_path,line,name":
        "match key (file, line, name == word under the cursor): unique per file",
}
