"""Thorough tier extras: measured on every run, they test the checker as well as the tree.

 (i)   lib-vs-bin agreement: every function compiled into both crates has identical MIR (shared modules are one program)
 (ii)  self-test variants (selftest/spec.py): the property's rules must report the expected key on each edited scratch copy
 (iii) kept seeded changes (seeded/<id>/patch.diff with expectations in seeded/expectations.json)
 (iv)  for C11: clippy::string_slice cross-enumeration of the slicing sites
"""
import importlib.util
import json
import os
import re
import shutil
import subprocess
import tempfile

from . import extract
from .check import Result

VERIF = extract.VERIF


def _norm(crate, x):
    """blocks with spans rewritten to file names (file indices differ between the two crates)"""
    def walk(v):
        if isinstance(v, list):
            if len(v) == 5 and isinstance(v[0], int) and isinstance(v[4], str) and all(isinstance(t, int) for t in v[:4]) and v[0] < len(crate.files):
                return [crate.files[v[0]]] + v[1:]
            return [walk(t) for t in v]
        if isinstance(v, dict):
            return {k: walk(t) for k, t in v.items()}
        return v
    return json.dumps(walk(x), sort_keys=True)


def lib_bin_agreement(ctx):
    r = Result("T-libbin", "every function compiled into both the library and the binary crate (shared `config` / `fixtures` modules) "
                           "has identical MIR in both, so facts about the binary crate hold for the library")
    lib, bin_ = ctx.lib, ctx.bin
    if lib is None or bin_ is None:
        r.anchor_missing("crates", "lib or bin facts missing")
        return r
    n = 0
    for fid, f in lib.fns.items():
        g = bin_.fns.get(fid)
        if g is None:
            if f.phase != "promoted":
                r.violate("T-libbin|only-in-lib|%s" % fid, "%s exists in the library crate only" % fid)
            continue
        n += 1
        if _norm(lib, f.blocks) == _norm(bin_, g.blocks):
            r.ok()
        else:
            r.violate("T-libbin|differs|%s" % fid, "MIR of %s differs between the library and the binary crate" % fid)
    r.counts["shared_functions"] = n
    r.floor("functions shared by lib and bin", n, 300)
    return r


def load_spec():
    p = os.path.join(VERIF, "selftest", "spec.py")
    spec = importlib.util.spec_from_file_location("selftest_spec", p)
    m = importlib.util.module_from_spec(spec)
    spec.loader.exec_module(m)
    return m.V


def make_variant(repo, edits):
    """scratch copy with edits applied, or None when an `old` text does not occur exactly once"""
    d = tempfile.mkdtemp(prefix="plsa-variant-")
    for name in ("src", "Cargo.toml", "Cargo.lock", "build.rs"):
        p = os.path.join(repo, name)
        if os.path.isdir(p):
            shutil.copytree(p, os.path.join(d, name))
        elif os.path.exists(p):
            shutil.copy(p, os.path.join(d, name))
    for rel, old, new in edits:
        fp = os.path.join(d, rel)
        if not os.path.exists(fp):
            shutil.rmtree(d, ignore_errors=True)
            return None
        s = open(fp).read()
        if s.count(old) != 1:
            shutil.rmtree(d, ignore_errors=True)
            return None
        open(fp, "w").write(s.replace(old, new))
    return d


def run_checks_on(dirpath, prop):
    from .check import run_property
    rc, info = run_property(prop, "quick", repo=dirpath, write_evidence=False, quiet=True)
    if info is None:
        return rc, [], []
    return rc, [k for _r, k, _m in info["new"]], [k for k, _ in info["known"]]


def selftests(ctx, prop):
    r = Result("T-selftest", "each self-test variant (one rule instance broken by a small edit that still compiles) must make this "
                             "property's check report the expected violation key; a variant that is not detected means the "
                             "checker is broken (exit 1 without a VIOLATION line about the tree)")
    variants = [v for v in load_spec() if v["prop"] == prop]
    r.counts["variants"] = len(variants)
    for v in variants:
        d = make_variant(ctx.repo, v["edits"])
        name = "%s/%s" % (prop, v["name"])
        if d is None:
            r.counts.setdefault("not_applicable", 0)
            r.counts["not_applicable"] += 1
            r.samples.append({"variant": name, "status": "not applicable to this tree (anchor text changed)"})
            continue
        try:
            rc, new, known = run_checks_on(d, prop)
        finally:
            shutil.rmtree(d, ignore_errors=True)
        if rc == 2:
            r.selftest_failures = getattr(r, "selftest_failures", []) + ["%s: variant does not build" % name]
            r.samples.append({"variant": name, "status": "does not build"})
            continue
        hit = [k for k in new if re.search(v["expect"], k)]
        if hit:
            r.ok(sample={"variant": name, "detected_as": hit[0]})
        else:
            r.selftest_failures = getattr(r, "selftest_failures", []) + ["%s: expected /%s/, got %s" % (name, v["expect"], new[:3])]
            r.examined += 1
            r.samples.append({"variant": name, "status": "NOT DETECTED", "new_keys": new[:3]})
    return r


def seeded(ctx, prop):
    r = Result("T-seeded", "kept seeded changes (written by independent sub-agents from the property text only, confirmed to pass the "
                           "repository's tests and to break the property) that this property's check is recorded to detect must "
                           "still be detected")
    exp_path = os.path.join(VERIF, "seeded", "expectations.json")
    if not os.path.exists(exp_path):
        r.counts["seeded"] = 0
        return r
    exp = json.load(open(exp_path))
    from . import seedtest
    n = 0
    for sid, e in sorted(exp.items()):
        # the changes written against THIS property (a change that another property's check also reports is re-applied by
        # that property's thorough tier only if it was written against it)
        if e.get("breaks") != prop or prop not in e.get("detected_by", {}):
            continue
        patch = os.path.join(VERIF, "seeded", sid, "patch.diff")
        n += 1
        try:
            d = seedtest.make_scratch(ctx.repo, patch)
        except Exception:
            r.samples.append({"seeded": sid, "status": "patch does not apply to this tree"})
            continue
        try:
            rc, new, known = run_checks_on(d, prop)
        finally:
            shutil.rmtree(d, ignore_errors=True)
        want = e["detected_by"][prop]
        hit = [k for k in new if k in want or any(k.split("|")[0] == w.split("|")[0] for w in want)]
        if hit:
            r.ok(sample={"seeded": sid, "detected_as": hit[0]})
        else:
            r.selftest_failures = getattr(r, "selftest_failures", []) + ["seeded %s no longer detected by %s" % (sid, prop)]
            r.examined += 1
    r.counts["seeded"] = n
    return r


def clippy_cross_check(ctx):
    r = Result("T-clippy", "independent enumeration: the set of lines clippy::string_slice reports equals the set of lines of the "
                           "str range-indexing sites the driver found (completeness of the site enumeration; clippy gives no verdict)")
    from .rules.r7 import slicing_sites
    mine = sorted({(s.f.file, s.c["span"][1]) for s in slicing_sites(ctx.bin)})
    env = dict(os.environ, CARGO_NET_OFFLINE="true", CARGO_TARGET_DIR=os.path.join(extract.WORK, "clippy-target"))
    p = subprocess.run(["cargo", "+nightly", "clippy", "--offline", "--lib", "--bins", "--message-format=json", "--",
                        "-A", "clippy::all", "-W", "clippy::string_slice"], cwd=ctx.repo, env=env,
                       stdout=subprocess.PIPE, stderr=subprocess.PIPE, text=True)
    theirs = set()
    for line in p.stdout.splitlines():
        try:
            m = json.loads(line)
        except Exception:
            continue
        msg = m.get("message") or {}
        code = (msg.get("code") or {}).get("code")
        if code == "clippy::string_slice":
            for sp in msg.get("spans", []):
                if sp.get("is_primary"):
                    theirs.add((sp["file_name"], sp["line_start"]))
    theirs = sorted(theirs)
    r.counts["driver_sites"] = len(mine)
    r.counts["clippy_sites"] = len(theirs)
    if not theirs and p.returncode != 0:
        r.samples.append({"clippy": "could not run: " + p.stderr[-300:]})
        return r
    if mine == theirs:
        r.ok(len(mine), sample={"sites": len(mine), "agree": True})
    else:
        r.violate("T-clippy|site-sets-differ", "driver-only %s, clippy-only %s" % (sorted(set(mine) - set(theirs)), sorted(set(theirs) - set(mine))))
    return r
