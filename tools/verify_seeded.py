#!/usr/bin/env python3
"""verify_seeded.py <mutation dir with patch.diff, demo_test.rs, meta.json> [<worktree>]
Confirms in a scratch worktree of /repo (default /tmp/find-wt, must be clean): patch applies; project builds; the whole
existing test suite passes with the patch; the demo fails with the patch; the demo passes without it.
Prints one JSON line with the outcome and writes verify.json next to the patch."""
import json, os, subprocess, sys, shutil, time
d = os.path.abspath(sys.argv[1])
wt = sys.argv[2] if len(sys.argv) > 2 else "/tmp/find-wt"
env = dict(os.environ, CARGO_NET_OFFLINE="true")
def sh(cmd, timeout=1800):
    r = subprocess.run(cmd, shell=True, cwd=wt, env=env, stdout=subprocess.PIPE, stderr=subprocess.STDOUT, text=True, timeout=timeout)
    return r.returncode, r.stdout
res = {"dir": d, "at": time.strftime("%Y-%m-%dT%H:%M:%S")}
sh("git checkout -- . && rm -f tests/verif_demo.rs")
rc, out = sh("git apply %s/patch.diff" % d)
res["applies"] = rc == 0
if rc != 0:
    res["error"] = out[-500:]
else:
    rc, out = sh("cargo test --offline --no-fail-fast 2>&1 | grep -E '^test result|FAILED|failed|^error' ")
    lines = out.strip().splitlines()
    res["suite_with_patch"] = lines
    res["suite_passes_with_patch"] = bool(lines) and all(l.startswith("test result: ok") for l in lines)
    shutil.copy(d + "/demo_test.rs", wt + "/tests/verif_demo.rs")
    rc, out = sh("timeout 600 cargo test --offline --test verif_demo 2>&1 | tail -30")
    res["demo_fails_with_patch"] = ("test result: FAILED" in out) or ("error: test failed" in out)
    res["demo_with_patch_tail"] = out[-1500:]
    sh("git checkout -- src")
    rc, out = sh("timeout 600 cargo test --offline --test verif_demo 2>&1 | tail -8")
    res["demo_passes_without_patch"] = "test result: ok" in out and "FAILED" not in out
    res["demo_without_patch_tail"] = out[-600:]
sh("git checkout -- . && rm -f tests/verif_demo.rs")
res["confirmed"] = bool(res.get("applies") and res.get("suite_passes_with_patch") and res.get("demo_fails_with_patch") and res.get("demo_passes_without_patch"))
json.dump(res, open(d + "/verify.json", "w"), indent=1)
print(json.dumps({k: res.get(k) for k in ("dir", "applies", "suite_passes_with_patch", "demo_fails_with_patch", "demo_passes_without_patch", "confirmed")}))
