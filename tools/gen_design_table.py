#!/usr/bin/env python3
"""Rewrite the rule column of the per-property table in DESIGN.md (section 5) from the rule lists in evidence/*.json
(what each check actually evaluated); the 'undecided remainder' column is kept as written."""
import json, re, sys
p = "/verif/DESIGN.md"
s = open(p).read()
CACHE = ["R3d-hit", "R3d-stamp", "R3d-i", "R3d-ii", "R3d-iii", "R3d-iv", "R3d-v"]
def compress(rules):
    rules = list(dict.fromkeys(rules))
    if all(c in rules for c in CACHE):
        rules = [r for r in rules if r not in CACHE] + ["CACHE"]
    return ", ".join(rules)
out = []
for line in s.split("\n"):
    m = re.match(r"^\| (C\d\d) \| (.*?) \| (.*) \|$", line)
    if m:
        ev = json.load(open("/verif/evidence/%s.json" % m.group(1)))
        rules = [r["rule"] for r in ev["coverage"]["rules"] if not r["rule"].startswith(("T-", "selftest", "seeded", "lib-bin", "clippy"))]
        line = "| %s | %s | %s |" % (m.group(1), compress(rules), m.group(3))
    out.append(line)
open(p, "w").write("\n".join(out))
