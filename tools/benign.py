#!/usr/bin/env python3
"""benign.py [names...]: apply each behaviour-preserving edit of selftest/benign.py to a scratch copy and run ALL property
checks; any new violation is a false alarm of the checker."""
import importlib.util, os, shutil, sys
sys.path.insert(0, "/verif")
from plsa import extract, thorough
from plsa.check import run_property, Ctx
from plsa.core import load_crates
from plsa.rules import REGISTRY
spec = importlib.util.spec_from_file_location("benign", "/verif/selftest/benign.py")
m = importlib.util.module_from_spec(spec); spec.loader.exec_module(m)
only = sys.argv[1:]
bad = 0
for v in m.B:
    if only and v["name"] not in only:
        continue
    d = thorough.make_variant(extract.repo_root(), v["edits"])
    if d is None:
        print(v["name"], "NOT-APPLICABLE (anchor text changed)"); continue
    try:
        try:
            facts, _ = extract.extract(d)
        except extract.ExtractError as e:
            print(v["name"], "DOES-NOT-BUILD", str(e)[-400:].replace("\n", " | ")); continue
        ctx = Ctx(load_crates(facts), "quick", d)
        alarms = {}
        for p in sorted(REGISTRY):
            rc, info = run_property(p, "quick", repo=d, write_evidence=False, quiet=True, ctx=ctx)
            if info and info["new"]:
                alarms[p] = [k for _r, k, _m in info["new"]]
        if alarms:
            bad += 1
            print(v["name"], "FALSE-ALARM", {p: ks[:2] for p, ks in alarms.items()})
        else:
            print(v["name"], "silent")
    finally:
        shutil.rmtree(d, ignore_errors=True)
    sys.stdout.flush()
sys.exit(1 if bad else 0)
