#!/usr/bin/env python3
"""matrix.py <dir-of-mutation-dirs> [--write-expectations]: run every registered property check on each patch applied to a
scratch copy of /repo; print the detection matrix; optionally write <dir>/expectations.json and <dir>/README.md"""
import os, sys, json
sys.path.insert(0, "/verif")
from plsa import seedtest
from plsa.rules import REGISTRY
base = sys.argv[1]
write = "--write-expectations" in sys.argv
# --shard i/n: only every n-th patch (for parallel runs); --out FILE: dump the result table as JSON (merged by --merge)
shard = None
out_file = None
for i, a in enumerate(sys.argv):
    if a == "--shard":
        shard = tuple(int(x) for x in sys.argv[i + 1].split("/"))
    if a == "--out":
        out_file = sys.argv[i + 1]
props = sorted(REGISTRY)
exp = {}
if "--merge" in sys.argv:
    for fn in sys.argv[sys.argv.index("--merge") + 1:]:
        if fn.startswith("--"):
            break
        exp.update(json.load(open(fn)))
    names = []
else:
    names = [d for d in sorted(os.listdir(base)) if os.path.exists(os.path.join(base, d, "patch.diff"))]
    if shard:
        names = [d for k, d in enumerate(names) if k % shard[1] == shard[0]]
for d in names:
    p = os.path.join(base, d, "patch.diff")
    meta = json.load(open(os.path.join(base, d, "meta.json"))) if os.path.exists(os.path.join(base, d, "meta.json")) else {}
    try:
        res = seedtest.run_on_patch(p, props)
    except Exception as e:
        print(d, "ERROR", str(e)[:300].replace("\n", " "))
        continue
    hits = {pr: sorted(set(new)) for pr, (rc, new, known) in res.items() if new}
    print(d, "DETECTED-BY" if hits else "missed", {k: v[:2] for k, v in hits.items()})
    sys.stdout.flush()
    exp[d] = {"breaks": meta.get("property", d.split("-")[0]), "summary": meta.get("summary", ""),
              "needs_to_manifest": meta.get("needs_to_manifest", ""), "detected_by": hits}
if out_file:
    json.dump(exp, open(out_file, "w"), indent=1, sort_keys=True)
if write:
    json.dump(exp, open(os.path.join(base, "expectations.json"), "w"), indent=1, sort_keys=True)
    lines = ["# Seeded changes", "",
             "Written by independent sub-agents from the property text only; each was confirmed by me on /repo HEAD (tests pass with",
             "the change, demonstration fails with it and passes without; see meta.json `verified_by_me`).", "",
             "| id | breaks | detected by (property: first key) |", "|---|---|---|"]
    for d, e in sorted(exp.items()):
        det = "; ".join("%s: `%s`" % (k, v[0][:110]) for k, v in sorted(e["detected_by"].items())) or "**missed**"
        lines.append("| %s | %s | %s |" % (d, e["breaks"], det))
    open(os.path.join(base, "README.md"), "w").write("\n".join(lines) + "\n")
