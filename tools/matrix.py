#!/usr/bin/env python3
"""matrix.py <dir-of-mutation-dirs> [props...]: run all registered (or given) property checks on each patch, print detection matrix"""
import os, sys, json
sys.path.insert(0, "/verif")
from plsa import seedtest
from plsa.rules import REGISTRY
base = sys.argv[1]
props = sys.argv[2:] or sorted(REGISTRY)
for d in sorted(os.listdir(base)):
    p = os.path.join(base, d, "patch.diff")
    if not os.path.exists(p):
        continue
    try:
        res = seedtest.run_on_patch(p, props)
    except Exception as e:
        print(d, "ERROR", str(e)[:300].replace("\n", " "))
        continue
    hits = {pr: new for pr, (rc, new, known) in res.items() if new}
    broken = [pr for pr, (rc, new, known) in res.items() if rc == 2]
    print(d, "DETECTED-BY" if hits else "missed", {k: v[:2] for k, v in hits.items()}, ("UNANALYSABLE " + str(broken)) if broken else "")
    sys.stdout.flush()
