#!/bin/bash
# regress.sh: must-fire (seeded changes) and must-stay-silent (refactoring / feature corpora, benign edits) suites against the
# current rules; the seeded matrix runs in 4 shards
cd /verif
L=${REGRESS_LOGS:-/tmp}
# every parallel worker gets a work directory of its own (separate cargo target dir and lock), or they serialise on extraction
W=/verif/.work/par
for i in 0 1 2 3; do
  PLSA_WORK=$W/s$i python3 tools/matrix.py /verif/seeded --shard $i/4 --out $L/seeded_shard$i.json > $L/regress_seeded_$i.log 2>&1 &
done
wait
cat $L/regress_seeded_?.log | grep -v conda > $L/regress_seeded.log
python3 tools/matrix.py /verif/seeded --merge $L/seeded_shard0.json $L/seeded_shard1.json $L/seeded_shard2.json $L/seeded_shard3.json --write-expectations > /dev/null 2>&1
for c in refactor2 refactor4 refactor5 refactor6 refactor7 refactor8 features3 features5 features6 features7; do
  PLSA_WORK=$W/$c python3 tools/matrix.py /verif/selftest/$c > $L/regress_$c.log 2>&1 &
done
PLSA_WORK=$W/benign python3 tools/benign.py > $L/regress_benign.log 2>&1 &
wait
# self-test variants (one rule instance broken each) and the rename probe
PLSA_WORK=$W/s0 python3 tools/selftests.py C01 C02 C03 C04 C05 > $L/regress_selftests_a.log 2>&1 &
PLSA_WORK=$W/s1 python3 tools/selftests.py C06 C07 C08 C09 C10 > $L/regress_selftests_b.log 2>&1 &
PLSA_WORK=$W/s2 python3 tools/selftests.py C11 C12 C13 C14 C15 > $L/regress_selftests_c.log 2>&1 &
PLSA_WORK=$W/s3 python3 tools/selftests.py C16 C17 C18 C19 C20 > $L/regress_selftests_d.log 2>&1 &
PLSA_WORK=$W/benign python3 tools/rename_probe.py > $L/regress_rename.log 2>&1 &
wait
rm -rf /verif/.work/par
echo "== seeded: $(grep -c DETECTED-BY $L/regress_seeded.log) detected, $(grep -c ' missed ' $L/regress_seeded.log) missed, $(grep -c ERROR $L/regress_seeded.log) errors"
for c in refactor2 refactor4 refactor5 refactor6 refactor7 refactor8 features3 features5 features6 features7; do
  echo "== $c alarms: $(grep -c DETECTED-BY $L/regress_$c.log) of $(grep -c -E 'DETECTED-BY| missed ' $L/regress_$c.log); errors $(grep -c ERROR $L/regress_$c.log)"
  grep DETECTED-BY $L/regress_$c.log | cut -c1-260
done
echo "== selftests: $(cat $L/regress_selftests_?.log | grep -c MISSED) missed; $(cat $L/regress_selftests_?.log | grep '^selftests:' | tr '\n' ' ')"
cat $L/regress_selftests_?.log | grep MISSED | cut -c1-260
echo "== rename probe alarms: $(grep -c FALSE-ALARM $L/regress_rename.log) of $(grep -c -E 'silent|FALSE-ALARM' $L/regress_rename.log)"
grep FALSE-ALARM $L/regress_rename.log | cut -c1-260
echo "== benign false alarms: $(grep -c FALSE-ALARM $L/regress_benign.log)"
grep -v silent $L/regress_benign.log | grep -v conda | cut -c1-300
