#!/bin/bash
# regress.sh: must-fire (seeded changes) and must-stay-silent (refactoring corpus, benign edits) suites against the current rules
cd /verif
python3 tools/matrix.py /verif/seeded --write-expectations > /tmp/regress_seeded.log 2>&1
python3 tools/matrix.py /verif/selftest/refactor2 > /tmp/regress_refactor2.log 2>&1
python3 tools/benign.py > /tmp/regress_benign.log 2>&1
echo "== seeded: $(grep -c DETECTED-BY /tmp/regress_seeded.log) detected, $(grep -c ' missed ' /tmp/regress_seeded.log) missed, $(grep -c ERROR /tmp/regress_seeded.log) errors"
echo "== refactor2 false alarms: $(grep -c DETECTED-BY /tmp/regress_refactor2.log); errors $(grep -c ERROR /tmp/regress_refactor2.log)"
grep DETECTED-BY /tmp/regress_refactor2.log | cut -c1-300
echo "== benign false alarms: $(grep -c FALSE-ALARM /tmp/regress_benign.log)"
grep -v silent /tmp/regress_benign.log | grep -v conda | cut -c1-300
