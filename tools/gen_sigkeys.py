#!/usr/bin/env python3
"""gen_sigkeys.py: (dev time, pinned tree) write plsa/sigkeys.json: signature alias of every reviewed key and every known-finding key"""
import json, os, sys
sys.path.insert(0, "/verif")
from plsa import extract, sigkeys
from plsa.core import load_crates
from plsa.reviewed import _RAW, norm_key
from plsa.check import load_known
facts, _ = extract.extract()
crate = load_crates(facts)["bin"]
out = {}
keys = [norm_key(k) for k in _RAW]
known, _fixed = load_known()
for prop, d in known.items():
    keys += list(d)
for k in sorted(set(keys)):
    sk = sigkeys.sigkey(crate, k)
    if sk is not None:
        out[k] = sk
json.dump(out, open(os.path.join("/verif/plsa", "sigkeys.json"), "w"), indent=0, sort_keys=True)
print("sigkeys.json: %d of %d keys have a signature alias" % (len(out), len(set(keys))))
dup = {}
for k, v in out.items():
    dup.setdefault(v, []).append(k)
print("shared aliases:", sum(1 for v in dup.values() if len(v) > 1))
