#!/usr/bin/env python3
"""selftests.py [C01 C02 ...]: run the self-test variants (selftest/spec.py) of the given properties (default: all) against the
current rules; prints one line per variant that is NOT detected and a summary; exit 1 if any is missed."""
import sys
sys.path.insert(0, "/verif")
from plsa import extract, thorough
from plsa.check import Ctx
from plsa.core import load_crates
from plsa.rules import REGISTRY
props = sys.argv[1:] or sorted(REGISTRY)
facts, _ = extract.extract(extract.repo_root())
ctx = Ctx(load_crates(facts), "quick", extract.repo_root())
bad = 0
tot = 0
for p in props:
    r = thorough.selftests(ctx, p)
    tot += r.counts.get("variants", 0)
    for m in getattr(r, "selftest_failures", []):
        bad += 1
        print("MISSED", p, m[:300])
    sys.stdout.flush()
print("selftests: %d variants, %d missed" % (tot, bad))
sys.exit(1 if bad else 0)
