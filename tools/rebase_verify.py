#!/usr/bin/env python3
"""rebase_verify.py <incoming dir> <worktree> <out dir>: for each mutation dir (patch.diff, demo_test.rs, meta.json) apply
the patch to the worktree (clean checkout of /repo HEAD; fuzz allowed), regenerate the diff against HEAD, confirm
(builds; whole suite passes with patch; demo fails with patch; demo passes without) and copy confirmed ones to <out>/<id>/."""
import json, os, shutil, subprocess, sys, time
inc, wt, out = sys.argv[1:4]
only = sys.argv[4:]
VT = os.environ.get("VERIFY_TMP", "/tmp/verify-tmp")
env = dict(os.environ, CARGO_NET_OFFLINE="true", TMPDIR=VT)
os.makedirs(VT, exist_ok=True)
def sh(cmd, timeout=2400):
    r = subprocess.run(cmd, shell=True, cwd=wt, env=env, stdout=subprocess.PIPE, stderr=subprocess.STDOUT, text=True, timeout=timeout)
    return r.returncode, r.stdout
head = subprocess.check_output(["git", "-C", "/repo", "rev-parse", "--short", "HEAD"], text=True).strip()
for name in sorted(os.listdir(inc)):
    d = os.path.join(inc, name)
    if not os.path.exists(os.path.join(d, "patch.diff")) or (only and name not in only):
        continue
    res = {"id": name, "repo_head": head, "at": time.strftime("%Y-%m-%dT%H:%M:%S")}
    sh("git checkout -q -- . ; git clean -fdq tests src; git checkout -q --detach %s" % head)
    rc, o = sh("git apply %s/patch.diff" % d)
    if rc != 0:
        rc, o = sh("patch -p1 --fuzz=3 -s < %s/patch.diff" % d)
        res["applied_with"] = "patch --fuzz=3"
    else:
        res["applied_with"] = "git apply"
    if rc != 0:
        res["confirmed"] = False
        res["error"] = "does not apply: " + o[-400:]
        print(json.dumps(res)); sys.stdout.flush()
        sh("git checkout -q -- . ; git clean -fdq tests src")
        continue
    sh("find . -name '*.orig' -path './src/*' -delete; find . -name '*.rej' -delete")
    rc, diff = sh("git diff -- src")
    rc, o = sh("cargo test --offline --no-fail-fast 2>&1 | grep -E '^test result|FAILED|failed|^error' ")
    lines = o.strip().splitlines()
    ok_suite = bool(lines) and all(l.startswith("test result: ok") for l in lines)
    if not ok_suite:  # one retry for the /tmp-path flakiness
        rc, o = sh("cargo test --offline --no-fail-fast 2>&1 | grep -E '^test result|FAILED|failed|^error' ")
        lines = o.strip().splitlines()
        ok_suite = bool(lines) and all(l.startswith("test result: ok") for l in lines)
    res["suite_passes_with_patch"] = ok_suite
    res["suite_lines"] = lines[-12:]
    shutil.copy(os.path.join(d, "demo_test.rs"), os.path.join(wt, "tests", "verif_demo.rs"))
    rc, o = sh("timeout 900 cargo test --offline --test verif_demo 2>&1 | tail -25")
    res["demo_fails_with_patch"] = ("test result: FAILED" in o) or ("error: test failed" in o)
    res["demo_with_patch_tail"] = o[-1200:]
    sh("git checkout -q -- src")
    rc, o = sh("timeout 900 cargo test --offline --test verif_demo 2>&1 | tail -8")
    res["demo_passes_without_patch"] = "test result: ok" in o and "FAILED" not in o
    res["demo_without_patch_tail"] = o[-500:]
    sh("git checkout -q -- . ; git clean -fdq tests src")
    res["confirmed"] = bool(ok_suite and res["demo_fails_with_patch"] and res["demo_passes_without_patch"])
    if res["confirmed"]:
        od = os.path.join(out, name)
        os.makedirs(od, exist_ok=True)
        open(os.path.join(od, "patch.diff"), "w").write(diff)
        shutil.copy(os.path.join(d, "demo_test.rs"), os.path.join(od, "demo_test.rs"))
        meta = json.load(open(os.path.join(d, "meta.json"))) if os.path.exists(os.path.join(d, "meta.json")) else {}
        meta["verified_by_me"] = {k: res[k] for k in ("repo_head", "at", "applied_with", "suite_passes_with_patch", "demo_fails_with_patch", "demo_passes_without_patch")}
        meta["verified_by_me"]["commands"] = ["git apply patch.diff (on /repo HEAD %s)" % head, "cargo test --offline --no-fail-fast (all 'test result: ok')",
                                              "cp demo_test.rs tests/verif_demo.rs && cargo test --offline --test verif_demo (FAILED with patch, ok without)"]
        json.dump(meta, open(os.path.join(od, "meta.json"), "w"), indent=1)
    print(json.dumps({k: res.get(k) for k in ("id", "applied_with", "suite_passes_with_patch", "demo_fails_with_patch", "demo_passes_without_patch", "confirmed", "error")})); sys.stdout.flush()
