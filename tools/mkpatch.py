#!/usr/bin/env python3
"""mkpatch.py <out.diff> <relpath> <old> <new> [<relpath> <old> <new> ...]: unified diff (git apply -p1) replacing
the unique occurrence of <old> by <new> in /repo/<relpath> (the repo itself is not touched)."""
import difflib, sys
out = sys.argv[1]
args = sys.argv[2:]
chunks = []
files = {}
for i in range(0, len(args), 3):
    rel, old, new = args[i:i + 3]
    src = files.get(rel) or open("/repo/" + rel).read()
    if src.count(old) != 1:
        sys.exit("pattern occurs %d times in %s: %r" % (src.count(old), rel, old[:60]))
    files[rel] = src.replace(old, new)
for rel, new in files.items():
    a = open("/repo/" + rel).read().splitlines(keepends=True)
    b = new.splitlines(keepends=True)
    chunks.append("".join(difflib.unified_diff(a, b, "a/" + rel, "b/" + rel)))
open(out, "w").write("".join(chunks))
print("wrote", out)
