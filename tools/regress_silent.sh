#!/bin/bash
# regress_silent.sh: only the must-stay-silent suites of regress.sh (refactoring / feature corpora, benign edits, rename probe)
cd /verif
L=${REGRESS_LOGS:-/tmp}
W=/verif/.work/par
for c in refactor2 refactor4 refactor5 refactor6 refactor7 refactor8 features3 features5 features6 features7; do
  PLSA_WORK=$W/$c python3 tools/matrix.py /verif/selftest/$c > $L/regress_$c.log 2>&1 &
done
PLSA_WORK=$W/benign python3 tools/benign.py > $L/regress_benign.log 2>&1 &
wait
PLSA_WORK=$W/benign python3 tools/rename_probe.py > $L/regress_rename.log 2>&1
for c in refactor2 refactor4 refactor5 refactor6 refactor7 refactor8 features3 features5 features6 features7; do
  echo "== $c alarms: $(grep -c DETECTED-BY $L/regress_$c.log) of $(grep -c -E 'DETECTED-BY| missed ' $L/regress_$c.log); errors $(grep -c ERROR $L/regress_$c.log)"
  grep DETECTED-BY $L/regress_$c.log | cut -c1-260
done
echo "== rename probe alarms: $(grep -c FALSE-ALARM $L/regress_rename.log) of $(grep -c -E 'silent|FALSE-ALARM' $L/regress_rename.log)"
grep FALSE-ALARM $L/regress_rename.log | cut -c1-260
echo "== benign false alarms: $(grep -c FALSE-ALARM $L/regress_benign.log)"
grep -v silent $L/regress_benign.log | grep -v conda | cut -c1-300
