#!/usr/bin/env python3
"""rename_probe.py [names...]: rename one function / method / field at a time (whole-word, all of src/) in a scratch copy
and run ALL property checks: any new violation is a false alarm caused by a name-based anchor."""
import os, re, shutil, subprocess, sys, tempfile
sys.path.insert(0, "/verif")
from plsa import extract
from plsa.check import run_property, Ctx
from plsa.core import load_crates
from plsa.rules import REGISTRY

NAMES = sys.argv[1:] or """is_diagnostic_disabled publish_diagnostics_for_file get_unused_fixtures resolve_module_to_file
extract_fixture_imports extract_pytest_plugins uri_to_path get_canonical_path extract_word_at_position handle_code_action
compute_available_fixtures resolve_fixture_for_file compute_fixture_cycles detect_scope_mismatches_in_file print_fixtures_tree
compute_definition_usage_counts analyze_file_internal analyze_file_fresh cleanup_definitions_for_file cleanup_usages_for_file
record_fixture_definition record_fixture_usage find_closest_definition_with_filter find_closest_definition_excluding
find_closest_definition get_imported_fixtures compute_imported_fixtures scan_imported_fixture_modules scan_workspace_with_excludes
get_file_content hash_content get_line_index get_parsed_ast is_fixture_decorator extract_fixture_scope contains_yield
find_yield_in_stmt collect_local_variables visit_stmt_for_names is_available_fixture get_fixture_definition_at_line
get_definition_at_line find_fixture_definition find_references_for_definition get_completion_context
get_completion_context_from_text internal_line_to_lsp lsp_line_to_internal file_cache definitions usage_by_fixture
definitions_version is_in_site_packages should_skip_directory evict_cache_if_needed cleanup_file_cache
FixtureUsage UndeclaredFixture FixtureCycle ScopeMismatch FixtureImport EditableInstall ParamInsertionInfo RawConfig file_definitions
undeclared_fixtures canonical_path_cache ast_cache cycle_cache imported_fixtures_cache line_index_cache available_fixtures_cache
plugin_fixture_files module_path is_star_import imported_names importing_file handle_completion handle_references
handle_incoming_calls handle_document_symbol find_parameter_ranges create_range path_to_uri from_raw get_available_fixtures
detect_fixture_cycles is_fixture_imported_in_file resolve_absolute_import find_module_file scan_single_plugin_file
extract_return_type format_docstring has_fixture_decorator_above get_function_param_insertion_info
find_containing_function""".split()

repo = extract.repo_root()
bad = 0
for name in NAMES:
    d = tempfile.mkdtemp(prefix="plsa-rename-")
    try:
        for n in ("src", "Cargo.toml", "Cargo.lock", "build.rs"):
            p = os.path.join(repo, n)
            if os.path.isdir(p):
                shutil.copytree(p, os.path.join(d, n))
            elif os.path.exists(p):
                shutil.copy(p, os.path.join(d, n))
        new = name + "_rn"
        cnt = 0
        for root, _ds, fs in os.walk(os.path.join(d, "src")):
            for fn in fs:
                if fn.endswith(".rs"):
                    fp = os.path.join(root, fn)
                    s = open(fp).read()
                    s2, k = re.subn(r"\b%s\b" % re.escape(name), new, s)
                    if k:
                        open(fp, "w").write(s2)
                        cnt += k
        if not cnt:
            print(name, "NOT-FOUND")
            continue
        try:
            facts, _ = extract.extract(d)
        except extract.ExtractError as e:
            print(name, "DOES-NOT-BUILD", str(e)[-200:].replace("\n", " | "))
            continue
        ctx = Ctx(load_crates(facts), "quick", d)
        alarms = {}
        for p in sorted(REGISTRY):
            rc, info = run_property(p, "quick", repo=d, write_evidence=False, quiet=True, ctx=ctx)
            if info and info["new"]:
                alarms[p] = [k for _r, k, _m in info["new"]]
        if alarms:
            bad += 1
            keys = sorted({k for ks in alarms.values() for k in ks})
            print(name, "FALSE-ALARM", sorted(alarms), keys[:4])
        else:
            print(name, "silent")
    finally:
        shutil.rmtree(d, ignore_errors=True)
    sys.stdout.flush()
sys.exit(1 if bad else 0)
