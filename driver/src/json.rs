// Minimal JSON value + writer (no dependencies).
pub enum J {
    Null,
    B(bool),
    I(i128),
    S(String),
    A(Vec<J>),
    O(Vec<(String, J)>),
}

fn esc(s: &str, out: &mut String) {
    out.push('"');
    for c in s.chars() {
        match c {
            '"' => out.push_str("\\\""),
            '\\' => out.push_str("\\\\"),
            '\n' => out.push_str("\\n"),
            '\r' => out.push_str("\\r"),
            '\t' => out.push_str("\\t"),
            c if (c as u32) < 0x20 => out.push_str(&format!("\\u{:04x}", c as u32)),
            c => out.push(c),
        }
    }
    out.push('"');
}

impl J {
    pub fn write(&self, out: &mut String) {
        match self {
            J::Null => out.push_str("null"),
            J::B(b) => out.push_str(if *b { "true" } else { "false" }),
            J::I(i) => out.push_str(&i.to_string()),
            J::S(s) => esc(s, out),
            J::A(v) => {
                out.push('[');
                for (i, x) in v.iter().enumerate() {
                    if i > 0 {
                        out.push(',');
                    }
                    x.write(out);
                }
                out.push(']');
            }
            J::O(v) => {
                out.push('{');
                for (i, (k, x)) in v.iter().enumerate() {
                    if i > 0 {
                        out.push(',');
                    }
                    esc(k, out);
                    out.push(':');
                    x.write(out);
                }
                out.push('}');
            }
        }
    }
}
