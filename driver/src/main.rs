// plsa-driver: serialises the drop-elaborated (pre-coroutine-lowering) MIR of every body of the
// pytest_language_server crates, with resolved callees, named field projections, literal
// constants and the ADT definitions the rules need, into one JSON fact file per crate.
// Used as RUSTC_WORKSPACE_WRAPPER under `cargo +nightly check`.  No dependencies.
#![feature(rustc_private)]
#![allow(clippy::all)]

extern crate rustc_abi;
extern crate rustc_driver;
extern crate rustc_hir;
extern crate rustc_interface;
extern crate rustc_middle;
extern crate rustc_span;

mod json;
use json::J;

use rustc_abi::{FieldIdx, VariantIdx, FIRST_VARIANT};
use rustc_driver::{Callbacks, Compilation};
use rustc_hir::def::DefKind;
use rustc_hir::def_id::{DefId, LocalDefId};
use rustc_interface::interface::Compiler;
use rustc_middle::mir::{
    self, AggregateKind, BasicBlock, Body, BorrowKind, CastKind, Const, ConstValue, Operand, Place,
    ProjectionElem, Rvalue, StatementKind, TerminatorKind, UnwindAction,
};
use rustc_middle::mir::PlaceTy;
use rustc_middle::ty::print::with_no_trimmed_paths;
use rustc_middle::ty::{self, GenericArgKind, GenericArgsRef, Instance, Ty, TyCtxt, TypingEnv};
use rustc_span::{ExpnKind, Span};
use std::collections::{BTreeMap, BTreeSet};

const TARGET_CRATE: &str = "pytest_language_server";

struct Cb;

impl Callbacks for Cb {
    fn after_expansion<'tcx>(&mut self, _c: &Compiler, tcx: TyCtxt<'tcx>) -> Compilation {
        let name = tcx.crate_name(rustc_hir::def_id::LOCAL_CRATE).to_string();
        if name == TARGET_CRATE {
            if let Ok(out) = std::env::var("PLSA_OUT") {
                let mut ex = Ex::new(tcx);
                let j = ex.run();
                let is_bin = tcx.entry_fn(()).is_some();
                let path = format!("{}/{}-{}.json", out, name, if is_bin { "bin" } else { "lib" });
                let tmp = format!("{}.tmp{}", path, std::process::id());
                let mut s = String::with_capacity(64 << 20);
                j.write(&mut s);
                std::fs::write(&tmp, s).expect("write facts");
                std::fs::rename(&tmp, &path).expect("rename facts");
            }
        }
        Compilation::Continue
    }
}

fn main() {
    let mut args: Vec<String> = std::env::args().collect();
    // RUSTC_WORKSPACE_WRAPPER passes the real rustc path as argv[1]; run_compiler drops argv[0].
    if args.len() > 1 && (args[1].ends_with("rustc") || args[1].contains("/rustc")) {
        args.remove(1);
    }
    rustc_driver::run_compiler(&args, &mut Cb);
}

struct Ex<'tcx> {
    tcx: TyCtxt<'tcx>,
    files: Vec<String>,
    file_ix: BTreeMap<String, usize>,
    adts_seen: std::collections::HashSet<DefId>,
    adt_queue: Vec<DefId>,
}

fn s(x: impl Into<String>) -> J {
    J::S(x.into())
}
fn i(x: impl TryInto<i128>) -> J {
    J::I(x.try_into().ok().unwrap_or(-1))
}

impl<'tcx> Ex<'tcx> {
    fn new(tcx: TyCtxt<'tcx>) -> Self {
        Ex { tcx, files: vec![], file_ix: BTreeMap::new(), adts_seen: std::collections::HashSet::new(), adt_queue: vec![] }
    }

    fn path(&self, did: DefId) -> String {
        with_no_trimmed_paths!(self.tcx.def_path_str(did))
    }
    fn tys(&self, ty: Ty<'tcx>) -> String {
        with_no_trimmed_paths!(format!("{}", ty))
    }
    fn crate_of(&self, did: DefId) -> String {
        self.tcx.crate_name(did.krate).to_string()
    }

    fn interesting_crate(&self, did: DefId) -> bool {
        if did.is_local() {
            return true;
        }
        let c = self.crate_of(did);
        c.starts_with("rustpython") || c == "ls_types" || c == "lsp_types" || c.starts_with("tower_lsp")
    }

    /// ADT paths, closure paths and fn-item paths occurring (at generic-argument depth) in a type.
    fn ty_parts(&mut self, ty: Ty<'tcx>) -> (Vec<String>, Vec<(String, bool)>) {
        let mut adts = BTreeSet::new();
        let mut clos = BTreeSet::new();
        for a in ty.walk() {
            if let GenericArgKind::Type(t) = a.kind() {
                match t.kind() {
                    ty::Adt(d, _) => {
                        adts.insert(self.path(d.did()));
                        self.note_adt(d.did());
                    }
                    ty::Closure(d, _) | ty::Coroutine(d, _) | ty::CoroutineClosure(d, _) | ty::FnDef(d, _) => {
                        clos.insert((self.path(*d), d.is_local()));
                    }
                    _ => {}
                }
            }
        }
        (adts.into_iter().collect(), clos.into_iter().collect())
    }

    fn note_adt(&mut self, did: DefId) {
        if self.interesting_crate(did) && self.adts_seen.insert(did) {
            self.adt_queue.push(did);
        }
    }

    fn span(&mut self, sp: Span) -> J {
        let sm = self.tcx.sess.source_map();
        let exp = if sp.from_expansion() {
            let mut outer = String::new();
            for e in sp.macro_backtrace() {
                outer = match e.kind {
                    ExpnKind::Macro(_, name) => format!("macro:{}", name),
                    ExpnKind::Desugaring(d) => format!("desugar:{:?}", d),
                    ExpnKind::AstPass(p) => format!("astpass:{:?}", p),
                    ExpnKind::Root => "root".to_string(),
                };
            }
            if outer.is_empty() {
                // desugarings are not macro backtrace frames
                let d = sp.ctxt().outer_expn_data();
                outer = match d.kind {
                    ExpnKind::Macro(_, name) => format!("macro:{}", name),
                    ExpnKind::Desugaring(d) => format!("desugar:{:?}", d),
                    ExpnKind::AstPass(p) => format!("astpass:{:?}", p),
                    ExpnKind::Root => "root".to_string(),
                };
            }
            outer
        } else {
            String::new()
        };
        let cs = sp.source_callsite();
        let loc = sm.lookup_char_pos(cs.lo());
        let fname = format!("{}", loc.file.name.prefer_local_unconditionally());
        let ix = match self.file_ix.get(&fname) {
            Some(ix) => *ix,
            None => {
                let ix = self.files.len();
                self.files.push(fname.clone());
                self.file_ix.insert(fname, ix);
                ix
            }
        };
        let hi = sm.lookup_char_pos(cs.hi());
        J::A(vec![i(ix), i(loc.line), i(loc.col.0 + 1), i(hi.line), s(exp)])
    }

    fn run(&mut self) -> J {
        let tcx = self.tcx;
        let mut fns = vec![];
        let mut owners: Vec<LocalDefId> = tcx.hir_body_owners().collect();
        // Children (closures, coroutine bodies) first: a parent's MIR passes may demand the
        // optimized (state-transformed) MIR of a nested coroutine, which steals the body we want.
        let depth = |d: &LocalDefId| {
            let mut n = 0usize;
            let mut p = d.to_def_id();
            while tcx.def_kind(p) == DefKind::Closure {
                p = tcx.parent(p);
                n += 1;
            }
            n
        };
        owners.sort_by_key(|d| (std::cmp::Reverse(depth(d)), self.path(d.to_def_id())));
        for ld in owners {
            let did = ld.to_def_id();
            let kind = tcx.def_kind(did);
            match kind {
                DefKind::Fn | DefKind::AssocFn | DefKind::Closure => {}
                DefKind::Const { .. } | DefKind::Static { .. } | DefKind::AssocConst { .. } | DefKind::InlineConst => {
                    // constant items: their literal tables (e.g. lists of accepted codes) are facts too
                    if !tcx.is_trivial_const(did) {
                        let body = tcx.mir_for_ctfe(did);
                        fns.push(self.body(ld, body, "const", None));
                        let proms = tcx.promoted_mir(did);
                        for (pi, pb) in proms.iter_enumerated() {
                            fns.push(self.body(ld, pb, "promoted", Some(pi.as_usize())));
                        }
                    }
                    continue;
                }
                _ => continue,
            }
            if tcx.is_coroutine(did) {
                // analysis-phase MIR: `Yield` terminators are still present (the coroutine state
                // transform runs inside mir_drops_elaborated_and_const_checked).
                let (steal, _) = tcx.mir_promoted(ld);
                if !steal.is_stolen() {
                    let b = steal.borrow();
                    let body: &Body<'tcx> = &b;
                    fns.push(self.body(ld, body, "analysis", None));
                    drop(b);
                    let proms = tcx.promoted_mir(did);
                    for (pi, pb) in proms.iter_enumerated() {
                        fns.push(self.body(ld, pb, "promoted", Some(pi.as_usize())));
                    }
                    continue;
                }
            }
            let steal = tcx.mir_drops_elaborated_and_const_checked(ld);
            if steal.is_stolen() {
                let body = tcx.optimized_mir(did);
                fns.push(self.body(ld, body, "optimized", None));
            } else {
                let b = steal.borrow();
                let body: &Body<'tcx> = &b;
                fns.push(self.body(ld, body, "elaborated", None));
            }
            let proms = tcx.promoted_mir(did);
            for (pi, pb) in proms.iter_enumerated() {
                fns.push(self.body(ld, pb, "promoted", Some(pi.as_usize())));
            }
        }
        // ADT definitions (transitively through field types).
        let mut adts = vec![];
        while let Some(did) = self.adt_queue.pop() {
            adts.push(self.adt(did));
        }
        J::O(vec![
            ("crate".into(), s(tcx.crate_name(rustc_hir::def_id::LOCAL_CRATE).to_string())),
            ("is_bin".into(), J::B(tcx.entry_fn(()).is_some())),
            ("run_id".into(), s(std::env::var("PLSA_RUN_ID").unwrap_or_default())),
            ("files".into(), J::A(self.files.iter().map(|f| s(f.clone())).collect())),
            ("adts".into(), J::A(adts)),
            ("fns".into(), J::A(fns)),
        ])
    }

    fn adt(&mut self, did: DefId) -> J {
        let tcx = self.tcx;
        let def = tcx.adt_def(did);
        let kind = if def.is_enum() { "enum" } else if def.is_union() { "union" } else { "struct" };
        let mut variants = vec![];
        let discrs: Vec<(VariantIdx, u128)> = if def.is_enum() {
            def.discriminants(tcx).map(|(i, d)| (i, d.val)).collect()
        } else {
            vec![]
        };
        for (vi, v) in def.variants().iter_enumerated() {
            let mut fields = vec![];
            for f in v.fields.iter() {
                let fty = tcx.type_of(f.did).instantiate_identity().skip_norm_wip();
                let (fadts, _) = self.ty_parts(fty);
                fields.push(J::O(vec![
                    ("name".into(), s(f.name.to_string())),
                    ("ty".into(), s(self.tys(fty))),
                    ("adts".into(), J::A(fadts.into_iter().map(s).collect())),
                ]));
            }
            variants.push(J::O(vec![
                ("name".into(), s(v.name.to_string())),
                ("index".into(), i(vi.as_usize())),
                ("discr".into(), discrs.iter().find(|(i2, _)| *i2 == vi).map(|(_, d)| s(format!("{}", d))).unwrap_or(J::Null)),
                ("fields".into(), J::A(fields)),
            ]));
        }
        J::O(vec![
            ("path".into(), s(self.path(did))),
            ("crate".into(), s(self.crate_of(did))),
            ("kind".into(), s(kind)),
            ("variants".into(), J::A(variants)),
        ])
    }

    fn body(&mut self, ld: LocalDefId, body: &Body<'tcx>, phase: &str, promoted: Option<usize>) -> J {
        let tcx = self.tcx;
        let did = ld.to_def_id();
        let kind = match tcx.def_kind(did) {
            DefKind::Closure => {
                if tcx.is_coroutine(did) { "coroutine" } else { "closure" }
            }
            DefKind::AssocFn => "method",
            DefKind::Const { .. } | DefKind::Static { .. } | DefKind::AssocConst { .. } | DefKind::InlineConst => "const",
            _ => "fn",
        };
        let mut id = self.path(did);
        if let Some(p) = promoted {
            id = format!("{}::promoted[{}]", id, p);
        }
        let parent = if tcx.def_kind(did) == DefKind::Closure {
            let mut p = tcx.parent(did);
            while tcx.def_kind(p) == DefKind::Closure {
                p = tcx.parent(p);
            }
            J::A(vec![s(self.path(tcx.parent(did))), s(self.path(p))])
        } else {
            J::Null
        };
        let typing_env = TypingEnv::post_analysis(tcx, did);

        // locals
        let mut names: BTreeMap<usize, String> = BTreeMap::new();
        for vdi in body.var_debug_info.iter() {
            if let mir::VarDebugInfoContents::Place(p) = vdi.value {
                if p.projection.is_empty() {
                    names.entry(p.local.as_usize()).or_insert(vdi.name.to_string());
                }
            }
        }
        let mut locals = vec![];
        for (l, decl) in body.local_decls.iter_enumerated() {
            let (adts, clos) = self.ty_parts(decl.ty);
            let mut o = vec![("ty".to_string(), s(self.tys(decl.ty)))];
            if !adts.is_empty() {
                o.push(("adts".into(), J::A(adts.into_iter().map(s).collect())));
            }
            if !clos.is_empty() {
                o.push(("fnty".into(), J::A(clos.into_iter().map(|(p, l)| J::A(vec![s(p), J::B(l)])).collect())));
            }
            if let Some(n) = names.get(&l.as_usize()) {
                o.push(("name".into(), s(n.clone())));
            }
            locals.push(J::O(o));
        }
        // upvars (closure captures): names by index
        let mut upvars = vec![];
        if tcx.is_closure_like(did) && promoted.is_none() {
            for cap in tcx.closure_captures(ld) {
                upvars.push(s(cap.to_string(tcx)));
            }
        }
        // debuginfo for projected places (upvar names in closures)
        let mut dbg = vec![];
        for vdi in body.var_debug_info.iter() {
            if let mir::VarDebugInfoContents::Place(p) = vdi.value {
                if !p.projection.is_empty() {
                    dbg.push(J::A(vec![s(vdi.name.to_string()), self.place(body, p)]));
                }
            }
        }

        let mut blocks = vec![];
        for (_bb, data) in body.basic_blocks.iter_enumerated() {
            let mut stmts = vec![];
            for st in data.statements.iter() {
                match &st.kind {
                    StatementKind::Assign(b) => {
                        let (pl, rv) = &**b;
                        let sp = self.span(st.source_info.span);
                        stmts.push(J::A(vec![s("="), self.place(body, *pl), self.rvalue(body, rv, typing_env), sp]));
                    }
                    StatementKind::StorageDead(l) => stmts.push(J::A(vec![s("dead"), i(l.as_usize())])),
                    StatementKind::StorageLive(l) => stmts.push(J::A(vec![s("live"), i(l.as_usize())])),
                    StatementKind::SetDiscriminant { place, variant_index } => {
                        stmts.push(J::A(vec![s("setdiscr"), self.place(body, **place), i(variant_index.as_usize())]))
                    }
                    _ => {}
                }
            }
            let term = data.terminator();
            let sp = self.span(term.source_info.span);
            let t = self.terminator(body, &term.kind, typing_env, sp);
            blocks.push(J::O(vec![
                ("s".into(), J::A(stmts)),
                ("t".into(), t),
                ("c".into(), J::B(data.is_cleanup)),
            ]));
        }
        let sp = self.span(body.span);
        let ret_ty = body.local_decls[mir::RETURN_PLACE].ty;
        J::O(vec![
            ("id".into(), s(id)),
            ("kind".into(), s(kind)),
            ("phase".into(), s(phase)),
            ("parent".into(), parent),
            ("span".into(), sp),
            ("argc".into(), i(body.arg_count)),
            ("ret".into(), s(self.tys(ret_ty))),
            ("upvars".into(), J::A(upvars)),
            ("dbg".into(), J::A(dbg)),
            ("locals".into(), J::A(locals)),
            ("blocks".into(), J::A(blocks)),
        ])
    }

    fn bb(&self, b: BasicBlock) -> J {
        i(b.as_usize())
    }
    fn unwind(&self, u: &UnwindAction) -> J {
        match u {
            UnwindAction::Cleanup(b) => self.bb(*b),
            _ => J::Null,
        }
    }

    fn terminator(&mut self, body: &Body<'tcx>, k: &TerminatorKind<'tcx>, te: TypingEnv<'tcx>, sp: J) -> J {
        match k {
            TerminatorKind::Goto { target } => J::A(vec![s("goto"), self.bb(*target)]),
            TerminatorKind::SwitchInt { discr, targets } => {
                let mut arms = vec![];
                for (v, t) in targets.iter() {
                    arms.push(J::A(vec![i(v), self.bb(t)]));
                }
                J::A(vec![s("switch"), self.operand(body, discr, te), J::A(arms), self.bb(targets.otherwise()), sp])
            }
            TerminatorKind::Return => J::A(vec![s("ret")]),
            TerminatorKind::Unreachable => J::A(vec![s("unreachable")]),
            TerminatorKind::UnwindResume => J::A(vec![s("resume")]),
            TerminatorKind::UnwindTerminate(_) => J::A(vec![s("terminate")]),
            TerminatorKind::Drop { place, target, unwind, .. } => {
                J::A(vec![s("drop"), self.place(body, *place), self.bb(*target), self.unwind(unwind), sp])
            }
            TerminatorKind::Call { func, args, destination, target, unwind, .. } => {
                let mut o = vec![];
                self.callee(body, func, te, &mut o);
                o.push(("args".into(), J::A(args.iter().map(|a| self.operand(body, &a.node, te)).collect())));
                o.push(("dest".into(), self.place(body, *destination)));
                o.push(("target".into(), target.map(|t| self.bb(t)).unwrap_or(J::Null)));
                o.push(("unwind".into(), self.unwind(unwind)));
                o.push(("span".into(), sp));
                J::A(vec![s("call"), J::O(o)])
            }
            TerminatorKind::TailCall { func, args, .. } => {
                let mut o = vec![];
                self.callee(body, func, te, &mut o);
                o.push(("args".into(), J::A(args.iter().map(|a| self.operand(body, &a.node, te)).collect())));
                o.push(("span".into(), sp));
                J::A(vec![s("tailcall"), J::O(o)])
            }
            TerminatorKind::Assert { cond, expected, msg, target, unwind } => {
                let (kind, ops): (String, Vec<J>) = match &**msg {
                    mir::AssertKind::Overflow(op, a, b) => {
                        (format!("Overflow:{:?}", op), vec![self.operand(body, a, te), self.operand(body, b, te)])
                    }
                    mir::AssertKind::BoundsCheck { len, index } => {
                        ("BoundsCheck".into(), vec![self.operand(body, len, te), self.operand(body, index, te)])
                    }
                    mir::AssertKind::OverflowNeg(a) => ("OverflowNeg".into(), vec![self.operand(body, a, te)]),
                    mir::AssertKind::DivisionByZero(a) => ("DivisionByZero".into(), vec![self.operand(body, a, te)]),
                    mir::AssertKind::RemainderByZero(a) => ("RemainderByZero".into(), vec![self.operand(body, a, te)]),
                    other => (format!("{:?}", other).split('(').next().unwrap_or("").to_string(), vec![]),
                };
                J::A(vec![
                    s("assert"),
                    self.operand(body, cond, te),
                    J::B(*expected),
                    s(kind),
                    J::A(ops),
                    self.bb(*target),
                    self.unwind(unwind),
                    sp,
                ])
            }
            TerminatorKind::Yield { value, resume, resume_arg, drop } => J::A(vec![
                s("yield"),
                self.operand(body, value, te),
                self.bb(*resume),
                self.place(body, *resume_arg),
                drop.map(|d| self.bb(d)).unwrap_or(J::Null),
                sp,
            ]),
            TerminatorKind::CoroutineDrop => J::A(vec![s("cordrop")]),
            TerminatorKind::FalseEdge { real_target, .. } => J::A(vec![s("goto"), self.bb(*real_target)]),
            TerminatorKind::FalseUnwind { real_target, .. } => J::A(vec![s("goto"), self.bb(*real_target)]),
            TerminatorKind::InlineAsm { .. } => J::A(vec![s("asm")]),
        }
    }

    fn generic_parts(&mut self, args: GenericArgsRef<'tcx>) -> (Vec<J>, Vec<J>) {
        let mut targs = vec![];
        let mut clos = BTreeSet::new();
        for a in args.iter() {
            if let GenericArgKind::Type(t) = a.kind() {
                targs.push(s(self.tys(t)));
                let (_, c) = self.ty_parts(t);
                for x in c {
                    clos.insert(x);
                }
            }
        }
        (targs, clos.into_iter().map(|(p, l)| J::A(vec![s(p), J::B(l)])).collect())
    }

    fn callee(&mut self, body: &Body<'tcx>, func: &Operand<'tcx>, te: TypingEnv<'tcx>, o: &mut Vec<(String, J)>) {
        let tcx = self.tcx;
        if let Operand::Constant(c) = func {
            if let ty::FnDef(did, args) = c.const_.ty().kind() {
                o.push(("fn".into(), s(self.path(*did))));
                o.push(("crate".into(), s(self.crate_of(*did))));
                let (targs, clos) = self.generic_parts(args);
                o.push(("targs".into(), J::A(targs)));
                o.push(("clos".into(), J::A(clos)));
                // trait / impl container self type
                if let Some(tr) = tcx.trait_of_assoc(*did) {
                    o.push(("trait".into(), s(self.path(tr))));
                }
                let mut res_did = *did;
                if let Ok(Some(inst)) = Instance::try_resolve(tcx, te, *did, args) {
                    res_did = inst.def_id();
                    if let ty::InstanceKind::Item(_) = inst.def {
                    } else {
                        o.push(("shim".into(), s(format!("{:?}", inst.def).split('(').next().unwrap_or("").to_string())));
                    }
                }
                o.push(("res".into(), s(self.path(res_did))));
                o.push(("res_crate".into(), s(self.crate_of(res_did))));
                o.push(("res_local".into(), J::B(res_did.is_local())));
                if let Some(imp) = tcx.impl_of_assoc(res_did) {
                    let st = tcx.type_of(imp).instantiate_identity().skip_norm_wip();
                    o.push(("impl_self".into(), s(self.tys(st))));
                }
                return;
            }
        }
        o.push(("fnptr".into(), self.operand(body, func, te)));
    }

    fn place(&mut self, body: &Body<'tcx>, place: Place<'tcx>) -> J {
        let tcx = self.tcx;
        if place.projection.is_empty() {
            return i(place.local.as_usize());
        }
        let mut pty = PlaceTy::from_ty(body.local_decls[place.local].ty);
        let mut projs = vec![];
        for elem in place.projection.iter() {
            match elem {
                ProjectionElem::Deref => projs.push(s("*")),
                ProjectionElem::Field(f, fty) => {
                    let (owner, name) = self.field_name(pty, f);
                    projs.push(J::A(vec![s("f"), i(f.as_usize()), s(name), s(owner), s(self.tys(fty))]));
                }
                ProjectionElem::Downcast(_, v) => {
                    let name = match pty.ty.kind() {
                        ty::Adt(adt, _) => adt.variant(v).name.to_string(),
                        _ => format!("{}", v.as_usize()),
                    };
                    projs.push(J::A(vec![s("d"), s(name), i(v.as_usize())]));
                }
                ProjectionElem::Index(l) => projs.push(J::A(vec![s("i"), i(l.as_usize())])),
                ProjectionElem::ConstantIndex { offset, from_end, .. } => {
                    projs.push(J::A(vec![s("ci"), i(offset), J::B(from_end)]))
                }
                ProjectionElem::Subslice { from, to, from_end } => {
                    projs.push(J::A(vec![s("sub"), i(from), i(to), J::B(from_end)]))
                }
                _ => projs.push(s("oc")),
            }
            pty = pty.projection_ty(tcx, elem);
        }
        J::A(vec![i(place.local.as_usize()), J::A(projs)])
    }

    fn field_name(&mut self, pty: PlaceTy<'tcx>, f: FieldIdx) -> (String, String) {
        let tcx = self.tcx;
        match pty.ty.kind() {
            ty::Adt(adt, _) => {
                let v: VariantIdx = pty.variant_index.unwrap_or(FIRST_VARIANT);
                let vd = adt.variant(v);
                let mut owner = self.path(adt.did());
                self.note_adt(adt.did());
                if adt.is_enum() {
                    owner = format!("{}::{}", owner, vd.name);
                }
                let name = vd.fields.get(f).map(|fd| fd.name.to_string()).unwrap_or_else(|| format!("{}", f.as_usize()));
                (owner, name)
            }
            ty::Closure(d, _) | ty::Coroutine(d, _) | ty::CoroutineClosure(d, _) => {
                let name = d
                    .as_local()
                    .and_then(|ld| tcx.closure_captures(ld).get(f.as_usize()).map(|c| c.to_string(tcx)))
                    .unwrap_or_else(|| format!("{}", f.as_usize()));
                (format!("closure:{}", self.path(*d)), name)
            }
            ty::Tuple(_) => ("tuple".into(), format!("{}", f.as_usize())),
            _ => ("?".into(), format!("{}", f.as_usize())),
        }
    }

    fn operand(&mut self, body: &Body<'tcx>, op: &Operand<'tcx>, te: TypingEnv<'tcx>) -> J {
        match op {
            Operand::Copy(p) => J::A(vec![s("cp"), self.place(body, *p)]),
            Operand::Move(p) => J::A(vec![s("mv"), self.place(body, *p)]),
            Operand::Constant(c) => J::A(vec![s("c"), self.constant(c, te)]),
            #[allow(unreachable_patterns)]
            _ => J::A(vec![s("c"), J::O(vec![("t".into(), s("runtime-checks"))])]),
        }
    }

    fn constant(&mut self, c: &mir::ConstOperand<'tcx>, te: TypingEnv<'tcx>) -> J {
        let tcx = self.tcx;
        let ty = c.const_.ty();
        let mut o = vec![("t".to_string(), s(self.tys(ty)))];
        match ty.kind() {
            ty::FnDef(did, args) => {
                o.push(("fn".into(), s(self.path(*did))));
                o.push(("local".into(), J::B(did.is_local())));
                let mut res = *did;
                if let Ok(Some(inst)) = Instance::try_resolve(tcx, te, *did, args) {
                    res = inst.def_id();
                }
                o.push(("res".into(), s(self.path(res))));
                o.push(("res_local".into(), J::B(res.is_local())));
                return J::O(o);
            }
            _ => {}
        }
        match c.const_ {
            Const::Unevaluated(uv, _) => {
                if let Some(p) = uv.promoted {
                    o.push(("promoted".into(), i(p.as_usize())));
                    o.push(("of".into(), s(self.path(uv.def))));
                } else {
                    o.push(("named".into(), s(self.path(uv.def))));
                }
            }
            _ => {}
        }
        // literal value
        let is_str = matches!(ty.kind(), ty::Ref(_, inner, _) if inner.is_str());
        if is_str {
            let cv = match c.const_ {
                Const::Val(cv, _) => Some(cv),
                other => other.eval(tcx, te, rustc_span::DUMMY_SP).ok(),
            };
            if let Some(cv) = cv {
                if let ConstValue::Slice { .. } | ConstValue::Indirect { .. } = cv {
                    if let Some(bytes) = cv.try_get_slice_bytes_for_diagnostics(tcx) {
                        o.push(("s".into(), s(String::from_utf8_lossy(bytes).to_string())));
                    }
                }
            }
        } else if let ty::Ref(_, inner, _) = ty.kind() {
            // &[u8; N]: byte templates of format_args!
            if let ty::Array(et, _) = inner.kind() {
                if *et == tcx.types.u8 {
                    let cv = match c.const_ {
                        Const::Val(cv, _) => Some(cv),
                        other => other.eval(tcx, te, rustc_span::DUMMY_SP).ok(),
                    };
                    if let Some(ConstValue::Scalar(rustc_middle::mir::interpret::Scalar::Ptr(ptr, _))) = cv {
                        let (prov, off) = ptr.prov_and_relative_offset();
                        if let Some(rustc_middle::mir::interpret::GlobalAlloc::Memory(a)) = tcx.try_get_global_alloc(prov.alloc_id()) {
                            let a = a.inner();
                            let start = off.bytes_usize();
                            let end = a.size().bytes_usize();
                            if start <= end {
                                let bytes = a.inspect_with_uninit_and_ptr_outside_interpreter(start..end);
                                o.push(("b".into(), s(bytes.iter().map(|b| *b as char).collect::<String>())));
                            }
                        }
                    }
                }
            }
        } else if ty.is_integral() || ty.is_bool() || ty.is_char() {
            if let Some(si) = c.const_.try_eval_scalar_int(tcx, te) {
                let bits = si.to_bits_unchecked();
                o.push(("v".into(), s(format!("{}", bits))));
            }
        }
        J::O(o)
    }

    fn rvalue(&mut self, body: &Body<'tcx>, rv: &Rvalue<'tcx>, te: TypingEnv<'tcx>) -> J {
        match rv {
            Rvalue::Use(op, _) => J::A(vec![s("use"), self.operand(body, op, te)]),
            Rvalue::Repeat(op, _) => J::A(vec![s("repeat"), self.operand(body, op, te)]),
            Rvalue::Ref(_, bk, p) => {
                let k = match bk {
                    BorrowKind::Shared => "shared",
                    BorrowKind::Fake(_) => "fake",
                    BorrowKind::Mut { .. } => "mut",
                };
                J::A(vec![s("ref"), s(k), self.place(body, *p)])
            }
            Rvalue::ThreadLocalRef(d) => J::A(vec![s("tls"), s(self.path(*d))]),
            Rvalue::RawPtr(_, p) => J::A(vec![s("rawptr"), self.place(body, *p)]),
            Rvalue::Cast(k, op, ty) => {
                let ks = match k {
                    CastKind::IntToInt => "IntToInt".to_string(),
                    other => format!("{:?}", other).split('(').next().unwrap_or("").to_string(),
                };
                J::A(vec![s("cast"), s(ks), self.operand(body, op, te), s(self.tys(*ty))])
            }
            Rvalue::BinaryOp(op, ab) => {
                let (a, b) = &**ab;
                J::A(vec![s("bin"), s(format!("{:?}", op)), self.operand(body, a, te), self.operand(body, b, te)])
            }
            Rvalue::UnaryOp(op, a) => J::A(vec![s("un"), s(format!("{:?}", op)), self.operand(body, a, te)]),
            Rvalue::Discriminant(p) => J::A(vec![s("discr"), self.place(body, *p)]),
            Rvalue::Aggregate(k, ops) => {
                let kind = match &**k {
                    AggregateKind::Array(_) => J::A(vec![s("array")]),
                    AggregateKind::Tuple => J::A(vec![s("tuple")]),
                    AggregateKind::Adt(did, v, _, _, _) => {
                        let def = self.tcx.adt_def(*did);
                        self.note_adt(*did);
                        let vd = def.variant(*v);
                        let fnames: Vec<J> = vd.fields.iter().map(|f| s(f.name.to_string())).collect();
                        J::A(vec![s("adt"), s(self.path(*did)), s(vd.name.to_string()), J::A(fnames)])
                    }
                    AggregateKind::Closure(did, _) => J::A(vec![s("closure"), s(self.path(*did))]),
                    AggregateKind::Coroutine(did, _) => J::A(vec![s("coroutine"), s(self.path(*did))]),
                    AggregateKind::CoroutineClosure(did, _) => J::A(vec![s("coroutine_closure"), s(self.path(*did))]),
                    AggregateKind::RawPtr(..) => J::A(vec![s("rawptr")]),
                };
                J::A(vec![s("agg"), kind, J::A(ops.iter().map(|o| self.operand(body, o, te)).collect())])
            }
            Rvalue::CopyForDeref(p) => J::A(vec![s("use"), J::A(vec![s("cp"), self.place(body, *p)])]),
            Rvalue::WrapUnsafeBinder(op, _) => J::A(vec![s("use"), self.operand(body, op, te)]),
        }
    }
}
