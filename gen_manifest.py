#!/usr/bin/env python3
"""Regenerates MANIFEST.json from plsa/manifest_data.py (kept in one place so it stays valid)."""
import json, os, sys
sys.path.insert(0, os.path.dirname(os.path.abspath(__file__)))
from plsa.manifest_data import CHECKS, NOT_APPLICABLE, NOTES

props = [json.loads(l)["id"] for l in open(os.path.join(os.path.dirname(os.path.abspath(__file__)), "properties.jsonl"))]
checks = []


def rules_of(pid, _ctx={}):
    """ids and texts of the rules the registered check of `pid` evaluates (taken from a run on the current tree, so the
    manifest cannot drift from what the check does)"""
    from plsa import extract
    from plsa.check import run_property, Ctx
    from plsa.core import load_crates
    if "ctx" not in _ctx:
        facts, _ = extract.extract()
        _ctx["ctx"] = Ctx(load_crates(facts), "quick", extract.repo_root())
    rc, info = run_property(pid, "quick", write_evidence=False, quiet=True, ctx=_ctx["ctx"])
    seen, out = set(), []
    for r in info["results"]:
        if r.rule not in seen:
            seen.add(r.rule)
            out.append((r.rule, r.text))
    return out


for pid in props:
    if pid in CHECKS:
        c = dict(CHECKS[pid])
        rl = rules_of(pid)
        c["level_text"] = c["level_text"] + " Clauses decided by this check (each a necessary condition of the property; rule texts in the evidence file): " + \
            "; ".join("%s -- %s" % (rid, txt.split(": ")[0].split(". ")[0][:160]) for rid, txt in rl) + "."
        c["technique"] = c["technique"] + " [rules: %s]" % ", ".join(rid for rid, _ in rl)
        checks.append({
            "property_id": pid,
            "quick_cmd": "python3 -m plsa.check %s --tier quick" % pid,
            "thorough_cmd": "python3 -m plsa.check %s --tier thorough" % pid,
            "evidence_file": "/verif/evidence/%s.json" % pid,
            "replay_cmd_template": "cat {path}",
            "engine": "plsa",
            "level_claimed": {"category": "other", "text": c["level_text"], "design_ref": c["design_ref"]},
            "level_note": c["level_note"],
            "technique": c["technique"],
        })
na = [{"property_id": p, "reason": NOT_APPLICABLE[p]} for p in props if p not in CHECKS]
assert all(p in NOT_APPLICABLE for p in props if p not in CHECKS), "every unclaimed property needs a reason"
m = {
    "version": 1,
    "setup_cmd": "python3 -m plsa.setup",
    "hooks": {
        "guard": "pytest_language_server_verif",
        "enable": "none needed: the analysis reads the unmodified source (no hooks are compiled in)",
        "baseline_off_cmd": "cd /repo && cargo test --workspace --no-fail-fast --offline",
        "source_commits": [],
        "add_only": True,
    },
    "engines": [{
        "name": "plsa",
        "path": "/verif/driver (rustc_private MIR fact extractor) + /verif/plsa (rule layer)",
        "serves_properties": sorted(CHECKS),
        "kind_free_text": "static analysis: MIR-level dataflow / call-graph / dominance rules specific to this repository",
    }],
    "checks": checks,
    "not_applicable": na,
    "notes": NOTES,
}
json.dump(m, open(os.path.join(os.path.dirname(os.path.abspath(__file__)), "MANIFEST.json"), "w"), indent=1)
print("MANIFEST.json: %d checks, %d not applicable" % (len(checks), len(na)))
