"""Self-test variants: one small edit of /repo's source that still compiles and breaks one rule instance.
Each entry: property, name, edits [(relative path, old text (must occur exactly once), new text)], expect (regex that must
match at least one NEW violation key of that property's check on the edited tree).
Applied to a scratch copy by the thorough tier (plsa/thorough.py); /repo itself is never touched.
If an `old` text no longer occurs exactly once (the tree was changed) the variant is reported as not applicable."""

V = []


def v(prop, name, edits, expect, note=""):
    V.append({"prop": prop, "name": name, "edits": edits, "expect": expect, "note": note})


# ----------------------------------------------------------------------------------------------- C12
v("C12", "hold_get_across_insert", [("src/fixtures/mod.rs",
  "        if let Some(cached) = self.canonical_path_cache.get(&path) {\n            return cached.value().clone();\n        }\n",
  "        let cached = self.canonical_path_cache.get(&path);\n        if let Some(ref c) = cached {\n            return c.value().clone();\n        }\n")],
  r"R1a\|.*get_canonical_path\|.*canonical_path_cache:S->X")
v("C12", "iter_then_remove", [("src/fixtures/mod.rs",
  "            let to_remove: Vec<PathBuf> = self\n                .file_cache\n                .iter()\n                .take(to_remove_count)\n                .map(|entry| entry.key().clone())\n                .collect();\n\n            for path in to_remove {\n                self.file_cache.remove(&path);",
  "            for entry in self.file_cache.iter().take(to_remove_count) {\n                let path = entry.key().clone();\n                self.file_cache.remove(&path);")],
  r"R1a\|.*evict_cache_if_needed\|.*file_cache:S->X")
v("C12", "mutex_order_swap", [("src/fixtures/mod.rs",
  "        let installs = self.editable_install_roots.lock().unwrap();\n        let workspace = self.workspace_root.lock().unwrap();\n",
  "        let workspace = self.workspace_root.lock().unwrap();\n        let installs = self.editable_install_roots.lock().unwrap();\n")],
  r"R1b\|cycle\|.*editable_install_roots.*workspace_root")
v("C12", "refmut_across_remove_if", [("src/fixtures/analyzer.rs",
  "            let should_remove = {\n                // Get mutable reference, modify in place, check if empty\n                if let Some(mut defs) = self.definitions.get_mut(&fixture_name) {\n                    defs.retain(|def| def.file_path != *file_path);\n                    defs.is_empty()\n                } else {\n                    false\n                }\n            }; // RefMut dropped here - safe to call remove_if now\n\n            // Step 3: Remove empty entries atomically\n            if should_remove {\n                // Use remove_if to ensure we only remove if still empty\n                // (another thread might have added a definition)\n                self.definitions\n                    .remove_if(&fixture_name, |_, defs| defs.is_empty());\n            }",
  "            if let Some(mut defs) = self.definitions.get_mut(&fixture_name) {\n                defs.retain(|def| def.file_path != *file_path);\n                if defs.is_empty() {\n                    self.definitions\n                        .remove_if(&fixture_name, |_, defs| defs.is_empty());\n                }\n            }")],
  r"R1a\|.*cleanup_definitions_for_file\|.*definitions:X->X")
v("C12", "no_visited_test", [("src/fixtures/imports.rs",
  "        if visited.contains(&canonical_path) {\n            debug!(\"Circular import detected for {:?}, skipping\", file_path);\n            return HashSet::new();\n        }\n        visited.insert(canonical_path.clone());",
  "        visited.insert(canonical_path.clone());")],
  r"R1d\|.*compute_imported_fixtures\+.*get_imported_fixtures")
v("C12", "guard_across_await", [("src/providers/diagnostics.rs",
  "        let mut diagnostics: Vec<Diagnostic> = Vec::new();\n\n        // Get config",
  "        let mut diagnostics: Vec<Diagnostic> = Vec::new();\n        let _cached_text = self.fixture_db.file_cache.get(file_path);\n\n        // Get config")],
  r"R1c\|.*publish_diagnostics_for_file.*file_cache:S")

v("C12", "conftest_walk_continue_before_parent_step", [("src/fixtures/resolver.rs",
  "            // Then check if the conftest imports this fixture\n            // Check both filesystem and file cache for conftest existence\n            let conftest_in_cache = self.file_cache.contains_key(&conftest_path);\n            if (conftest_path.exists() || conftest_in_cache)",
  "            // Then check if the conftest imports this fixture\n            // Check both filesystem and file cache for conftest existence\n            let conftest_in_cache = self.file_cache.contains_key(&conftest_path);\n            if conftest_in_cache && self.plugin_fixture_files.contains_key(&conftest_path) {\n                continue;\n            }\n            if (conftest_path.exists() || conftest_in_cache)")],
  r"R1e\|.*find_closest_definition_with_filter\|parent-walk")
v("C12", "decorator_scan_continue_without_decrement", [("src/fixtures/resolver.rs",
  "                // Another decorator — keep scanning upward",
  "                if trimmed.starts_with(\"@@\") {\n                    continue;\n                }\n                // Another decorator — keep scanning upward")],
  r"R1e\|.*has_fixture_decorator_above\|counter")
v("C12", "cycle_dfs_push_without_visited_test", [("src/fixtures/resolver.rs",
  "                    } else if !visited.contains(dep) {\n                        // Explore this dependency\n",
  "                    } else {\n                        // Explore this dependency\n")],
  r"R1e\|.*compute_fixture_cycles\|worklist")
v("C11", "cycle_dfs_visited_shrinks", [("src/fixtures/resolver.rs",
  "                    // Done with this node\n                    visited.insert(current.clone());\n                    rec_stack.remove(&current);",
  "                    // Done with this node\n                    visited.insert(current.clone());\n                    if path.len() > 64 {\n                        visited.remove(&path[0]);\n                    }\n                    rec_stack.remove(&current);")],
  r"R1e\|.*compute_fixture_cycles\|worklist")

# ----------------------------------------------------------------------------------------------- C09
v("C09", "remove_if_to_remove", [("src/fixtures/analyzer.rs",
  "                self.definitions\n                    .remove_if(&fixture_name, |_, defs| defs.is_empty());",
  "                self.definitions.remove(&fixture_name);")],
  r"R2a\|.*cleanup_definitions_for_file\|definitions\.remove")
v("C09", "entry_push_to_get_clone_insert", [("src/fixtures/analyzer.rs",
  "        self.definitions\n            .entry(fixture_name.clone())\n            .or_default()\n            .push(definition);",
  "        let mut all = self\n            .definitions\n            .get(&fixture_name)\n            .map(|d| d.clone())\n            .unwrap_or_default();\n        all.push(definition);\n        self.definitions.insert(fixture_name.clone(), all);")],
  r"R2a\|.*record_fixture_definition\|definitions\.insert")
v("C09", "retain_ignores_file", [("src/fixtures/analyzer.rs",
  "                    defs.retain(|def| def.file_path != *file_path);",
  "                    defs.retain(|def| def.line != 0);")],
  r"R2c\|.*cleanup_definitions_for_file")
v("C09", "retain_polarity_flipped", [("src/fixtures/analyzer.rs",
  "                        usages.retain(|(path, _)| path != file_path);",
  "                        usages.retain(|(path, _)| path == file_path);")],
  r"R2c\|.*cleanup_usages_for_file")
v("C09", "remove_if_always", [("src/fixtures/analyzer.rs",
  "                self.usage_by_fixture\n                    .remove_if(&fixture_name, |_, usages| usages.is_empty());",
  "                self.usage_by_fixture\n                    .remove_if(&fixture_name, |_, usages| usages.len() < 2);")],
  r"R2b\|.*cleanup_usages_for_file")
v("C09", "foreign_key_write", [("src/fixtures/analyzer.rs",
  "        // Clear previous imports for this file\n        self.imports.remove(&file_path);",
  "        // Clear previous imports for this file\n        self.imports.remove(&file_path);\n        if let Some(parent) = file_path.parent() {\n            self.imports.remove(&parent.join(\"conftest.py\"));\n        }")],
  r"R2d\|.*analyze_file_internal\|imports\.remove")

# ----------------------------------------------------------------------------------------------- C06
v("C06", "undeclared_not_cleared", [("src/fixtures/analyzer.rs",
  "        // Clear previous undeclared fixtures for this file\n        self.undeclared_fixtures.remove(&file_path);\n",
  "")],
  r"R3a\|.*analyze_file_internal\|undeclared_fixtures")
v("C06", "usages_written_before_parse", [("src/fixtures/analyzer.rs",
  "        // Parse the Python code\n        let parsed = match parse(content, Mode::Module, \"\") {",
  "        self.usages.remove(&file_path);\n        // Parse the Python code\n        let parsed = match parse(content, Mode::Module, \"\") {")],
  r"R3b\|.*analyze_file_internal\|remove\|usages")
v("C06", "did_change_uses_fresh", [("src/fixtures/analyzer.rs",
  "    pub fn analyze_file(&self, file_path: PathBuf, content: &str) {\n        self.analyze_file_internal(file_path, content, true);",
  "    pub fn analyze_file(&self, file_path: PathBuf, content: &str) {\n        self.analyze_file_internal(file_path, content, content.is_empty());")],
  r"R3e\|.*did_(open|change).*reaches-non-cleaning")
v("C06", "usage_cleanup_conditional", [("src/fixtures/analyzer.rs",
  "        self.cleanup_usages_for_file(&file_path);\n        self.usages.remove(&file_path);\n",
  "        if cleanup_previous {\n            self.cleanup_usages_for_file(&file_path);\n            self.usages.remove(&file_path);\n        }\n")],
  r"R3a\|.*analyze_file_internal\|usage(s|_by_fixture)\|conditional")

# ----------------------------------------------------------------------------------------------- C04
v("C04", "second_usage_writer", [("src/fixtures/analyzer.rs",
  "        // Add to reverse index for efficient reference lookups\n        self.usage_by_fixture\n            .entry(fixture_name)\n            .or_default()\n            .push((file_path_buf, usage));",
  "        // Add to reverse index for efficient reference lookups\n        if line > 0 {\n            self.usage_by_fixture\n                .entry(fixture_name)\n                .or_default()\n                .push((file_path_buf, usage));\n        }")],
  r"R3c\|.*record_fixture_usage\|append-pair")
v("C04", "reverse_index_not_cleared", [("src/fixtures/analyzer.rs",
  "        self.cleanup_usages_for_file(&file_path);\n        self.usages.remove(&file_path);",
  "        self.usages.remove(&file_path);")],
  r"R3c\|.*analyze_file_internal\|remove-pair")

# ----------------------------------------------------------------------------------------------- C10
v("C10", "reanalysis_reads_disk", [("src/fixtures/scanner.rs",
  "                if let Some(content) = self.get_file_content(module_path) {\n                    debug!(\"Re-analyzing as plugin: {:?}\", module_path);",
  "                if let Some(content) = std::fs::read_to_string(module_path)\n                    .ok()\n                    .map(std::sync::Arc::new)\n                    .or_else(|| self.get_file_content(module_path))\n                {\n                    debug!(\"Re-analyzing as plugin: {:?}\", module_path);")],
  r"R3g\|")
v("C10", "handler_uses_fresh", [("src/fixtures/analyzer.rs",
  "    pub fn analyze_file(&self, file_path: PathBuf, content: &str) {\n        self.analyze_file_internal(file_path, content, true);",
  "    pub fn analyze_file(&self, file_path: PathBuf, content: &str) {\n        self.analyze_file_internal(file_path, content, false);")],
  r"R3e\|.*reaches-non-cleaning")

# ----------------------------------------------------------------------------------------------- C07
v("C07", "no_bump_on_record", [("src/fixtures/analyzer.rs",
  "        // Invalidate cycle cache since definitions changed\n        self.invalidate_cycle_cache();\n    }",
  "    }"),
  ("src/fixtures/analyzer.rs",
   "            self.cleanup_definitions_for_file(&file_path);\n            // Removed definitions must invalidate version-stamped caches as well\n            // (an edit that only deletes fixtures records no new definition).\n            self.invalidate_cycle_cache();",
   "            self.cleanup_definitions_for_file(&file_path);")],
  r"R3d-i\|")
v("C07", "hit_ignores_content_hash", [("src/fixtures/imports.rs",
  "            if *cached_content_hash == content_hash && *cached_version == current_version {",
  "            if *cached_version == current_version {")],
  r"R3d-hit\|imported_fixtures_cache\|stamp0")
v("C07", "hit_ignores_version", [("src/fixtures/resolver.rs",
  "            if *cached_version == current_version {\n                // Return cloned Vec from Arc (cheap reference count increment)",
  "            if *cached_version <= current_version {\n                // Return cloned Vec from Arc (cheap reference count increment)")],
  r"R3d-hit\|available_fixtures_cache\|stamp0")
v("C07", "membership_only_gate", [("src/fixtures/resolver.rs",
  "            if (conftest_path.exists() || conftest_in_cache)\n                && self.is_fixture_imported_in_file(fixture_name, &conftest_path)",
  "            if conftest_in_cache && self.is_fixture_imported_in_file(fixture_name, &conftest_path)")],
  r"R3d-iv\|.*find_closest_definition_with_filter\|file_cache\.contains_key")

# ----------------------------------------------------------------------------------------------- C03
v("C03", "yield_visitor_drops_while", [("src/fixtures/analyzer.rs",
  "            Stmt::While(while_stmt) => {\n                for s in &while_stmt.body {\n                    if let Some(line) = self.find_yield_in_stmt(s, line_index) {\n                        return Some(line);\n                    }\n                }\n                for s in &while_stmt.orelse {\n                    if let Some(line) = self.find_yield_in_stmt(s, line_index) {\n                        return Some(line);\n                    }\n                }\n                None\n            }\n",
  "")],
  r"R6a\|.*find_yield_in_stmt\|lacks StmtWhile\.(body|orelse)")
v("C03", "both_drop_for_orelse", [("src/fixtures/analyzer.rs",
  "                for s in &for_stmt.orelse {\n                    if let Some(line) = self.find_yield_in_stmt(s, line_index) {\n                        return Some(line);\n                    }\n                }\n                None\n            }\n            Stmt::AsyncFor(for_stmt) => {",
  "                None\n            }\n            Stmt::AsyncFor(for_stmt) => {"),
  ("src/fixtures/docstring.rs",
   "                Stmt::For(for_stmt) => {\n                    if self.contains_yield(&for_stmt.body) || self.contains_yield(&for_stmt.orelse)\n                    {",
   "                Stmt::For(for_stmt) => {\n                    if self.contains_yield(&for_stmt.body) {")],
  r"R6b\|.*lacks StmtFor\.orelse")

# ----------------------------------------------------------------------------------------------- C17
v("C17", "names_visitor_drops_with", [("src/fixtures/undeclared.rs",
  "            Stmt::With(with_stmt) => {\n                let line =",
  "            Stmt::Pass(_) if false => {}\n            Stmt::With(with_stmt) if false => {\n                let line =")],
  r"R6b\|.*collect_local_variables\|lacks StmtWith\.body")
v("C17", "kwonly_not_enumerated", [("src/fixtures/analyzer.rs",
  "            .chain(args.args.iter())\n            .chain(args.kwonlyargs.iter())",
  "            .chain(args.args.iter())")],
  r"R6c\|.*all_args\|Arguments\.kwonlyargs")

# ----------------------------------------------------------------------------------------------- C01 / C02 / C05
v("C01", "conftest_stage_by_name_only", [("src/fixtures/resolver.rs",
  "                if def.file_path == conftest_path && filter(def) {",
  "                if def.line > 0 && filter(def) {")],
  r"R5a\|.*find_closest_definition_with_filter\|loop:early-exit\|fields=line")
v("C01", "third_party_stage_unguarded", [("src/fixtures/resolver.rs",
  "            if def.is_third_party && filter(def) {",
  "            if filter(def) {")],
  r"R5a\|.*find_closest_definition_with_filter\|loop:early-exit\|fields=-")
v("C02", "plugin_stage_ignores_filter", [("src/fixtures/resolver.rs",
  "            if def.is_plugin && !def.is_third_party && filter(def) {",
  "            if def.is_plugin && !def.is_third_party {")],
  r"R5b\|.*find_closest_definition_with_filter\|loop:early-exit")
v("C02", "references_never_exclude", [("src/fixtures/resolver.rs",
  "                    self.find_closest_definition_excluding(\n                        file_path,\n                        &usage.name,\n                        Some(current_def),\n                    )\n                } else {\n                    self.find_closest_definition(file_path, &usage.name)\n                }",
  "                    self.find_closest_definition(file_path, &usage.name)\n                } else {\n                    self.find_closest_definition(file_path, &usage.name)\n                }")],
  r"R5c\|.*find_references_for_definition\|(unpaired|misplaced)")
v("C05", "navigation_takes_first", [("src/fixtures/resolver.rs",
  "            .max_by_key(|def| def.line)",
  "            .min_by_key(|def| def.line)")],
  r"R5d\|.*same-file stage is min_by_key")
v("C05", "sibling_same_file_by_name_only", [("src/fixtures/resolver.rs",
  "        if let Some(def) = definitions.iter().find(|d| d.file_path == file_path) {\n            return Some(def.clone());\n        }\n\n        // Priority 2: conftest.py in parent directories (closest first)",
  "        if let Some(def) = definitions.iter().find(|d| d.line == 1) {\n            return Some(def.clone());\n        }\n\n        // Priority 2: conftest.py in parent directories (closest first)")],
  r"R5a\|.*resolve_fixture_for_file\|call:find\|fields=line")

# ----------------------------------------------------------------------------------------------- C08 / C16 / C20
v("C08", "unused_not_sorted", [("src/fixtures/cli.rs",
  "        unused.sort_by(",
  "        let _ = &unused;\n        Vec::<(PathBuf, String)>::new().sort_by(")],
  r"R4a\|.*get_unused_fixtures")
v("C08", "available_not_sorted", [("src/fixtures/resolver.rs",
  "        available_fixtures.sort_by(|a, b| a.name.cmp(&b.name));\n",
  "")],
  r"R4a\|.*(compute|get)_available_fixtures")
v("C08", "references_not_sorted", [("src/fixtures/resolver.rs",
  "        all_references.sort_by(|a, b| {\n            (&a.file_path, a.line, a.start_char).cmp(&(&b.file_path, b.line, b.start_char))\n        });\n",
  "")],
  r"R4a\|.*find_fixture_references")
v("C16", "scope_enum_reordered", [("src/fixtures/types.rs",
  "    Module = 2,\n    Package = 3,",
  "    Package = 2,\n    Module = 3,")],
  r"R8b\|order")
v("C16", "mismatch_direction_flipped", [("src/fixtures/resolver.rs",
  "                        if fixture_def.scope > dep_def.scope {",
  "                        if fixture_def.scope < dep_def.scope {")],
  r"R8b\|mismatch-direction")
v("C16", "cycles_hash_order_again", [("src/fixtures/resolver.rs",
  "        let mut start_fixtures: Vec<&String> = dep_graph.keys().collect();\n        start_fixtures.sort();\n",
  "        let start_fixtures: Vec<&String> = dep_graph.keys().collect();\n")],
  r"R4a\|.*(compute|detect)_fixture_cycles")
v("C20", "exit_one_before_emptiness_test", [("src/main.rs",
  "    if unused.is_empty() {\n        if format == \"json\" {\n            println!(\"[]\");",
  "    if unused.len() > 1000 {\n        std::process::exit(1);\n    }\n    if unused.is_empty() {\n        if format == \"json\" {\n            println!(\"[]\");")],
  r"R11b\|exit\(1\)")
v("C20", "json_branch_prints_text", [("src/main.rs",
  "        if format == \"json\" {\n            println!(\"[]\");",
  "        if format == \"json\" {\n            println!(\"none\");")],
  r"R11d\|print")

# ----------------------------------------------------------------------------------------------- C18 / C19
v("C18", "push_without_seen_insert", [("src/fixtures/resolver.rs",
  "                if def.is_third_party && !seen_names.contains(fixture_name.as_str()) {\n                    available_fixtures.push(def.clone());\n                    seen_names.insert(fixture_name.clone());",
  "                if def.is_third_party && !seen_names.contains(fixture_name.as_str()) {\n                    available_fixtures.push(def.clone());")],
  r"R11c\|")
v("C18", "fallback_forgets_asyncio", [("src/fixtures/resolver.rs",
  "                    || trimmed.contains(\"pytest_asyncio.fixture\")\n",
  "")],
  r"R8c\|.*pytest_asyncio")
v("C19", "gate_literal_renamed", [("src/providers/diagnostics.rs",
  "        if !config.is_diagnostic_disabled(\"scope-mismatch\") {",
  "        if !config.is_diagnostic_disabled(\"scope_mismatch\") {")],
  r"R8a\|")
v("C19", "did_open_skips_publish", [("src/main.rs",
  "self.publish_diagnostics_for_file(&uri, &file_path)",
  "if false { self.publish_diagnostics_for_file(&uri, &file_path).await; } async {}")],
  r"R11a\|", note="edits the first occurrence only if unique; otherwise not applicable")
v("C19", "collector_outside_gate", [("src/providers/diagnostics.rs",
  "        if !config.is_diagnostic_disabled(\"circular-dependency\") {\n            let cycles = self.fixture_db.detect_fixture_cycles_in_file(file_path);",
  "        let cycles = self.fixture_db.detect_fixture_cycles_in_file(file_path);\n        if !config.is_diagnostic_disabled(\"circular-dependency\") {")],
  r"R8a\|collector")

# ----------------------------------------------------------------------------------------------- C11 / C13 / C14 / C15
v("C11", "slice_at_stored_column", [("src/fixtures/string_utils.rs",
  "        if let Some(def_pos) = line_content.find(\"def \") {\n            let after_def = &line_content[def_pos + 4..];",
  "        if let Some(def_pos) = line_content.find(\"def \") {\n            let after_def = &line_content[(def_pos + line).min(line_content.len())..];")],
  r"R7a\|.*find_function_name_position")
v("C11", "prefix_guard_removed", [("src/fixtures/scanner.rs",
  "                        rest.starts_with('-')\n                            && rest[1..].starts_with(|ch: char| ch.is_ascii_digit())",
  "                        !rest.is_empty()\n                            && rest[1..].starts_with(|ch: char| ch.is_ascii_digit())")],
  r"R7a\|.*RangeFrom")
v("C11", "u32_line_plus_one_again", [("src/providers/mod.rs",
  "        line as usize + 1\n",
  "        (line + 1) as usize\n")],
  r"R7b\|.*lsp_line_to_internal")
v("C11", "new_unwrap", [("src/fixtures/mod.rs",
  "        let canonical = path.canonicalize().unwrap_or_else(|_| {\n            debug!(\"Could not canonicalize path {:?}, using as-is\", path);\n            path.clone()\n        });",
  "        let canonical = path.canonicalize().unwrap();")],
  r"R7c\|.*get_canonical_path")
v("C13", "exclude_on_absolute_path", [("src/fixtures/scanner.rs",
  "                if let Ok(relative_path) = path.strip_prefix(root_path) {\n                    let relative_str = relative_path.to_string_lossy();",
  "                if let Ok(relative_path) = path.strip_prefix(\"/\") {\n                    let relative_str = relative_path.to_string_lossy();")],
  r"R10a\|.*strip_prefix base")
v("C13", "components_on_absolute_path", [("src/fixtures/scanner.rs",
  "            let relative_to_root = path.strip_prefix(root_path).unwrap_or(path);\n            if relative_to_root.components().any(|c| {",
  "            if path.components().any(|c| {")],
  r"R10a\|.*components on a path not relative")
v("C13", "seed_filter_diverges", [("src/fixtures/scanner.rs",
  "                        n == \"conftest.py\"\n                            || (n.starts_with(\"test_\") && n.ends_with(\".py\"))\n                            || n.ends_with(\"_test.py\")",
  "                        n == \"conftest.py\"\n                            || (n.starts_with(\"test_\") && n.ends_with(\".py\"))\n                            || n.ends_with(\"_tests.py\")")],
  r"R10b\|")
v("C14", "assignment_fixture_not_editable_third_party", [("src/fixtures/analyzer.rs",
  "                            let is_third_party = self.is_in_site_packages(file_path)\n                                || self.is_editable_install_third_party(file_path);",
  "                            let is_third_party = self.is_in_site_packages(file_path);")],
  r"R10c\|.*\|is_third_party")
v("C14", "mark_after_analysis", [("src/fixtures/scanner.rs",
  "        self.plugin_fixture_files.insert(canonical.clone(), ());\n\n        // Prefer the cached text (the editor buffer once the document was opened) over the\n        // on-disk text; get_file_content falls back to reading the file.\n        if let Some(content) = self.get_file_content(&canonical) {\n            self.analyze_file(file_path.to_path_buf(), &content);\n        }",
  "        if let Some(content) = self.get_file_content(&canonical) {\n            self.analyze_file(file_path.to_path_buf(), &content);\n        }\n        self.plugin_fixture_files.insert(canonical.clone(), ());")],
  r"R10d\|")
v("C14", "walker_skips_pytest_plugins", [("src/fixtures/imports.rs",
  "            let plugin_modules = self.extract_pytest_plugins(&module.body);",
  "            let plugin_modules: Vec<String> = Vec::new();")],
  r"R10e\|.*compute_imported_fixtures")
v("C15", "new_unconverted_column", [("src/providers/call_hierarchy.rs",
  "        let Some(defs) = self.fixture_db.definitions.get(&item.name) else {",
  "        let _probe = Position { line: 0, character: item.name.len() as u32 };\n        let Some(defs) = self.fixture_db.definitions.get(&item.name) else {")],
  r"R9a\|.*len\(\) -> Position\.character")

v("C01", "same_file_takes_first", [("src/fixtures/resolver.rs",
  "            .max_by_key(|def| def.line)",
  "            .min_by_key(|def| def.line)")],
  r"R5e\|.*same-file stage is min_by_key")

v("C13", "third_party_by_absolute_path", [("src/fixtures/analyzer.rs",
  "            let is_third_party = self.is_in_site_packages(file_path)\n                || self.is_editable_install_third_party(file_path);",
  "            let is_third_party = file_path.to_string_lossy().contains(\"site-packages\")\n                || self.is_editable_install_third_party(file_path);")],
  r"R10a2\|.*visit_stmt\|contains\(site-packages\)")
v("C17", "textual_path_prefix", [("src/fixtures/undeclared.rs",
  "                    && file_path.starts_with(def.file_path.parent().unwrap_or(Path::new(\"\")))",
  "                    && file_path.to_string_lossy().starts_with(def.file_path.parent().unwrap_or(Path::new(\"\")).to_string_lossy().as_ref())")],
  r"R10i\|.*is_available_fixture")
v("C06", "analyze_file_fast_path", [("src/fixtures/analyzer.rs",
  "    pub fn analyze_file(&self, file_path: PathBuf, content: &str) {\n        self.analyze_file_internal(file_path, content, true);",
  "    pub fn analyze_file(&self, file_path: PathBuf, content: &str) {\n        if content.len() == usize::MAX {\n            return;\n        }\n        self.analyze_file_internal(file_path, content, true);")],
  r"R3h\|.*analyze_file")
v("C07", "cheap_fingerprint_stamp", [("src/fixtures/mod.rs",
  "    pub(crate) fn get_line_index(&self, file_path: &Path, content: &str) -> Arc<Vec<usize>> {\n        let content_hash = Self::hash_content(content);",
  "    pub(crate) fn get_line_index(&self, file_path: &Path, content: &str) -> Arc<Vec<usize>> {\n        let content_hash = content.len() as u64;")],
  r"R3d-stamp\|line_index_cache")
v("C19", "uri_to_path_not_canonical", [("src/providers/mod.rs",
  "                Some(path.canonicalize().unwrap_or(path))",
  "                Some(path)")],
  r"R2e\|")
v("C20", "text_loop_skips_entries", [("src/main.rs",
  "            let relative_path = file_path\n                .strip_prefix(&canonical_path)\n                .unwrap_or(file_path)\n                .to_string_lossy();\n            println!(\n                \"  {} {} in {}\",",
  "            let Ok(relative_path) = file_path.strip_prefix(&canonical_path) else {\n                continue;\n            };\n            let relative_path = relative_path.to_string_lossy();\n            println!(\n                \"  {} {} in {}\",")],
  r"R11b\|text loop can skip")
v("C03", "first_indirect_mark_only", [("src/fixtures/analyzer.rs",
  "        for decorator in decorator_list {\n            let indirect_fixtures = decorators::extract_parametrize_indirect_fixtures(decorator);\n            for (fixture_name, range) in indirect_fixtures {",
  "        {\n            let indirect_fixtures = decorator_list\n                .iter()\n                .map(decorators::extract_parametrize_indirect_fixtures)\n                .find(|f| !f.is_empty())\n                .unwrap_or_default();\n            for (fixture_name, range) in indirect_fixtures {")],
  r"R6d\|.*find over extract_parametrize_indirect_fixtures")
v("C12", "fresh_visited_set_on_recursion", [("src/fixtures/imports.rs",
  "                let transitive = self.get_imported_fixtures(&resolved_canonical, visited);\n                imported_fixtures.extend(transitive);\n            }\n        }\n\n        imported_fixtures\n    }",
  "                let mut fresh: HashSet<PathBuf> = HashSet::new();\n                let transitive = self.get_imported_fixtures(&resolved_canonical, &mut fresh);\n                imported_fixtures.extend(transitive);\n            }\n        }\n\n        imported_fixtures\n    }")],
  r"R1d\|.*compute_imported_fixtures\+.*get_imported_fixtures")
