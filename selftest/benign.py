"""Behaviour-preserving edits: every check must stay silent on each of them (false-alarm regression suite).
Same format as spec.py but without `expect`; run by tools/benign.py (all properties) -- not part of the registered tiers
because it measures the checker only."""

B = []


def b(name, edits):
    B.append({"name": name, "edits": edits})


b("rename_local_and_log", [("src/fixtures/analyzer.rs",
   "            let should_remove = {\n                // Get mutable reference, modify in place, check if empty\n                if let Some(mut defs) = self.definitions.get_mut(&fixture_name) {",
   "            let should_remove = {\n                debug!(\"cleaning {}\", fixture_name);\n                // Get mutable reference, modify in place, check if empty\n                if let Some(mut defs) = self.definitions.get_mut(&fixture_name) {")])

b("walk_predicate_helper", [("src/fixtures/scanner.rs",
   "            if let Some(filename) = path.file_name().and_then(|n| n.to_str()) {\n                if filename == \"conftest.py\"\n                    || filename.starts_with(\"test_\") && filename.ends_with(\".py\")\n                    || filename.ends_with(\"_test.py\")\n                {\n                    files_to_process.push(path.to_path_buf());\n                }\n            }",
   "            if let Some(filename) = path.file_name().and_then(|n| n.to_str()) {\n                if Self::is_pytest_file_name(filename) {\n                    files_to_process.push(path.to_path_buf());\n                }\n            }"),
  ("src/fixtures/scanner.rs",
   "                    .map(|n| {\n                        n == \"conftest.py\"\n                            || (n.starts_with(\"test_\") && n.ends_with(\".py\"))\n                            || n.ends_with(\"_test.py\")\n                    })",
   "                    .map(Self::is_pytest_file_name)"),
  ("src/fixtures/scanner.rs",
   "    /// Scan a workspace directory for test files and conftest.py files.\n    /// Optionally accepts exclude patterns from configuration.",
   "    fn is_pytest_file_name(n: &str) -> bool {\n        n == \"conftest.py\" || (n.starts_with(\"test_\") && n.ends_with(\".py\")) || n.ends_with(\"_test.py\")\n    }\n\n    /// Scan a workspace directory for test files and conftest.py files.\n    /// Optionally accepts exclude patterns from configuration.")])

b("cache_hit_as_match", [("src/fixtures/mod.rs",
   "        if let Some(cached) = self.canonical_path_cache.get(&path) {\n            return cached.value().clone();\n        }\n",
   "        match self.canonical_path_cache.get(&path) {\n            Some(cached) => return cached.value().clone(),\n            None => {}\n        }\n")])

b("reorder_independent_clears", [("src/fixtures/analyzer.rs",
   "        // Clear previous undeclared fixtures for this file\n        self.undeclared_fixtures.remove(&file_path);\n\n        // Clear previous imports for this file\n        self.imports.remove(&file_path);",
   "        // Clear previous imports for this file\n        self.imports.remove(&file_path);\n\n        // Clear previous undeclared fixtures for this file\n        self.undeclared_fixtures.remove(&file_path);")])

b("conftest_stage_as_find", [("src/fixtures/resolver.rs",
   "            for def in definitions.iter() {\n                if def.file_path == conftest_path && filter(def) {\n                    info!(\n                        \"Found fixture {} in conftest.py: {:?}\",\n                        fixture_name, conftest_path\n                    );\n                    return Some(def.clone());\n                }\n            }",
   "            if let Some(def) = definitions\n                .iter()\n                .find(|def| def.file_path == conftest_path && filter(def))\n            {\n                info!(\n                    \"Found fixture {} in conftest.py: {:?}\",\n                    fixture_name, conftest_path\n                );\n                return Some(def.clone());\n            }")])

b("rename_cleanup_function", [("src/fixtures/analyzer.rs",
   "        self.cleanup_usages_for_file(&file_path);\n        self.usages.remove(&file_path);",
   "        self.purge_usages_of_file(&file_path);\n        self.usages.remove(&file_path);"),
  ("src/fixtures/analyzer.rs",
   "    fn cleanup_usages_for_file(&self, file_path: &PathBuf) {",
   "    fn purge_usages_of_file(&self, file_path: &PathBuf) {")])

b("or_insert_with_instead_of_or_default", [("src/fixtures/analyzer.rs",
   "        self.usages\n            .entry(file_path_buf.clone())\n            .or_default()\n            .push(usage.clone());",
   "        self.usages\n            .entry(file_path_buf.clone())\n            .or_insert_with(Vec::new)\n            .push(usage.clone());")])

b("module_loop_as_for_each", [("src/fixtures/analyzer.rs",
   "            for stmt in &module.body {\n                self.visit_stmt(stmt, &file_path, is_conftest, content, &line_index);\n            }",
   "            module\n                .body\n                .iter()\n                .for_each(|stmt| self.visit_stmt(stmt, &file_path, is_conftest, content, &line_index));")])

b("fresh_flag_as_const", [("src/fixtures/analyzer.rs",
   "    pub(crate) fn analyze_file_fresh(&self, file_path: PathBuf, content: &str) {\n        self.analyze_file_internal(file_path, content, false);",
   "    pub(crate) fn analyze_file_fresh(&self, file_path: PathBuf, content: &str) {\n        const CLEAN: bool = false;\n        self.analyze_file_internal(file_path, content, CLEAN);")])

b("new_stamped_cache", [("src/fixtures/mod.rs",
   "    pub plugin_fixture_files: Arc<DashMap<PathBuf, ()>>,\n}",
   "    pub plugin_fixture_files: Arc<DashMap<PathBuf, ()>>,\n    /// Cache of word counts per file (content_hash, count).\n    pub word_count_cache: Arc<DashMap<PathBuf, (u64, Arc<usize>)>>,\n}"),
  ("src/fixtures/mod.rs",
   "            plugin_fixture_files: Arc::new(DashMap::new()),\n        }",
   "            plugin_fixture_files: Arc::new(DashMap::new()),\n            word_count_cache: Arc::new(DashMap::new()),\n        }"),
  ("src/fixtures/mod.rs",
   "    /// Compute a hash of the content for cache invalidation.",
   "    #[allow(dead_code)]\n    pub(crate) fn get_word_count(&self, file_path: &Path, content: &str) -> Arc<usize> {\n        let content_hash = Self::hash_content(content);\n        if let Some(cached) = self.word_count_cache.get(file_path) {\n            let (cached_hash, cached_count) = cached.value();\n            if *cached_hash == content_hash {\n                return Arc::clone(cached_count);\n            }\n        }\n        let count = Arc::new(content.split_whitespace().count());\n        self.word_count_cache\n            .insert(file_path.to_path_buf(), (content_hash, Arc::clone(&count)));\n        count\n    }\n\n    /// Compute a hash of the content for cache invalidation.")])

b("path_param_type", [("src/fixtures/analyzer.rs",
   "    fn cleanup_definitions_for_file(&self, file_path: &PathBuf) {",
   "    fn cleanup_definitions_for_file(&self, file_path: &Path) {"),
  ("src/fixtures/analyzer.rs",
   "        let fixture_names = match self.file_definitions.remove(file_path) {",
   "        let fixture_names = match self.file_definitions.remove(file_path) {")])

b("hoist_scope_mismatch_lookup", [("src/fixtures/resolver.rs",
   "            // Find the definition in this file\n            let Some(fixture_def) = definitions.iter().find(|d| d.file_path == file_path) else {\n                continue;\n            };",
   "            // Find the definition in this file\n            let in_this_file = |d: &&FixtureDefinition| d.file_path == file_path;\n            let Some(fixture_def) = definitions.iter().find(in_this_file) else {\n                continue;\n            };")])

b("exit_code_variable", [("src/main.rs",
   "    // Exit with code 1 to signal unused fixtures found (useful for CI)\n    std::process::exit(1);",
   "    // Exit with code 1 to signal unused fixtures found (useful for CI)\n    let code = 1;\n    std::process::exit(code);")])

b("gate_via_local", [("src/providers/diagnostics.rs",
   "        if !config.is_diagnostic_disabled(\"scope-mismatch\") {",
   "        let scope_checks_enabled = !config.is_diagnostic_disabled(\"scope-mismatch\");\n        if scope_checks_enabled {")])

b("yield_visitor_helper", [("src/fixtures/analyzer.rs",
   "            Stmt::With(with_stmt) => {\n                for s in &with_stmt.body {\n                    if let Some(line) = self.find_yield_in_stmt(s, line_index) {\n                        return Some(line);\n                    }\n                }\n                None\n            }\n            Stmt::AsyncWith(with_stmt) => {\n                for s in &with_stmt.body {\n                    if let Some(line) = self.find_yield_in_stmt(s, line_index) {\n                        return Some(line);\n                    }\n                }\n                None\n            }",
   "            Stmt::With(with_stmt) => self.find_yield_line(&with_stmt.body, line_index),\n            Stmt::AsyncWith(with_stmt) => self.find_yield_line(&with_stmt.body, line_index),")])

b("canonicalise_in_wrappers", [("src/fixtures/analyzer.rs",
   "    pub fn analyze_file(&self, file_path: PathBuf, content: &str) {\n        self.analyze_file_internal(file_path, content, true);",
   "    pub fn analyze_file(&self, file_path: PathBuf, content: &str) {\n        let file_path = self.get_canonical_path(file_path);\n        self.analyze_file_internal(file_path, content, true);"),
  ("src/fixtures/analyzer.rs",
   "    pub(crate) fn analyze_file_fresh(&self, file_path: PathBuf, content: &str) {\n        self.analyze_file_internal(file_path, content, false);",
   "    pub(crate) fn analyze_file_fresh(&self, file_path: PathBuf, content: &str) {\n        let file_path = self.get_canonical_path(file_path);\n        self.analyze_file_internal(file_path, content, false);"),
  ("src/fixtures/analyzer.rs",
   "        // Use cached canonical path to avoid repeated filesystem calls\n        let file_path = self.get_canonical_path(file_path);\n",
   "")])

b("extract_reset_helper", [("src/fixtures/analyzer.rs",
   "        // Clear previous usages for this file (only after successful parse)\n        self.cleanup_usages_for_file(&file_path);\n        self.usages.remove(&file_path);\n\n        // Clear previous undeclared fixtures for this file\n        self.undeclared_fixtures.remove(&file_path);\n\n        // Clear previous imports for this file\n        self.imports.remove(&file_path);\n",
   "        self.reset_file_state(&file_path);\n"),
  ("src/fixtures/analyzer.rs",
   "    /// Remove definitions that were in a specific file.\n    /// Uses the file_definitions reverse index",
   "    /// Drop everything recorded for a file except its definitions.\n    fn reset_file_state(&self, file_path: &PathBuf) {\n        self.cleanup_usages_for_file(file_path);\n        self.usages.remove(file_path);\n        self.undeclared_fixtures.remove(file_path);\n        self.imports.remove(file_path);\n    }\n\n    /// Remove definitions that were in a specific file.\n    /// Uses the file_definitions reverse index")])

b("extract_visit_helper", [("src/fixtures/analyzer.rs",
   "            // Second pass: analyze fixtures and tests\n            for stmt in &module.body {\n                self.visit_stmt(stmt, &file_path, is_conftest, content, &line_index);\n            }",
   "            // Second pass: analyze fixtures and tests\n            self.visit_module_body(&module.body, &file_path, is_conftest, content, &line_index);"),
  ("src/fixtures/analyzer.rs",
   "    /// Remove definitions that were in a specific file.\n    /// Uses the file_definitions reverse index",
   "    fn visit_module_body(&self, body: &[Stmt], file_path: &PathBuf, is_conftest: bool, content: &str, line_index: &[usize]) {\n        for stmt in body {\n            self.visit_stmt(stmt, file_path, is_conftest, content, line_index);\n        }\n    }\n\n    /// Remove definitions that were in a specific file.\n    /// Uses the file_definitions reverse index")])

b("parent_step_as_let_else", [("src/fixtures/resolver.rs",
   "                    return Some(def.clone());\n                }\n            }\n\n            match current_dir.parent() {\n                Some(parent) => current_dir = parent,\n                None => break,\n            }\n        }\n\n        // Priority 3: Plugin fixtures (discovered via pytest11 entry points)",
   "                    return Some(def.clone());\n                }\n            }\n\n            let Some(parent) = current_dir.parent() else {\n                break;\n            };\n            current_dir = parent;\n        }\n\n        // Priority 3: Plugin fixtures (discovered via pytest11 entry points)")])

b("cycle_dfs_visited_test_at_pop", [("src/fixtures/resolver.rs",
   "                    } else if !visited.contains(dep) {\n                        // Explore this dependency\n                        stack.push((dep.clone(), 0, path.clone()));\n                    }",
   "                    } else {\n                        // Explore this dependency (finished nodes are dropped when popped)\n                        stack.push((dep.clone(), 0, path.clone()));\n                    }"),
  ("src/fixtures/resolver.rs",
   "                if idx == 0 {\n                    // First time visiting this node\n                    if rec_stack.contains(&current) {",
   "                if idx == 0 && visited.contains(&current) {\n                    continue;\n                }\n                if idx == 0 {\n                    // First time visiting this node\n                    if rec_stack.contains(&current) {")])

b("decorator_scan_as_while", [("src/fixtures/resolver.rs",
   "            if trimmed.is_empty() {\n                // Skip blank lines between decorators and def\n                if i == 0 {\n                    break;\n                }\n                i -= 1;\n                continue;\n            }",
   "            if trimmed.is_empty() && i == 0 {\n                break;\n            }\n            if trimmed.is_empty() {\n                // Skip blank lines between decorators and def\n                i -= 1;\n                continue;\n            }")])
